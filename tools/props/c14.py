"""C14 — copying and persistence round-trip exactly.

Campaign (implementation in worker processes, model inside Coq through Corr/C14Judge.v):
  * save_npz -> load_npz (compressed and uncompressed), pickle (every protocol), copy.copy / copy.deepcopy /
    .copy(deep=...) with buffer-sharing observations, a pass through numba @njit functions (COO), over generated
    arrays: 0-d..5-d, empty axes, nnz = 0 / partial / full, 13 dtypes, fills 0 / 3 / NaN / inf / True, COO, GCXS with
    EVERY admissible compressed-axes subset, CSR, CSC.  Every field of the result (class, shape, fill bit pattern,
    compressed_axes, coords / indices / indptr, data bit patterns, dtype) is compared with the model's prediction.
  * the fault part: for saved files EVERY truncation point and EVERY single-byte corruption (XOR 0xFF, XOR 0x01;
    thorough: every single-bit mask) -> the load must raise or give back the original, never another array, never
    hang or crash the process.
  * rewritten archives from which every non-empty subset of the members was removed -> the load must raise.
The former findings D9 (1-d / 0-d GCXS, CSR / CSC), the damaged-file hole (a36d130) and the optional compressed_axes
member (19bbdac) and the Numba shape type (eb8a9b8) were repaired in /repo: no domain clause is left, any recurrence
is a NEW violation (reported without clause)."""
import itertools
import json
import os
import random
import time

import vlib
from vlib import vZ, vbool, vlist, vopt, vpair

LEVEL = "proof"
TRUSTED_BASE = [
    "Coq 8.16.1 kernel + vm_compute (case evaluation); no native_compute",
    "axioms: none (Print Assumptions: Closed under the global context for every C14 theorem)",
    "ORACLE ASSUMPTION (the hypothesis np_load_savez of npz_file_roundtrip and the meaning of the constructors of "
    "Model/Npz.v `file`; not an axiom): numpy.load raises on a byte string without a usable central directory "
    "(`Unreadable`); ZipFile.testzip() reads every member to its end and reports every member whose CRC or local "
    "header does not verify (`Archive false _`); the members of an archive that passes testzip read back as stored, "
    "and what np.savez(_compressed) wrote is such an archive holding exactly the saved members.  Byte-level "
    "container integrity (CRC-32, deflate) is zipfile's; it is exercised, not proved, by the exhaustive truncation / "
    "single-byte-corruption campaign",
    "tools/sitegen/npz.py: extraction of the save_npz member table, the type(matrix) is ... chain, np.load "
    "arguments, load_npz attempts (reads, constructor wiring, flags, handlers), __getstate__/__setstate__ lists, "
    "copy() bodies, absence of copy hooks, Numba box/unbox field lists (fail-closed on any other shape of the AST)",
    "Model/Npz.v as a transcription of COO.__init__ (load / boxing path), GCXS.__init__ (tuple path), "
    "check_compressed_axes, copy.copy / copy.deepcopy via __reduce_ex__, Numba unboxing of a UniTuple as reduction "
    "modulo 2^w; each compared with the implementation on every generated case",
    "pickle's byte serialisation, copy's reconstruction protocol and Numba's native representation are not "
    "modelled below the level of the state object / the four native fields (differential only)",
    "the CRC half of the oracle is a theorem for single-byte payload damage (crc32_detects_single_byte, "
    "testzip_detects_corruption, npz_payload_corruption_rejected over Model/Crc32.v); what stays trusted there: "
    "ZipFile.testzip() recomputes the CRC-32 of every member's (decompressed) payload and compares it with the "
    "recorded CRC, and Model/Crc32.v is zlib's crc32 (compared on random messages and on the members / CRC fields of "
    "real np.savez archives in every run)",
    "correspondence harness tools/props/c14.py, tools/vlib.py",
]
ASSUMPTIONS = [
    "element values are opaque tokens (bit patterns); dtype preservation is checked differentially, not proved",
    "OS-level partial writes are represented only by truncation of the byte string",
    "object-dtype data and user-defined subclasses of COO are outside the generated inputs",
]

DTYPES = ["int8", "int16", "int32", "int64", "uint8", "uint16", "uint32", "uint64",
          "float32", "float64", "complex64", "complex128", "bool"]
CLAUSES = {}
MEMBERS = ["data", "shape", "fill_value", "coords", "indices", "indptr", "compressed_axes"]
KCODE = {"COO": 0, "GCXS": 1, "CSR": 2, "CSC": 3}
EXC_CODE = {"ValueError": 1, "RuntimeError": 2, "TypeError": 3, "IndexError": 4}


# =========================================================================== implementation side (workers)
def fill_of(name, dt):
    import numpy as np
    if name == "0":
        return dt.type(0)
    if name == "3":
        return dt.type(3) if dt.kind != "b" else dt.type(True)
    if name == "nan":
        return dt.type(np.nan)
    if name == "inf":
        return dt.type(np.inf)
    if name == "true":
        return dt.type(True)
    raise ValueError(name)


def make_array(spec):
    """array of the spec; deterministic"""
    import numpy as np
    import sparse
    from sparse.numba_backend._compressed import CSC, CSR
    shape = tuple(spec["shape"])
    dt = np.dtype(spec["dtype"])
    fv = fill_of(spec["fill"], dt)
    if spec.get("raw"):
        # COO given by explicit coordinates in a narrow index dtype (no can_store check on this path)
        r = spec["raw"]
        coords = (np.array(r["coords"], dtype=r["idx"]).reshape(len(shape), -1) if shape
                  else np.zeros((0, len(r["data"])), dtype=r["idx"]))
        data = np.array(r["data"], dtype=dt)
        return sparse.COO(coords, data, shape=shape, fill_value=fv)
    rng = np.random.default_rng(spec["seed"])
    size = int(np.prod(shape, dtype=np.int64))
    dense = np.full(shape, fv, dtype=dt)
    pat = spec["pattern"]
    if "dense" in spec:
        dense = np.array(spec["dense"], dtype=dt).reshape(shape)
    elif pat != "empty" and size:
        k = size if pat == "full" else max(1, size // 3)
        pos = rng.choice(size, k, replace=False)
        if dt.kind == "b":
            vals = np.full(k, not bool(fv))
        else:
            vals = np.array([1, 2, 4, 5, 6, 7])[np.arange(k) % 6]
        flat = dense.reshape(-1)
        flat[pos] = vals.astype(dt)
        dense = flat.reshape(shape)
    coo = sparse.COO.from_numpy(dense, fill_value=fv)
    fmt = spec["fmt"]
    if fmt == "coo":
        return coo
    if fmt == "gcxs":
        return sparse.GCXS.from_coo(coo, compressed_axes=spec["axes"])
    if fmt == "csr":
        return CSR.from_numpy(dense, fill_value=fv)
    if fmt == "csc":
        return CSC.from_numpy(dense, fill_value=fv)
    raise ValueError(fmt)


def tok(v):
    return int.from_bytes(v.tobytes(), "little")


def toks(a):
    import numpy as np
    a = np.ascontiguousarray(a)
    n = a.dtype.itemsize
    b = a.tobytes()
    return [int.from_bytes(b[i:i + n], "little") for i in range(0, len(b), n)]


def fields(y):
    """the observable representation of an array, as plain Python data"""
    import numpy as np
    import sparse
    name = type(y).__name__
    if name not in KCODE:
        raise TypeError("unexpected class " + name)
    dt = y.dtype.name
    base = {"k": KCODE[name], "shape": [int(s) for s in y.shape], "fill": tok(np.asarray(y.fill_value)),
            "fill_dtype": np.asarray(y.fill_value).dtype.name,
            "dtype": DTYPES.index(dt) if dt in DTYPES else 99, "data": toks(y.data)}
    if isinstance(y, sparse.COO):
        c = np.asarray(y.coords)
        base.update({"axes": None, "coords": [[int(v) for v in col] for col in c.T.tolist()] if c.shape[0] else [[] for _ in range(c.shape[1])],
                     "indices": [], "indptr": [], "idx": c.dtype.name})
    else:
        ca = y.compressed_axes
        base.update({"axes": None if ca is None else [int(a) for a in ca], "coords": [],
                     "indices": [int(v) for v in np.asarray(y.indices).ravel().tolist()],
                     "indptr": [int(v) for v in np.asarray(y.indptr).ravel().tolist()], "idx": None})
    return base


def outcome_of(fn):
    try:
        y = fn()
    except Exception as ex:  # noqa: BLE001
        return {"exc": type(ex).__name__, "msg": str(ex)[:120]}, None
    try:
        return {"out": fields(y)}, y
    except Exception as ex:  # noqa: BLE001
        return {"exc": "FieldsError:" + type(ex).__name__, "msg": str(ex)[:120]}, None


BUF_ATTRS = ["coords", "data", "indices", "indptr"]


def sharing(x, y):
    import numpy as np
    out = []
    for code, a in enumerate(BUF_ATTRS):
        if not hasattr(x, a) or not hasattr(y, a):
            continue
        u, v = getattr(x, a), getattr(y, a)
        if not isinstance(u, np.ndarray) or not isinstance(v, np.ndarray):
            continue
        out.append([code, bool(u is v or np.shares_memory(u, v)), bool(u is v)])
    return out


def impl_ops(spec):
    """all non-Numba round trips of one array"""
    import copy
    import io
    import pickle
    import numpy as np
    import sparse
    x = make_array(spec)
    res = {"in": fields(x), "ops": {}}
    dense0 = x.todense().tobytes() if not spec.get("raw") else None
    for comp in (True, False):
        def rt(comp=comp):
            b = io.BytesIO()
            sparse.save_npz(b, x, compressed=comp)
            b.seek(0)
            return sparse.load_npz(b)
        o, _ = outcome_of(rt)
        res["ops"]["npz_c" if comp else "npz_u"] = o
    protos = range(pickle.HIGHEST_PROTOCOL + 1) if spec.get("tier") != "quick" else (0, 2, pickle.HIGHEST_PROTOCOL)
    for p in protos:
        o, _ = outcome_of(lambda p=p: pickle.loads(pickle.dumps(x, protocol=p)))
        res["ops"][f"pickle_{p}"] = o
    for name, deep, fn in (("copy.copy", False, lambda: copy.copy(x)), ("copy.deepcopy", True, lambda: copy.deepcopy(x)),
                           ("copy(deep=True)", True, lambda: x.copy(deep=True)), ("copy(deep=False)", False, lambda: x.copy(deep=False)),
                           ("copy()", True, lambda: x.copy()),
                           # `deep` is a truth value, not the literal True / False (seeded C14-m5: `deep is True`)
                           ("copy(deep=np.True_)", True, lambda: x.copy(deep=np.True_)), ("copy(deep=1)", True, lambda: x.copy(deep=1)),
                           ("copy(deep=np.False_)", False, lambda: x.copy(deep=np.False_)), ("copy(deep=0)", False, lambda: x.copy(deep=0))):
        o, y = outcome_of(fn)
        o["deep"] = deep
        if y is not None:
            o["shared"] = sharing(x, y)
            if deep and x.data.size:
                # behavioural check of disjointness: a write into the copy must not show through the original
                y.data[...] = np.zeros((), dtype=y.data.dtype)
                o["orig_after_write"] = fields(x) == res["in"]
        res["ops"][name] = o
    if dense0 is not None:
        res["dense_unchanged"] = x.todense().tobytes() == dense0
    return res


_NB = {}


def impl_numba(spec):
    import numba
    import sparse
    if "ident" not in _NB:
        @numba.njit
        def ident(s):
            return s

        @numba.njit
        def construct(c, d, sh):
            return sparse.COO(c, d, sh)
        _NB["ident"], _NB["construct"] = ident, construct
    x = make_array(spec)
    res = {"in": fields(x), "ops": {}, "bits": x.coords.dtype.itemsize * 8, "signed": x.coords.dtype.kind == "i"}
    o, y = outcome_of(lambda: _NB["ident"](x))
    res["ops"]["numba_identity"] = o
    if spec["fill"] == "0":
        o, y = outcome_of(lambda: _NB["construct"](x.coords, x.data, x.shape))
        res["ops"]["numba_construct"] = o
    return res


_FILES = {}


def saved_file(spec, compressed):
    import io
    import sparse
    key = (json.dumps(spec, sort_keys=True), compressed)
    if key not in _FILES:
        x = make_array(spec)
        b = io.BytesIO()
        sparse.save_npz(b, x, compressed=compressed)
        _FILES[key] = (fields(x), b.getvalue())
    return _FILES[key]


def as_saved_fields(f):
    """what an intact file gives back: a CSR / CSC is loaded as a plain GCXS with the same fields"""
    g = dict(f)
    if g["k"] in (2, 3):
        g["k"] = 1
    return g


def load_bytes(buf, orig):
    """0 raised | 1 the array an intact file gives | 2 a different array"""
    orig = as_saved_fields(orig)
    import io
    import sparse
    try:
        y = sparse.load_npz(io.BytesIO(buf))
    except Exception as ex:  # noqa: BLE001
        return 0, type(ex).__name__
    try:
        f = fields(y)
    except Exception as ex:  # noqa: BLE001
        return 2, "unobservable:" + type(ex).__name__
    return (1, None) if f == orig else (2, f)


def impl_crc(case):
    """the payload and the recorded CRC of every member of a saved archive"""
    import io
    import zipfile
    spec, compressed = case
    _orig, buf = saved_file(spec, compressed)
    z = zipfile.ZipFile(io.BytesIO(buf))
    return {"members": [(i.filename, list(z.read(i.filename)), int(i.CRC)) for i in z.infolist()]}


def impl_replaced(case):
    """rewrite the saved archive with one integer member altered (how: short / long / empty) and load it"""
    import io
    import numpy as np
    import sparse
    spec, compressed, code, how = case
    orig, buf = saved_file(spec, compressed)
    d = dict(np.load(io.BytesIO(buf)))
    name = MEMBERS[code]
    a = np.asarray(d[name]).ravel()
    new = {"short": a[:-1] if a.size else a, "long": np.concatenate([a, a[-1:] if a.size else np.zeros(1, dtype=np.int64)]),
           "empty": a[:0]}[how]
    if new.dtype.kind == "f":
        new = new.astype(np.int64)
    d[name] = new
    out = io.BytesIO()
    (np.savez_compressed if compressed else np.savez)(out, **d)
    o, _ = outcome_of(lambda: sparse.load_npz(io.BytesIO(out.getvalue())))
    return {"in": orig, "new": [int(v) for v in new.tolist()], "changed": new.size != a.size, "outcome": o}


def impl_missing(case):
    """rewrite the saved archive without the listed members and load it"""
    import io
    import zipfile
    import sparse
    spec, compressed, dropped = case
    orig, buf = saved_file(spec, compressed)
    drop = {MEMBERS[c] + ".npy" for c in dropped}
    src = zipfile.ZipFile(io.BytesIO(buf))
    names = src.namelist()
    out = io.BytesIO()
    with zipfile.ZipFile(out, "w", zipfile.ZIP_DEFLATED if compressed else zipfile.ZIP_STORED) as z:
        for n in names:
            if n not in drop:
                z.writestr(n, src.read(n))
    o, _ = outcome_of(lambda: sparse.load_npz(io.BytesIO(out.getvalue())))
    return {"in": orig, "members": names, "removed": sorted(drop & set(names)), "outcome": o}


def fault_positions(buf, kind, part, parts):
    """positions of a batch.  trunc / xorMM: every byte of the file; hdrMM (boundary-directed): the 128 bytes that
    follow every npy magic string visible in the file (header length field and header dictionary of each member)"""
    n = len(buf)
    if kind.startswith("dig"):
        # the first digit of the dtype width in every visible npy header: 'descr': '<i8'
        import re
        pos = [m.start(1) for m in re.finditer(rb"'descr': '[<>=|][A-Za-z](\d)", buf)]
    elif kind.startswith("hdr"):
        pos, i = [], buf.find(b"\x93NUMPY")
        while i >= 0:
            pos += [p for p in range(i, min(n, i + 128))]
            i = buf.find(b"\x93NUMPY", i + 1)
        pos = sorted(set(pos))
    else:
        pos = range(n)
    return [p for k, p in enumerate(pos) if k % parts == part]


def apply_fault(buf, kind, i):
    if kind == "trunc":
        return buf[:i]
    if kind.startswith("dig"):
        bb = bytearray(buf)
        bb[i] = ord(kind[3])           # dig1 / dig2 / dig4 / dig8: the width digit becomes 1 / 2 / 4 / 8
        return bytes(bb)
    mask = int(kind[3:], 16)
    bb = bytearray(buf)
    bb[i] ^= mask
    return bytes(bb)


def impl_fault(case):
    spec, compressed, kind, part, parts, only = case
    orig, buf = saved_file(spec, compressed)
    pos = fault_positions(buf, kind, part, parts) if only is None else list(only)
    outs, hist, diffs = [], {}, []
    want = as_saved_fields(orig)
    other_pos = []      # positions whose different array is NOT just "compressed_axes became None"
    for i in pos:
        code, info = load_bytes(apply_fault(buf, kind, i), orig)
        outs.append(code)
        if code == 2:
            axes_only = (isinstance(info, dict) and info.get("axes") is None
                         and [k for k in want if k not in ("axes", "idx", "fill_dtype") and info.get(k) != want[k]] == [])
            if not axes_only:
                other_pos.append(i)
        key = {0: "exc:" + str(info), 1: "same", 2: "DIFFERENT"}[code]
        hist[key] = hist.get(key, 0) + 1
        if code == 2 and len(diffs) < 3:
            lo = max(0, i - 24)
            diffs.append({"pos": i, "context_before": buf[lo:i].hex(), "byte": buf[i] if i < len(buf) else None,
                          "loaded": info if isinstance(info, str) else {k: (v if not isinstance(v, list) or len(v) < 12 else v[:12] + ["..."])
                                                                        for k, v in info.items()}})
    # the complete file itself must load as the original
    whole, _ = load_bytes(buf, orig)
    return {"in": orig, "len": len(buf), "positions": pos, "outs": outs, "hist": hist,
            "diffs": diffs, "whole": whole, "other_pos": other_pos}


# =========================================================================== generation (driver)
# the witnesses of the ..._refuted theorems (Proofs/NpzP.v), replayed literally: (theorem, spec, operation, verdict code)
def _w(fmt, shape, dense, axes):
    return {"fmt": fmt, "shape": shape, "axes": axes, "pattern": "dense", "dense": dense, "dtype": "int64", "fill": "0", "seed": 0}


# no ..._refuted theorem is left: nothing to replay
WITNESSES = []
# the former Numba counter-examples, now ordinary in-domain cases
FORMER_NB = [
    {"fmt": "coo", "shape": [300], "axes": None, "pattern": "raw", "dtype": "int64", "fill": "0", "seed": 0,
     "raw": {"idx": "int8", "coords": [[0, 1]], "data": [5, 6]}},
    {"fmt": "coo", "shape": [], "axes": None, "pattern": "raw", "dtype": "int64", "fill": "0", "seed": 0,
     "raw": {"idx": "int64", "coords": [], "data": [7]}},
]
# arrays of the former D9 witnesses (now inside the proved domain) are kept as ordinary cases
FORMER_D9 = [_w("gcxs", [6], [0, 5, 6, 0, 0, 0], None), _w("csr", [2, 3], [[0, 5, 0], [0, 0, 6]], [0]),
             _w("csc", [2, 3], [[0, 5, 0], [0, 0, 6]], [1])]
# the former witness of the missing-member refutation (3-d GCXS file without its compressed_axes member): now an
# ordinary case that must raise
MM_FORMER = {"fmt": "gcxs", "shape": [2, 3, 4], "axes": [0, 2], "pattern": "partial", "dtype": "int64", "fill": "0", "seed": 21}


# COOs given by explicit coordinates in a narrow index dtype, with extents around and beyond the width of that dtype
NARROW_RAW = [("int8", [127], [[0, 100]]), ("int8", [128], [[0, 100]]), ("int8", [200], [[0, 100]]), ("int8", [300], [[0, 1]]),
              ("int8", [300], [[0, 100]]), ("int8", [256], [[]]), ("uint8", [255], [[0, 254]]), ("uint8", [256], [[0, 255]]),
              ("uint8", [300], [[0, 3]]), ("uint8", [256], [[]]), ("int16", [3, 40000], [[0, 2], [5, 30000]]),
              ("int16", [2, 32767], [[0, 1], [5, 30000]]), ("uint16", [65536, 2], [[0, 70], [0, 1]]),
              ("int32", [5, 7], [[0, 4], [1, 6]]), ("uint64", [5, 7], [[0, 4], [1, 6]]), ("int8", [2, 3, 300], [[0, 1], [1, 2], [0, 9]]),
              ("int16", [70000], [[0, 32767]]), ("uint8", [1000, 2], [[0, 255], [1, 0]]), ("int8", [128, 129, 2], [[0, 127], [5, 127], [0, 1]]),
              ("uint16", [2, 100000], [[0, 1], [3, 65535]]), ("int32", [3000000000], [[0, 2147483647]])]


def raw_spec(idx, shape, coords):
    n = len(coords[0])
    return {"fmt": "coo", "shape": shape, "axes": None, "pattern": "raw", "dtype": "int64", "fill": "0", "seed": 0,
            "raw": {"idx": idx, "coords": coords, "data": list(range(5, 5 + n))}}


def axes_subsets(nd):
    return [list(c) for r in range(1, nd) for c in itertools.combinations(range(nd), r)]


def fills_for(dtype):
    if dtype == "bool":
        return ["0", "true"]
    if dtype.startswith(("float", "complex")):
        return ["0", "3", "nan", "inf", "true"]
    return ["0", "3", "true"]


def gen_specs(tier, rng):
    shapes = {0: [()], 1: [(0,), (1,), (5,)], 2: [(0, 3), (3, 0), (1, 1), (2, 3)], 3: [(2, 0, 3), (2, 3, 2)],
              4: [(2, 1, 2, 2)], 5: [(2, 2, 1, 2, 2), (1, 0, 2, 1, 3)]}
    if tier != "quick":
        shapes[1] += [(2,), (7,)]
        shapes[2] += [(1, 5), (5, 1), (3, 3), (4, 2)]
        shapes[3] += [(1, 1, 1), (3, 2, 2), (0, 0, 2)]
        shapes[4] += [(2, 2, 2, 2), (3, 0, 1, 2), (1, 2, 3, 2)]
        shapes[5] += [(2, 2, 2, 2, 2), (3, 1, 2, 1, 2)]
    patterns = ["empty", "partial", "full"]
    specs = []
    combos = [(d, f) for d in DTYPES for f in fills_for(d)]
    state = {"i": 0}

    def nxt():
        # walk the dtype x fill table so that every combination is used, then continue at random
        i = state["i"]
        state["i"] += 1
        return combos[i] if i < len(combos) else rng.choice(combos)

    def add(fmt, shape, axes, pat):
        d, f = nxt()
        specs.append({"fmt": fmt, "shape": list(shape), "axes": axes, "pattern": pat, "dtype": d, "fill": f,
                      "seed": rng.randrange(1 << 30)})
    for nd in sorted(shapes):
        for sh in shapes[nd]:
            for pat in patterns:
                add("coo", sh, None, pat)
                if nd < 2:
                    add("gcxs", sh, None, pat)          # compressed_axes is None
                else:
                    for ax in axes_subsets(nd):
                        add("gcxs", sh, ax, pat)
                if nd == 2:
                    add("csr", sh, [0], pat)             # comes back as a plain GCXS
                    add("csc", sh, [1], pat)
    specs.extend(FORMER_D9)
    # narrow-coordinate COOs whose extents exceed the coordinate dtype: save/load, pickle, copy like any other array
    specs.extend(raw_spec(*r) for r in NARROW_RAW)
    specs.extend(FORMER_NB)
    # the full dtype x fill table on one 2-d shape, COO and GCXS (both axes)
    for d, f in combos:
        for fmt, ax in (("coo", None), ("gcxs", [0]), ("gcxs", [1])):
            specs.append({"fmt": fmt, "shape": [3, 4], "axes": ax, "pattern": "partial", "dtype": d, "fill": f,
                          "seed": rng.randrange(1 << 30)})
    return specs


def gen_numba_specs(tier, rng, specs):
    out = []
    seen = set()
    # one COO per (dtype, ndim) class that occurs, preferring non-empty patterns; limited in the quick tier
    pool = [s for s in specs if s["fmt"] == "coo"]
    rng.shuffle(pool)
    limit = 36 if tier == "quick" else 140
    for s in pool:
        key = (s["dtype"], len(s["shape"])) if tier != "quick" else (s["dtype"] if len(s["shape"]) == 2 else "int64", len(s["shape"]))
        if tier == "quick" and len(s["shape"]) != 2 and s["dtype"] not in ("int64", "float64"):
            continue
        cnt = sum(1 for k in seen if k[:2] == key)
        if cnt >= 3:
            continue
        seen.add(key + (cnt,))
        out.append(s)
        if len(out) >= limit:
            break
    # narrow coordinate dtypes with extents around and beyond the width of the dtype (ordinary cases since eb8a9b8)
    raw = NARROW_RAW
    for pat in ("empty", "full"):
        out.append({"fmt": "coo", "shape": [], "axes": None, "pattern": pat, "dtype": "int64", "fill": "0", "seed": 11})
    out.extend(FORMER_NB)
    for idx, shape, coords in raw:
        n = len(coords[0])
        out.append({"fmt": "coo", "shape": shape, "axes": None, "pattern": "raw", "dtype": "int64", "fill": "0", "seed": 0,
                    "raw": {"idx": idx, "coords": coords, "data": list(range(5, 5 + n))}})
    return out


def gen_fault_files(tier, rng):
    """(spec, compressed, kinds, parts)"""
    small = [
        {"fmt": "coo", "shape": [2, 3], "axes": None, "pattern": "partial", "dtype": "int64", "fill": "0", "seed": 1},
        {"fmt": "gcxs", "shape": [2, 3], "axes": [0], "pattern": "full", "dtype": "float64", "fill": "nan", "seed": 2},
        {"fmt": "coo", "shape": [], "axes": None, "pattern": "empty", "dtype": "int32", "fill": "3", "seed": 3},
        {"fmt": "gcxs", "shape": [2, 2, 3], "axes": [0, 2], "pattern": "partial", "dtype": "uint8", "fill": "3", "seed": 4},
        {"fmt": "coo", "shape": [0, 3], "axes": None, "pattern": "empty", "dtype": "complex64", "fill": "0", "seed": 5},
        {"fmt": "coo", "shape": [5], "axes": None, "pattern": "partial", "dtype": "bool", "fill": "true", "seed": 6},
    ]
    repaired = [   # the classes that could not be loaded at all before the repair
        {"fmt": "gcxs", "shape": [6], "axes": None, "pattern": "partial", "dtype": "int64", "fill": "0", "seed": 12},
        {"fmt": "csr", "shape": [3, 4], "axes": [0], "pattern": "partial", "dtype": "float32", "fill": "3", "seed": 13},
        {"fmt": "gcxs", "shape": [], "axes": None, "pattern": "empty", "dtype": "int16", "fill": "3", "seed": 14},
        {"fmt": "csc", "shape": [24, 25], "axes": [1], "pattern": "full", "dtype": "int64", "fill": "0", "seed": 15},
    ]
    # members larger than zipfile's read-ahead (4096 bytes): the CRC of a member is verified only when it is read to
    # its end, so these files probe what happens when a corrupted header makes numpy stop early
    big = [
        {"fmt": "coo", "shape": [24, 25], "axes": None, "pattern": "full", "dtype": "int64", "fill": "0", "seed": 7},
        {"fmt": "gcxs", "shape": [24, 25], "axes": [0], "pattern": "full", "dtype": "int64", "fill": "0", "seed": 8},
        {"fmt": "coo", "shape": [40, 50], "axes": None, "pattern": "partial", "dtype": "int64", "fill": "0", "seed": 9},
    ]
    kinds = ["trunc", "xorff", "xor01"]
    allbits = ["xor02", "xor04", "xor08", "xor10", "xor20", "xor40", "xor80"]
    # boundary-directed streams, only meaningful on uncompressed files: every single-bit flip of the npy header region,
    # and the dtype width digit replaced by 1 / 2 / 4 / 8 (makes numpy read fewer bytes than the member holds)
    hdr = ["hdr01", "hdr02", "hdr04", "hdr08", "hdr10", "hdr20", "hdr40", "hdr80", "dig1", "dig2", "dig4", "dig8"]
    files = []
    if tier == "quick":
        for s in small[:4]:
            for comp in (True, False):
                files.append((s, comp, kinds + ([] if comp else hdr), 2))
        files.append((repaired[0], False, kinds + hdr, 2))
        files.append((repaired[1], True, kinds, 2))
        files.append((big[2], True, kinds, 12))
        files.append((big[1], False, hdr, 1))
        files.append((big[0], False, hdr, 1))
    else:
        for s in small + repaired[:3]:
            for comp in (True, False):
                files.append((s, comp, kinds + allbits + ([] if comp else hdr[8:]), 4))
        files.append((repaired[3], False, kinds + allbits + hdr[8:], 24))
        for s in big:
            for comp in (True, False):
                files.append((s, comp, kinds + allbits + ([] if comp else hdr[8:]), 24))
        for _ in range(6):
            nd = rng.choice([1, 2, 3, 4])
            sh = [rng.choice([1, 2, 3, 5]) for _ in range(nd)]
            fmt = rng.choice(["coo", "gcxs"]) if nd >= 2 else "coo"
            ax = rng.choice(axes_subsets(nd)) if fmt == "gcxs" else None
            d = rng.choice(DTYPES)
            files.append(({"fmt": fmt, "shape": sh, "axes": ax, "pattern": rng.choice(["partial", "full"]), "dtype": d,
                           "fill": rng.choice(fills_for(d)), "seed": rng.randrange(1 << 30)}, rng.random() < 0.5, kinds, 4))
    return files


def gen_missing_cases(tier):
    """(spec, compressed, removed member codes): every non-empty subset of the members of each file"""
    base = [
        ({"fmt": "coo", "shape": [2, 3], "axes": None, "pattern": "partial", "dtype": "int64", "fill": "0", "seed": 1}, [0, 1, 2, 3]),
        ({"fmt": "coo", "shape": [], "axes": None, "pattern": "full", "dtype": "float64", "fill": "nan", "seed": 2}, [0, 1, 2, 3]),
        ({"fmt": "gcxs", "shape": [6], "axes": None, "pattern": "partial", "dtype": "int64", "fill": "0", "seed": 12}, [0, 1, 2, 4, 5, 6]),
        ({"fmt": "gcxs", "shape": [2, 3], "axes": [1], "pattern": "partial", "dtype": "int32", "fill": "3", "seed": 16}, [0, 1, 2, 4, 5, 6]),
        (MM_FORMER, [0, 1, 2, 4, 5, 6]),
        ({"fmt": "csr", "shape": [3, 4], "axes": [0], "pattern": "partial", "dtype": "float32", "fill": "3", "seed": 13}, [0, 1, 2, 4, 5, 6]),
    ]
    if tier != "quick":
        base += [
            ({"fmt": "gcxs", "shape": [], "axes": None, "pattern": "empty", "dtype": "int16", "fill": "3", "seed": 14}, [0, 1, 2, 4, 5, 6]),
            ({"fmt": "csc", "shape": [3, 4], "axes": [1], "pattern": "full", "dtype": "bool", "fill": "true", "seed": 17}, [0, 1, 2, 4, 5, 6]),
            ({"fmt": "gcxs", "shape": [2, 2, 1, 2, 2], "axes": [1, 3, 4], "pattern": "partial", "dtype": "complex64", "fill": "inf", "seed": 18}, [0, 1, 2, 4, 5, 6]),
        ]
    cases = []
    for spec, mem in base:
        for r in range(1, len(mem) + 1):
            for sub in itertools.combinations(mem, r):
                for comp in ((True, False) if tier != "quick" else (len(cases) % 2 == 0,)):
                    cases.append((spec, comp, list(sub)))
    return cases


# =========================================================================== Coq literals
def jlit(f):
    return vpair(vZ(f["k"]), vlist(f["shape"]), vopt(f["axes"], vlist), vlist(f["coords"], vlist), vlist(f["indices"]),
                 vlist(f["indptr"]), vlist(f["data"]), vZ(f["fill"]), vZ(f["dtype"]))


def olit(o):
    if o is None or o.get("hang"):
        return "(100, None)"
    if "crash" in o:
        return "(101, None)"
    if "out" in o:
        return f"(0, Some {jlit(o['out'])})"
    return f"({EXC_CODE.get(o.get('exc'), 9)}, None)"


IMPORTS = "From Verif Require Import Py Shape COO S_npz Npz Crc32 NpzP C14Judge."


def spec_py(spec):
    return json.dumps(spec, sort_keys=True).replace("null", "None").replace("true", "True").replace("false", "False")


def replay_line(fn, *args):
    a = ", ".join(spec_py(x) if isinstance(x, dict) else repr(x) for x in args)
    return f"import sys; sys.path[:0]=['/verif/tools','{vlib.REPO}']; from props import c14; c14.{fn}({a})"


def kind_of(code):
    return "representation" if code in (2, 8, 9) else "value"


def clause_of(code):
    if 10 <= code < 20:
        return CLAUSES.get(code - 10)
    if 20 <= code < 30:
        return CLAUSES.get(code - 20)
    return None


CODE_TEXT = {2: "the implementation satisfies the property where the model predicts a failure (model stale)",
             3: "the round trip does not reproduce the array, inside the proved domain",
             4: "buffer sharing of the copy differs from the model", 5: "a damaged file was loaded as a different array",
             6: "hang or crash", 7: "same array, different dtype", 8: "model does not reproduce the implementation on a complete file",
             9: "harness produced an input outside the model's well-formedness"}


# =========================================================================== campaign
def campaign(build, tier, seed, report, budget=1):
    rng = random.Random(seed)
    t0 = time.time()
    viol = []
    cov = report["coverage"]
    tags = {}

    def tag(*k):
        key = "/".join(str(x) for x in k)
        tags[key] = tags.get(key, 0) + 1

    specs = gen_specs(tier, rng)
    if tier == "quick":
        # quick tier: pickle protocols 0, 2 and the highest only (all protocols on the dtype x fill table rows)
        for sp in specs[:-len(DTYPES) * 9] if len(specs) > len(DTYPES) * 9 else []:
            sp["tier"] = "quick"
    nb_specs = gen_numba_specs(tier, rng, specs)
    files = gen_fault_files(tier, rng)

    # ---------------------------------------------------------------- round trips
    res = vlib.run_impl("props.c14", "impl_ops", specs, workers=6, per_case_timeout=60.0)
    npz_l, npz_i, pk_l, pk_i, cp_l, cp_i = [], [], [], [], [], []
    evaluations = 0
    for si, (spec, r) in enumerate(zip(specs, res, strict=True)):
        if "in" not in r:
            viol.append({"property": "C14", "op": "roundtrip", "kind": "value", "clause": None, "case": spec, "impl": r,
                         "what": "building or observing the array failed / hung", "replay_py": replay_line("replay_case", spec, "npz_c")})
            continue
        fin = r["in"]
        nd = len(fin["shape"])
        nnzk = "nnz0" if not fin["data"] else "nnz+"
        tag("class", ["COO", "GCXS", "CSR", "CSC"][fin["k"]], f"{nd}d", nnzk)
        tag("dtype", spec["dtype"], "fill", spec["fill"])
        if fin["k"] in (1, 2, 3):
            tag("axes", "None" if fin["axes"] is None else f"{len(fin['axes'])}of{nd}")
        if 0 in fin["shape"]:
            tag("empty-axis")
        if r.get("dense_unchanged") is False:
            viol.append({"property": "C14", "op": "roundtrip", "kind": "value", "clause": None, "case": spec, "impl": r,
                         "what": "the original array changed during the round trips", "replay_py": replay_line("replay_case", spec, "copy.deepcopy")})
        for op, o in r["ops"].items():
            evaluations += 1
            if op.startswith("npz"):
                npz_l.append(vpair(jlit(fin), olit(o)))
                npz_i.append((si, op))
            elif op.startswith("pickle"):
                pk_l.append(vpair(jlit(fin), olit(o)))
                pk_i.append((si, op))
            else:
                sh = vlist(o.get("shared", []), lambda t: vpair(vZ(t[0]), vbool(t[1])))
                cp_l.append(vpair(jlit(fin), vbool(o["deep"]), olit(o), sh))
                cp_i.append((si, op))
                # same-object observations (Python-side consistency: a shallow copy holds the very same ndarray objects,
                # a deep copy none) and the behavioural write test
                for code, shares, same in o.get("shared", []):
                    if (not o["deep"]) and not same:
                        viol.append(mkviol(spec, op, 4, fin, o, "shallow copy holds a different ndarray object for " + BUF_ATTRS[code]))
                if o.get("orig_after_write") is False:
                    viol.append(mkviol(spec, op, 4, fin, o, "a write into the deep copy changed the original"))

    verdicts = {}
    for name, jfn, ctype, lits, idx in (
            ("c14_npz", "judge_npz", "jarr * outcome", npz_l, npz_i),
            ("c14_pickle", "judge_pickle", "jarr * outcome", pk_l, pk_i),
            ("c14_copy", "judge_copy", "jarr * bool * outcome * list (Z * bool)", cp_l, cp_i)):
        for ci, code in build.judge(name, IMPORTS, ctype, jfn, lits, chunk=400):
            si, op = idx[ci]
            viol.append(mkviol(specs[si], op, code, res[si]["in"], res[si]["ops"][op]))
            verdicts[(json.dumps(specs[si], sort_keys=True), op)] = code
            tag("verdict", name, code)

    phase = {"roundtrips_s": round(time.time() - t0, 1)}
    # ---------------------------------------------------------------- Numba
    nres = vlib.run_impl("props.c14", "impl_numba", nb_specs, workers=6, per_case_timeout=90.0)
    nb_l, nb_i = [], []
    for si, (spec, r) in enumerate(zip(nb_specs, nres, strict=True)):
        if "in" not in r:
            viol.append({"property": "C14", "op": "numba_identity", "kind": "value", "clause": None, "case": spec, "impl": r,
                         "what": "hang / crash / failure while building", "replay_py": replay_line("replay_case", spec, "numba_identity")})
            continue
        tag("numba", spec["dtype"], f"{len(spec['shape'])}d", "idx" + str(r["bits"]) + ("s" if r["signed"] else "u"))
        for op, o in r["ops"].items():
            evaluations += 1
            nb_l.append(vpair(jlit(r["in"]), vpair(vZ(r["bits"]), vbool(r["signed"])), vbool(op == "numba_construct"), olit(o)))
            nb_i.append((si, op))
    for ci, code in build.judge("c14_numba", IMPORTS, "jarr * (Z * bool) * bool * outcome", "judge_numba", nb_l, chunk=400):
        si, op = nb_i[ci]
        viol.append(mkviol(nb_specs[si], op, code, nres[si]["in"], nres[si]["ops"][op]))
        verdicts[(json.dumps(nb_specs[si], sort_keys=True), op)] = code
        tag("verdict", "c14_numba", code)
    cov["refuted_witnesses_replayed"] = [
        {"theorem": name, "operation": op, "expected_verdict": code,
         "observed_verdict": verdicts.get((json.dumps(spec, sort_keys=True), op), 0),
         "reproduced": verdicts.get((json.dumps(spec, sort_keys=True), op), 0) == code}
        for name, spec, op, code in WITNESSES]
    for w in cov["refuted_witnesses_replayed"]:
        if not w["reproduced"]:
            report["notes"].append(f"witness of {w['theorem']} did not reproduce on the implementation "
                                   f"(verdict {w['observed_verdict']}, expected {w['expected_verdict']})")

    phase["numba_s"] = round(time.time() - t0 - phase["roundtrips_s"], 1)
    # ---------------------------------------------------------------- CRC-32: Model/Crc32.v against zlib and real archives
    import zlib
    crc_l, crc_what = [], []
    for n in [0, 1, 2, 3, 4, 7, 8, 9, 31, 32, 33, 64, 255, 256, 300] + [rng.randrange(1, 400) for _ in range(40 if tier == "quick" else 200)]:
        msg = [rng.randrange(256) for _ in range(n)]
        if n and rng.random() < 0.2:
            msg = [rng.choice([0, 255])] * n
        crc_l.append(vpair(vlist(msg), vZ(zlib.crc32(bytes(msg)))))
        crc_what.append(("zlib.crc32", n))
    cres = vlib.run_impl("props.c14", "impl_crc", [(f[0], f[1]) for f in files[:4]], workers=2, per_case_timeout=60.0)
    for (spec, comp, _k, _p), r in zip(files[:4], cres, strict=True):
        for name, payload, crc in r.get("members", []):
            if len(payload) <= 1200:
                crc_l.append(vpair(vlist(payload), vZ(crc)))
                crc_what.append(("archive member " + name + (" (deflated)" if comp else " (stored)"), len(payload)))
    evaluations += len(crc_l)
    tag("crc32", "messages", len(crc_l))
    for ci, code in build.judge("c14_crc", IMPORTS, "list Z * Z", "judge_crc", crc_l, chunk=40):
        tag("verdict", "c14_crc", code)
        viol.append({"property": "C14", "op": "crc32_model", "kind": "representation", "clause": None, "verdict_code": code,
                     "what": f"Model/Crc32.v disagrees with {crc_what[ci][0]} on a {crc_what[ci][1]}-byte message",
                     "case": crc_what[ci], "impl": None, "replay_py": "import zlib; print(zlib.crc32(b'123456789'))"})
    cov["crc32_messages_checked"] = len(crc_l)
    # ---------------------------------------------------------------- archives with members removed
    mcases = gen_missing_cases(tier)
    mres = vlib.run_impl("props.c14", "impl_missing", mcases, workers=4, per_case_timeout=60.0)
    m_l = []
    for case, r in zip(mcases, mres, strict=True):
        o = r.get("outcome") if "in" in r else r
        evaluations += 1
        tag("missing", "removed" + str(len(case[2])), "raised" if o and "exc" in o else "loaded" if o and "out" in o else "hang")
        m_l.append(vpair(jlit(r["in"]) if "in" in r else jlit(mres[0]["in"]), vlist(case[2]), olit(o)))
    for ci, code in build.judge("c14_missing", IMPORTS, "jarr * list Z * outcome", "judge_missing", m_l, chunk=400):
        case, r = mcases[ci], mres[ci]
        tag("verdict", "c14_missing", code)
        verdicts[(json.dumps(case[0], sort_keys=True), "missing" + str(case[2]))] = code
        cl = clause_of(code)
        viol.append({"property": "C14", "op": "load_npz_missing_member", "kind": kind_of(code), "clause": cl, "verdict_code": code,
                     "what": f"archive without member(s) {[MEMBERS[c] for c in case[2]]}: " +
                             ("loaded as an array instead of raising" if code == 3 else CODE_TEXT.get(code, str(code))) +
                             (f" (clause {cl})" if cl else ""),
                     "case": {"spec": case[0], "compressed": case[1], "removed": [MEMBERS[c] for c in case[2]]},
                     "impl": r.get("outcome", r), "replay_py": replay_line("replay_missing", case[0], case[1], case[2])})
    # ---------------------------------------------------------------- archives with an altered index pointer / axes member
    rspecs = [
        {"fmt": "gcxs", "shape": [2, 3], "axes": [1], "pattern": "partial", "dtype": "int32", "fill": "3", "seed": 16},
        MM_FORMER,
        {"fmt": "csr", "shape": [3, 4], "axes": [0], "pattern": "partial", "dtype": "float32", "fill": "3", "seed": 13},
        {"fmt": "csc", "shape": [3, 4], "axes": [1], "pattern": "full", "dtype": "bool", "fill": "true", "seed": 17},
        {"fmt": "gcxs", "shape": [6], "axes": None, "pattern": "partial", "dtype": "int64", "fill": "0", "seed": 12},
        {"fmt": "gcxs", "shape": [0, 3], "axes": [0], "pattern": "empty", "dtype": "float64", "fill": "0", "seed": 19},
    ]
    rcases = [(sp, ci % 2 == 0, code, how) for ci, sp in enumerate(rspecs) for code in (5, 6, 4) for how in ("short", "long", "empty")]
    rres = vlib.run_impl("props.c14", "impl_replaced", rcases, workers=4, per_case_timeout=60.0)
    r_l, r_i = [], []
    for ci, (case, r) in enumerate(zip(rcases, rres, strict=True)):
        if "in" not in r:
            viol.append({"property": "C14", "op": "load_npz_altered_member", "kind": "value", "clause": None, "case": case, "impl": r,
                         "what": "hang / crash / harness failure on an archive with an altered member",
                         "replay_py": replay_line("replay_replaced", case[0], case[1], case[2], case[3])})
            continue
        if not r["changed"]:
            continue
        evaluations += 1
        tag("altered", MEMBERS[case[2]], case[3], "raised" if "exc" in r["outcome"] else "loaded")
        r_l.append(vpair(jlit(r["in"]), vZ(case[2]), vlist(r["new"]), olit(r["outcome"])))
        r_i.append(ci)
    for k, code in build.judge("c14_replaced", IMPORTS, "jarr * Z * list Z * outcome", "judge_replaced", r_l, chunk=200):
        case, r = rcases[r_i[k]], rres[r_i[k]]
        tag("verdict", "c14_replaced", code)
        viol.append({"property": "C14", "op": "load_npz_altered_member", "kind": "value" if code in (3, 6) else "representation",
                     "clause": None, "verdict_code": code,
                     "what": f"archive with member {MEMBERS[case[2]]} made {case[3]} ({r['new']}): " +
                             ("an index pointer of the wrong length was loaded as an array" if code == 3 else
                              "the implementation's outcome differs from the model's" if code == 1 else CODE_TEXT.get(code, str(code))),
                     "case": {"spec": case[0], "compressed": case[1], "member": MEMBERS[case[2]], "how": case[3]},
                     "impl": r["outcome"], "replay_py": replay_line("replay_replaced", case[0], case[1], case[2], case[3])})
    # ---------------------------------------------------------------- damaged files
    fcases = []
    for fi, (spec, comp, kinds, parts) in enumerate(files):
        for kind in kinds:
            for part in range(parts):
                fcases.append((spec, comp, kind, part, parts, None))
    fres = vlib.run_impl("props.c14", "impl_fault", fcases, workers=8, per_case_timeout=150.0)
    f_l, f_i = [], []
    fault_loads = 0
    fault_hist = {}
    file_lens = {}
    for ci, (case, r) in enumerate(zip(fcases, fres, strict=True)):
        if "outs" not in r:
            # the loader hung or crashed the worker on some damaged variant of this batch: a violation by itself
            viol.append({"property": "C14", "op": "load_npz_damaged", "kind": "value", "clause": None, "fault_kind": case[2],
                         "case": {"spec": case[0], "compressed": case[1], "kind": case[2], "part": case[3], "parts": case[4]},
                         "impl": r, "verdict_code": 6,
                         "what": "the loader hung or crashed the process on a damaged file (batch level)",
                         "replay_py": replay_line("replay_fault", case[0], case[1], case[2], None)})
            tag("verdict", "c14_fault", 6)
            continue
        fault_loads += len(r["outs"])
        file_lens[(json.dumps(case[0], sort_keys=True), case[1])] = r["len"]
        for k, v in r["hist"].items():
            kk = f"{case[2]}:{k}"
            fault_hist[kk] = fault_hist.get(kk, 0) + v
        if r["whole"] != 1 and case[2] == "trunc" and case[3] == 0:
            viol.append({"property": "C14", "op": "load_npz_complete", "kind": "value", "clause": None, "case": case[0],
                         "impl": r["whole"], "what": "the undamaged file does not load as the original",
                         "replay_py": replay_line("replay_case", case[0], "npz_c" if case[1] else "npz_u")})
        f_l.append(vpair(jlit(r["in"]), vlist(r["outs"])))
        f_i.append(ci)
    mech = {}
    for k, code in build.judge("c14_fault", IMPORTS, "jarr * list Z", "judge_fault", f_l, chunk=40):
        ci = f_i[k]
        case, r = fcases[ci], fres[ci]
        tag("verdict", "c14_fault", code)
        bad = [p for p, o in zip(r["positions"], r["outs"], strict=True) if o == 2]
        hint = None
        n_axes_only = len(bad) - len(r.get("other_pos", []))
        mech["axes_member_hidden"] = mech.get("axes_member_hidden", 0) + n_axes_only
        mech["other"] = mech.get("other", 0) + len(r.get("other_pos", []))
        if bad and not r.get("other_pos"):
            hint = ("only compressed_axes differs (None): the damage hid the compressed_axes member from the archive "
                    "directory (the defect repaired by /repo 19bbdac has come back)")
        elif r.get("other_pos"):
            bad = r["other_pos"] + [b for b in bad if b not in r["other_pos"]]
        v = {"property": "C14", "op": "load_npz_damaged" if (hint or not bad) else "load_npz_damaged_other",
             "kind": kind_of(code), "clause": None, "fault_kind": case[2], "mechanism_hint": hint,
             "case": {"spec": case[0], "compressed": case[1], "kind": case[2], "file_length": r["len"], "positions": bad[:50]},
             "impl": r["diffs"], "verdict_code": code,
             "what": CODE_TEXT.get(code, str(code)) + (": " + case[2] + f" at byte(s) {bad[:10]} of a {r['len']}-byte file" if bad else ""),
             "replay_py": replay_line("replay_fault", case[0], case[1], case[2], bad[0] if bad else None)}
        viol.append(v)
    evaluations += fault_loads

    # ---------------------------------------------------------------- coverage
    cov["evaluations"] = evaluations
    distinct = {json.dumps(r["in"], sort_keys=True) for r in res if "in" in r and (r["in"]["data"] or r["in"]["shape"])}
    cov["distinct_nontrivial"] = len(distinct)
    cov["rule"] = ("round trips: every generated array (exhaustive shapes list x nnz pattern x every admissible compressed-axes "
                   "subset, dtype x fill table walked in order) x {npz compressed, npz uncompressed, pickle protocols 0..5, 5 copy "
                   "calls}; Numba: identity / constructor on COO per (dtype, ndim) class plus narrow-index boundary cases; faults: "
                   "every truncation point and every single-byte XOR (0xFF, 0x01; thorough: every single-bit mask) of each listed "
                   "file; rewritten archives with every non-empty subset of the members removed; evaluations = operation "
                   "results judged + damaged-file loads; distinct_nontrivial = distinct input "
                   "representations that are not the 0-d empty array")
    cov["arrays"] = len(specs)
    cov["numba_arrays"] = len(nb_specs)
    cov["fault_files"] = [{"spec": f[0], "compressed": f[1], "kinds": f[2],
                           "bytes": file_lens.get((json.dumps(f[0], sort_keys=True), f[1]))} for f in files]
    cov["fault_loads"] = fault_loads
    cov["fault_outcomes"] = dict(sorted(fault_hist.items()))
    cov["fault_different_array_mechanisms"] = mech
    cov["exhaustive"] = True
    cov["branch_tags"] = dict(sorted(tags.items()))
    cov["samples"] = [{"spec": specs[i], "in": res[i].get("in"), "npz_c": res[i].get("ops", {}).get("npz_c")}
                      for i in (0, len(specs) // 3, len(specs) - 1)]
    cov["differential_only"] = ["dtype of the result", "pickle byte streams (protocols 0-5)", "Numba native representation"]
    cov["campaign_wall_s"] = round(time.time() - t0, 1)
    phase["faults_s"] = round(cov["campaign_wall_s"] - phase["roundtrips_s"] - phase["numba_s"], 1)
    cov["phase_wall_s"] = phase
    report["notes"].append("loaded GCXS arrays carry numpy integers in .shape / .compressed_axes (equal values; not compared by type)")
    return viol


def mkviol(spec, op, code, fin, o, what=None):
    cl = clause_of(code)
    return {"property": "C14", "op": op.split("_")[0] if op.startswith(("npz", "pickle")) else op, "variant": op,
            "kind": kind_of(code), "clause": cl, "verdict_code": code,
            "what": what or (f"{op}: " + (f"clause {cl}: " if cl else "") +
                             (CODE_TEXT.get(code) or ("the implementation fails as the model predicts" if code < 20 else
                                                     "the implementation fails, but not in the way the model predicts"))),
            "case": spec, "input": fin, "impl": o, "replay_py": replay_line("replay_case", spec, op)}


# =========================================================================== replay helpers
def replay_case(spec, op):
    """run one operation of one array in this process and print what happens"""
    import sys
    sys.path.insert(0, vlib.REPO)
    import warnings
    warnings.filterwarnings("ignore")
    x = make_array(spec)
    print("input :", repr(x), "compressed_axes=", getattr(x, "compressed_axes", None))
    if op.startswith("numba"):
        r = impl_numba(spec)
    else:
        r = impl_ops(spec)
    o = r["ops"].get(op)
    print("input representation :", r["in"])
    print(f"{op} ->", o)
    if o and "out" in o:
        print("equal to input:", o["out"] == r["in"])


def replay_fault(spec, compressed, kind, pos):
    import sys
    sys.path.insert(0, vlib.REPO)
    import warnings
    warnings.filterwarnings("ignore")
    orig, buf = saved_file(spec, compressed)
    print("file of", len(buf), "bytes;", kind, "at", pos)
    if pos is None:
        return
    code, info = load_bytes(apply_fault(buf, kind, pos), orig)
    print({0: "raised", 1: "loaded the original", 2: "LOADED A DIFFERENT ARRAY"}[code], info if code != 2 else "")
    if code == 2:
        print("original:", str(orig)[:400])
        print("loaded  :", str(info)[:400])
        if isinstance(info, dict):
            print("fields that differ:", [k for k in orig if orig[k] != info.get(k)])


def replay_missing(spec, compressed, dropped):
    import sys
    sys.path.insert(0, vlib.REPO)
    import warnings
    warnings.filterwarnings("ignore")
    r = impl_missing((spec, compressed, dropped))
    print("members of the saved file:", r["members"], "removed:", r["removed"])
    print("load_npz ->", str(r["outcome"])[:600])


def replay_replaced(spec, compressed, code, how):
    import sys
    sys.path.insert(0, vlib.REPO)
    import warnings
    warnings.filterwarnings("ignore")
    r = impl_replaced((spec, compressed, code, how))
    print("member", MEMBERS[code], "made", how, "->", r["new"])
    print("load_npz ->", str(r["outcome"])[:600])


def replay(path):
    v = json.load(open(path))
    print(json.dumps(v, indent=1)[:3000])
    if "replay_py" in v:
        import subprocess
        p = subprocess.run([vlib.PY, "-c", v["replay_py"]], env=vlib.env_clean(), capture_output=True, text=True)
        print(p.stdout[-3000:], p.stderr[-800:])
    return 0
