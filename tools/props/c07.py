"""C07 — fill values are never silently wrong; densification is never implicit.

Campaign = the operation x fill matrix.  Every recipe below calls one public operation (named by its key
in the GENERATED site table Gen/S_fill.v, so the list of operations is built from that table; table rows
without a recipe are listed in the evidence) on small arrays whose fill value ranges over
{0, -0.0, 3, NaN, +inf, -inf (float64), 0, 3 (int64), False, True (bool)}, in the formats COO / GCXS / DOK, in two
interpreter generations (SPARSE_AUTO_DENSIFY unset and =1: the switch is read at import).  The worker
classifies the outcome (right = equals NumPy applied to the densified operands at EVERY position,
ValueError, RuntimeError, other exception, SILENTLY WRONG); the comparison with the required policy
(Model/FillRules.v) and with the generated guards runs inside Coq (Corr/C07Judge.v)."""
import json
import os
import random

import vlib
from vlib import vZ, vbool, vlist, vpair

LEVEL = "proof"
TRUSTED_BASE = [
    "Coq 8.16.1 kernel + vm_compute (case evaluation, the finite check of the generated site table); no native_compute",
    "axioms: none (Print Assumptions: Closed under the global context for every C07 theorem)",
    "tools/sitegen/fill.py: the AST walk that extracts guards / constructor fill arguments / delegates per operation "
    "(name resolution by name, one level of inlining; its notion of 'dominating guard' and of a conversion constructor)",
    "tools/py2v.py fragment translator + the extern meanings in Lib/PyFill.v (equivalent = token equality, "
    "loose equivalent = token equality modulo the sign of zero, one NaN token)",
    "Model/FillRules.v:required — the hand-written policy per operation, derived from the property statement",
    "the abstract operation semantics of Model/FillRules.v (guards on the path, then a constructor whose fill is "
    "the classified expression); tied to the code by the operation x fill matrix below",
    "correspondence harness tools/props/c07.py (recipes, NumPy reference on densified operands), tools/vlib.py",
]
ASSUMPTIONS = [
    "an operation whose zero-fill baseline (same recipe, format, dtype) does not return the NumPy result is outside this "
    "property's reach for that format/dtype (missing method, NotImplementedError, C02's malformed GCXS x[None, i]); such cells "
    "are listed under coverage.not_exercised_baseline_fails and are not judged — EXCEPT when the operation returns a wrong "
    "value without raising (then it is reported, e.g. D30)",
    "element values are tokens: one NaN bit pattern; dtype promotion and float rounding are NumPy's (mean/var/std are "
    "compared with a tolerance and reported as differential_only)",
    "the stored part of every result is the subject of C01-C06/C08-C10; here the result is compared as a whole, so a "
    "wrong stored value would also be reported by this check",
    "to_scipy_sparse(accept_fv=<nonzero>) is an explicit request to drop the fill and is not exercised",
]

FMT_CLASS = {"coo": "COO", "gcxs": "GCXS", "dok": "DOK"}
# fill code -> (dtype, python value builder, baseline code, fill class, token)
NEGZERO = (1 << 70) + (1 << 63)
TOK_NAN = (1 << 70) + 0x7FF8000000000000
TOK_PINF = (1 << 70) + 0x7FF0000000000000
TOK_NINF = (1 << 70) + 0xFFF0000000000000
FILLS = {
    "z": ("float64", "0.0", "z", 0), "nz": ("float64", "-0.0", "z", NEGZERO), "3": ("float64", "3.0", "z", 3),
    "nan": ("float64", "nan", "z", TOK_NAN), "pinf": ("float64", "inf", "z", TOK_PINF),
    "ninf": ("float64", "-inf", "z", TOK_NINF), "iz": ("int64", "0", "iz", 0), "i3": ("int64", "3", "iz", 3),
    "F": ("bool", "False", "F", 0), "T": ("bool", "True", "F", 1),
}
OUT_CODE = {"right": 0, "valueerror": 1, "runtimeerror": 2, "other": 3, "wrong": 4, "hang": 5, "unsupported": 6}


# ------------------------------------------------------------------------------------------ recipes
def _recipes():
    """name -> dict(op=key template in the generated table, n=number of sparse operands (1|2), impl, ref, ...).
    impl(S, np, x, y, f) gets the sparse operand(s) and the fill (numpy scalar); ref(np, a, b, f) the dense ones.
    `{C}` in a key template is replaced by the class of the operand's format."""
    R = {}

    def add(name, op, impl, ref, n=1, approx=False, fmts=("coo", "gcxs", "dok"), kinds=None, vec=False, pat="default"):
        R[name] = dict(op=op, impl=impl, ref=ref, n=n, approx=approx, fmts=fmts, kinds=kinds, vec=vec, pat=pat,
                       family=_family(name, op))

    E = "umath.elemwise"
    # ---- element-wise: ufuncs, operators, wrappers (Computes)
    for u in ["sin", "exp", "negative", "sign", "isfinite", "sqrt", "square", "floor", "logical_not", "expm1", "log1p"]:
        add("ufunc_" + u, E, (lambda u: lambda S, np, x, y, f: getattr(np, u)(x))(u),
            (lambda u: lambda np, a, b, f: getattr(np, u)(a))(u))
    add("op_add_scalar", E, lambda S, np, x, y, f: x + 1, lambda np, a, b, f: a + 1)
    add("op_mul_scalar", E, lambda S, np, x, y, f: x * 2, lambda np, a, b, f: a * 2)
    add("op_rsub_scalar", E, lambda S, np, x, y, f: 7 - x, lambda np, a, b, f: 7 - a)
    add("op_pow", E, lambda S, np, x, y, f: x ** 2, lambda np, a, b, f: a ** 2)
    add("op_neg", E, lambda S, np, x, y, f: -x, lambda np, a, b, f: -a)
    add("op_abs", E, lambda S, np, x, y, f: abs(x), lambda np, a, b, f: abs(a))
    add("op_gt_scalar", E, lambda S, np, x, y, f: x > 1, lambda np, a, b, f: a > 1)
    add("op_eq_self", E, lambda S, np, x, y, f: x == x, lambda np, a, b, f: a == a)
    add("op_floordiv", E, lambda S, np, x, y, f: x // 2, lambda np, a, b, f: a // 2)
    add("op_mod", E, lambda S, np, x, y, f: x % 2, lambda np, a, b, f: a % 2)
    add("op_add", E, lambda S, np, x, y, f: x + y, lambda np, a, b, f: a + b, n=2)
    add("op_sub", E, lambda S, np, x, y, f: x - y, lambda np, a, b, f: a - b, n=2)
    add("op_mul", E, lambda S, np, x, y, f: x * y, lambda np, a, b, f: a * b, n=2)
    add("op_div", E, lambda S, np, x, y, f: x / y, lambda np, a, b, f: a / b, n=2)
    add("op_lt", E, lambda S, np, x, y, f: x < y, lambda np, a, b, f: a < b, n=2)
    add("op_ne", E, lambda S, np, x, y, f: x != y, lambda np, a, b, f: a != b, n=2)
    add("np_maximum", E, lambda S, np, x, y, f: np.maximum(x, y), lambda np, a, b, f: np.maximum(a, b), n=2)
    add("np_logical_and", E, lambda S, np, x, y, f: np.logical_and(x, y), lambda np, a, b, f: np.logical_and(a, b), n=2)
    add("elemwise_add", E, lambda S, np, x, y, f: S.elemwise(np.add, x, y), lambda np, a, b, f: a + b, n=2)
    add("elemwise_scalar", E, lambda S, np, x, y, f: S.elemwise(np.multiply, x, 3), lambda np, a, b, f: a * 3)
    add("abs", "common.abs", lambda S, np, x, y, f: S.abs(x), lambda np, a, b, f: np.abs(a))
    add("equal", "common.equal", lambda S, np, x, y, f: S.equal(x, y), lambda np, a, b, f: a == b, n=2)
    add("round", "common.round", lambda S, np, x, y, f: S.round(x), lambda np, a, b, f: np.round(a))
    add("m_round", "SparseArray.round", lambda S, np, x, y, f: x.round(1), lambda np, a, b, f: np.round(a, 1))
    add("isinf", "common.isinf", lambda S, np, x, y, f: S.isinf(x), lambda np, a, b, f: np.isinf(a))
    add("isnan", "common.isnan", lambda S, np, x, y, f: S.isnan(x), lambda np, a, b, f: np.isnan(a))
    add("m_isinf", "{C}.isinf", lambda S, np, x, y, f: x.isinf(), lambda np, a, b, f: np.isinf(a))
    add("m_isnan", "{C}.isnan", lambda S, np, x, y, f: x.isnan(), lambda np, a, b, f: np.isnan(a))
    add("isposinf", "coo_common.isposinf", lambda S, np, x, y, f: S.isposinf(x), lambda np, a, b, f: np.isposinf(a))
    add("isneginf", "coo_common.isneginf", lambda S, np, x, y, f: S.isneginf(x), lambda np, a, b, f: np.isneginf(a))
    add("real", "common.real", lambda S, np, x, y, f: S.real(x), lambda np, a, b, f: np.real(a))
    add("imag", "common.imag", lambda S, np, x, y, f: S.imag(x), lambda np, a, b, f: np.imag(a))
    add("m_real", "SparseArray.real", lambda S, np, x, y, f: x.real, lambda np, a, b, f: a.real)
    add("m_imag", "SparseArray.imag", lambda S, np, x, y, f: x.imag, lambda np, a, b, f: a.imag)
    add("m_conj", "SparseArray.conj", lambda S, np, x, y, f: x.conj(), lambda np, a, b, f: a.conj())
    add("astype", "common.astype", lambda S, np, x, y, f: S.astype(x, np.float32), lambda np, a, b, f: a.astype(np.float32))
    add("m_astype", "SparseArray.astype", lambda S, np, x, y, f: x.astype(np.float16), lambda np, a, b, f: a.astype(np.float16))
    add("clip", "coo_common.clip", lambda S, np, x, y, f: S.clip(x, 1, 4), lambda np, a, b, f: np.clip(a, 1, 4))
    add("m_clip", "SparseArray.clip", lambda S, np, x, y, f: x.clip(2, None), lambda np, a, b, f: np.clip(a, 2, None))
    add("where3", "coo_common.where", lambda S, np, x, y, f: S.where(x > 1, x, y), lambda np, a, b, f: np.where(a > 1, a, b), n=2)
    # ---- reductions (Computes)
    for r in ["sum", "prod", "max", "min", "mean", "std", "var", "any", "all"]:
        apx = r in ("mean", "std", "var", "prod", "sum")
        for ax, tag in ((None, "all"), (0, "ax0"), (1, "ax1")):
            add(f"{r}_{tag}", "common." + r,
                (lambda r, ax: lambda S, np, x, y, f: getattr(S, r)(x, axis=ax))(r, ax),
                (lambda r, ax: lambda np, a, b, f: getattr(np, r)(a, axis=ax))(r, ax), approx=apx)
        add(f"m_{r}", "SparseArray." + r, (lambda r: lambda S, np, x, y, f: getattr(x, r)(axis=1, keepdims=True))(r),
            (lambda r: lambda np, a, b, f: getattr(np, r)(a, axis=1, keepdims=True))(r), approx=apx)
    add("m_reduce_add", "SparseArray.reduce", lambda S, np, x, y, f: x.reduce(np.add, axis=0), lambda np, a, b, f: np.add.reduce(a, axis=0))
    add("m_reduce_bitor", "SparseArray.reduce", lambda S, np, x, y, f: x.reduce(np.logical_xor, axis=0),
        lambda np, a, b, f: np.logical_xor.reduce(a, axis=0))
    add("np_sum_func", "SparseArray.__array_function__", lambda S, np, x, y, f: np.sum(x, axis=0), lambda np, a, b, f: np.sum(a, axis=0))
    for r in ["nansum", "nanprod", "nanmax", "nanmin", "nanmean"]:
        for ax, tag in ((None, "all"), (0, "ax0")):
            add(f"{r}_{tag}", "coo_common." + r, (lambda r, ax: lambda S, np, x, y, f: getattr(S, r)(x, axis=ax))(r, ax),
                (lambda r, ax: lambda np, a, b, f: getattr(np, r)(a, axis=ax))(r, ax), approx=True)
    add("nanreduce", "coo_common.nanreduce", lambda S, np, x, y, f: S.nanreduce(x, np.add, axis=1), lambda np, a, b, f: np.nansum(a, axis=1))
    for r in ["argmax", "argmin"]:
        for ax, tag in ((None, "all"), (0, "ax0"), (1, "ax1")):
            add(f"{r}_{tag}", "coo_common." + r, (lambda r, ax: lambda S, np, x, y, f: getattr(S, r)(x, axis=ax))(r, ax),
                (lambda r, ax: lambda np, a, b, f: getattr(np, r)(a, axis=ax))(r, ax))
    add("vecdot", "common.vecdot", lambda S, np, x, y, f: S.vecdot(x, y), lambda np, a, b, f: np.vecdot(a, b), n=2)
    # a COMPLETE group (row 0 fully stored): the fill correction of the reduction multiplies the fill by zero
    add("sum_ax1_full", "common.sum", lambda S, np, x, y, f: S.sum(x, axis=1), lambda np, a, b, f: np.sum(a, axis=1), approx=True, pat="rowfull")
    add("m_sum_full", "SparseArray.sum", lambda S, np, x, y, f: x.sum(axis=1), lambda np, a, b, f: a.sum(axis=1), approx=True, pat="rowfull")
    add("mean_ax1_full", "common.mean", lambda S, np, x, y, f: S.mean(x, axis=1), lambda np, a, b, f: np.mean(a, axis=1), approx=True, pat="rowfull")
    add("prod_ax1_full", "common.prod", lambda S, np, x, y, f: S.prod(x, axis=1), lambda np, a, b, f: np.prod(a, axis=1), approx=True, pat="rowfull")
    add("max_ax1_full", "common.max", lambda S, np, x, y, f: S.max(x, axis=1), lambda np, a, b, f: np.max(a, axis=1), pat="rowfull")
    add("nansum_ax1_full", "coo_common.nansum", lambda S, np, x, y, f: S.nansum(x, axis=1), lambda np, a, b, f: np.nansum(a, axis=1), approx=True, pat="rowfull")
    add("outer", "common.outer", lambda S, np, x, y, f: S.outer(x, y), lambda np, a, b, f: np.multiply.outer(a.ravel(), b.ravel()), n=2)
    # ---- zero-fill-only operations
    add("dot", "common.dot", lambda S, np, x, y, f: S.dot(x, y), lambda np, a, b, f: np.dot(a, b), n=2)
    add("dot_dense_r", "common.dot", lambda S, np, x, y, f: S.dot(x, np.arange(9.0).reshape(3, 3)),
        lambda np, a, b, f: np.dot(a, np.arange(9.0).reshape(3, 3)))
    add("dot_dense_l", "common.dot", lambda S, np, x, y, f: S.dot(np.arange(9.0).reshape(3, 3), x),
        lambda np, a, b, f: np.dot(np.arange(9.0).reshape(3, 3), a))
    add("dot_1d", "common.dot", lambda S, np, x, y, f: S.dot(x, y), lambda np, a, b, f: np.dot(a, b), n=2, vec=True)
    add("matmul", "common.matmul", lambda S, np, x, y, f: S.matmul(x, y), lambda np, a, b, f: np.matmul(a, b), n=2)
    add("op_matmul", "{C}.__matmul__", lambda S, np, x, y, f: x @ y, lambda np, a, b, f: a @ b, n=2)
    add("op_rmatmul", "{C}.__rmatmul__", lambda S, np, x, y, f: np.arange(9.0).reshape(3, 3) @ x,
        lambda np, a, b, f: np.arange(9.0).reshape(3, 3) @ a)
    add("m_dot", "{C}.dot", lambda S, np, x, y, f: x.dot(y), lambda np, a, b, f: a.dot(b), n=2)
    add("tensordot", "common.tensordot", lambda S, np, x, y, f: S.tensordot(x, y, axes=1), lambda np, a, b, f: np.tensordot(a, b, axes=1), n=2)
    add("tensordot2", "common.tensordot", lambda S, np, x, y, f: S.tensordot(x, y, axes=2), lambda np, a, b, f: np.tensordot(a, b, axes=2), n=2)
    add("einsum2", "common.einsum", lambda S, np, x, y, f: S.einsum("ij,jk->ik", x, y), lambda np, a, b, f: np.einsum("ij,jk->ik", a, b), n=2)
    add("einsum1", "common.einsum", lambda S, np, x, y, f: S.einsum("ij->j", x), lambda np, a, b, f: np.einsum("ij->j", a))
    add("einsum_diag", "common.einsum", lambda S, np, x, y, f: S.einsum("ii->i", x), lambda np, a, b, f: np.einsum("ii->i", a))
    add("einsum_T", "common.einsum", lambda S, np, x, y, f: S.einsum("ij->ji", x), lambda np, a, b, f: np.einsum("ij->ji", a))
    add("kron", "coo_common.kron", lambda S, np, x, y, f: S.kron(x, y), lambda np, a, b, f: np.kron(a, b), n=2)
    add("kron_dense", "coo_common.kron", lambda S, np, x, y, f: S.kron(x, np.ones((2, 2))), lambda np, a, b, f: np.kron(a, np.ones((2, 2))))
    add("nonzero", "common.nonzero", lambda S, np, x, y, f: S.nonzero(x), lambda np, a, b, f: np.nonzero(a))
    add("m_nonzero", "{C}.nonzero", lambda S, np, x, y, f: x.nonzero(), lambda np, a, b, f: np.nonzero(a))
    add("argwhere", "coo_common.argwhere", lambda S, np, x, y, f: S.argwhere(x), lambda np, a, b, f: np.argwhere(a))
    add("where1", "coo_common.where", lambda S, np, x, y, f: S.where(x), lambda np, a, b, f: np.where(a), kinds="where1")
    add("triu", "coo_common.triu", lambda S, np, x, y, f: S.triu(x), lambda np, a, b, f: np.triu(a))
    add("triu_k", "coo_common.triu", lambda S, np, x, y, f: S.triu(x, k=1), lambda np, a, b, f: np.triu(a, k=1))
    add("tril", "coo_common.tril", lambda S, np, x, y, f: S.tril(x), lambda np, a, b, f: np.tril(a))
    add("tril_k", "coo_common.tril", lambda S, np, x, y, f: S.tril(x, k=-1), lambda np, a, b, f: np.tril(a, k=-1))
    add("tocsr", "{C}.tocsr", lambda S, np, x, y, f: x.tocsr(), lambda np, a, b, f: a)
    add("tocsc", "{C}.tocsc", lambda S, np, x, y, f: x.tocsc(), lambda np, a, b, f: a)
    add("to_scipy", "{C}.to_scipy_sparse", lambda S, np, x, y, f: x.to_scipy_sparse(), lambda np, a, b, f: a)
    # ---- histories: a cache-enabled zero-filled array whose scipy exports / transposes / reshapes were cached, then the
    # documented "same entries, other fill value" copy COO(x, fill_value=f); the copy must not hand out x's cached results
    add("hist_copy_tocsc", "COO.tocsc", lambda S, np, x, y, f: _hist_copy(S, x, f, ("tocsr", "tocsc")).tocsc(), lambda np, a, b, f: a, fmts=("coo",))
    add("hist_copy_tocsc_only", "COO.tocsc", lambda S, np, x, y, f: _hist_copy(S, x, f, ("tocsc",)).tocsc(), lambda np, a, b, f: a, fmts=("coo",))
    add("hist_copy_tocsr_then_tocsc", "COO.tocsc", lambda S, np, x, y, f: _hist_copy(S, x, f, ("tocsr",)).tocsc(), lambda np, a, b, f: a, fmts=("coo",))
    add("hist_copy_tocsr", "COO.tocsr", lambda S, np, x, y, f: _hist_copy(S, x, f, ("tocsr", "tocsc")).tocsr(), lambda np, a, b, f: a, fmts=("coo",))
    add("hist_copy_to_scipy", "COO.to_scipy_sparse", lambda S, np, x, y, f: _hist_copy(S, x, f, ("tocsr", "tocsc")).to_scipy_sparse(),
        lambda np, a, b, f: a, fmts=("coo",))
    add("hist_copy_transpose", "COO.transpose", lambda S, np, x, y, f: _hist_copy(S, x, f, ("T",)).transpose((1, 0)), lambda np, a, b, f: a.T, fmts=("coo",))
    add("hist_copy_reshape", "COO.reshape", lambda S, np, x, y, f: _hist_copy(S, x, f, ("flat",)).reshape((9,)), lambda np, a, b, f: a.reshape((9,)), fmts=("coo",))
    add("hist_cached_tocsc", "COO.tocsc", lambda S, np, x, y, f: _enable(x).tocsc(), lambda np, a, b, f: a, fmts=("coo",))
    add("hist_cached_twice_tocsc", "COO.tocsc", lambda S, np, x, y, f: _twice(_enable(x), "tocsc"), lambda np, a, b, f: a, fmts=("coo",))
    # ---- joins (Consistent)
    add("concatenate0", "common.concatenate", lambda S, np, x, y, f: S.concatenate([x, y]), lambda np, a, b, f: np.concatenate([a, b]), n=2)
    add("concatenate1", "common.concatenate", lambda S, np, x, y, f: S.concatenate([x, y], axis=1), lambda np, a, b, f: np.concatenate([a, b], axis=1), n=2)
    add("concat_flat", "common.concat", lambda S, np, x, y, f: S.concat([x, y], axis=None), lambda np, a, b, f: np.concatenate([a, b], axis=None), n=2)
    add("concat3", "common.concatenate", lambda S, np, x, y, f: S.concatenate([x, y, x]), lambda np, a, b, f: np.concatenate([a, b, a]), n=2)
    # a zero-size FIRST operand: its fill still counts (the result is built with arrays[0].fill_value)
    add("concat_empty_first0", "common.concatenate", lambda S, np, x, y, f: S.concatenate([x[:0], y]),
        lambda np, a, b, f: np.concatenate([a[:0], b]), n=2)
    add("concat_empty_first1", "common.concatenate", lambda S, np, x, y, f: S.concatenate([x[:, :0], y], axis=1),
        lambda np, a, b, f: np.concatenate([a[:, :0], b], axis=1), n=2)
    add("concat_empty_last", "common.concatenate", lambda S, np, x, y, f: S.concatenate([x, y[:0]]),
        lambda np, a, b, f: np.concatenate([a, b[:0]]), n=2)
    add("stack0", "common.stack", lambda S, np, x, y, f: S.stack([x, y]), lambda np, a, b, f: np.stack([a, b]), n=2)
    add("stack2", "common.stack", lambda S, np, x, y, f: S.stack([x, y], axis=2), lambda np, a, b, f: np.stack([a, b], axis=2), n=2)
    add("concat_np", "SparseArray.__array_function__", lambda S, np, x, y, f: np.concatenate([x, y]), lambda np, a, b, f: np.concatenate([a, b]), n=2)
    # ---- indexing, shape operations, conversions (Preserves)
    G = "{C}.__getitem__"
    add("getitem_int", G, lambda S, np, x, y, f: x[0], lambda np, a, b, f: a[0])
    add("getitem_col", G, lambda S, np, x, y, f: x[:, 2], lambda np, a, b, f: a[:, 2])
    add("getitem_slice", G, lambda S, np, x, y, f: x[1:3, ::-1], lambda np, a, b, f: a[1:3, ::-1])
    add("getitem_fancy", G, lambda S, np, x, y, f: x[[0, 2, 2]], lambda np, a, b, f: a[[0, 2, 2]])
    add("getitem_none", G, lambda S, np, x, y, f: x[None, 1], lambda np, a, b, f: a[None, 1])
    add("getitem_ellipsis", G, lambda S, np, x, y, f: x[..., 0], lambda np, a, b, f: a[..., 0])
    add("getitem_scalar_unstored", G, lambda S, np, x, y, f: x[0, 2], lambda np, a, b, f: a[0, 2])
    add("getitem_scalar_stored", G, lambda S, np, x, y, f: x[0, 1], lambda np, a, b, f: a[0, 1])
    add("getitem_mask", G, lambda S, np, x, y, f: x[np.array([True, False, True])], lambda np, a, b, f: a[np.array([True, False, True])])
    add("getitem_empty", G, lambda S, np, x, y, f: x[1:1], lambda np, a, b, f: a[1:1])
    add("T", "{C}.T", lambda S, np, x, y, f: x.T, lambda np, a, b, f: a.T)
    add("mT", "{C}.mT", lambda S, np, x, y, f: x.mT, lambda np, a, b, f: a.T)
    add("m_transpose", "{C}.transpose", lambda S, np, x, y, f: x.transpose((1, 0)), lambda np, a, b, f: a.transpose((1, 0)))
    add("m_swapaxes", "{C}.swapaxes", lambda S, np, x, y, f: x.swapaxes(0, 1), lambda np, a, b, f: a.swapaxes(0, 1))
    add("m_reshape", "{C}.reshape", lambda S, np, x, y, f: x.reshape((9,)), lambda np, a, b, f: a.reshape((9,)))
    add("m_reshape3", "{C}.reshape", lambda S, np, x, y, f: x.reshape((1, 3, 3)), lambda np, a, b, f: a.reshape((1, 3, 3)))
    add("m_flatten", "{C}.flatten", lambda S, np, x, y, f: x.flatten(), lambda np, a, b, f: a.flatten())
    add("m_squeeze", "{C}.squeeze", lambda S, np, x, y, f: x[None].squeeze(), lambda np, a, b, f: a[None].squeeze())
    add("m_broadcast_to", "{C}.broadcast_to", lambda S, np, x, y, f: x.broadcast_to((2, 3, 3)), lambda np, a, b, f: np.broadcast_to(a, (2, 3, 3)))
    add("m_copy", "{C}.copy", lambda S, np, x, y, f: x.copy(), lambda np, a, b, f: a.copy())
    add("reshape", "common.reshape", lambda S, np, x, y, f: S.reshape(x, (9, 1)), lambda np, a, b, f: a.reshape((9, 1)))
    add("squeeze", "common.squeeze", lambda S, np, x, y, f: S.squeeze(x[None], 0), lambda np, a, b, f: a)
    add("moveaxis", "common.moveaxis", lambda S, np, x, y, f: S.moveaxis(x, 0, 1), lambda np, a, b, f: np.moveaxis(a, 0, 1))
    add("permute_dims", "common.permute_dims", lambda S, np, x, y, f: S.permute_dims(x, (1, 0)), lambda np, a, b, f: a.T)
    add("matrix_transpose", "coo_common.matrix_transpose", lambda S, np, x, y, f: S.matrix_transpose(x), lambda np, a, b, f: a.T)
    add("broadcast_to", "common.broadcast_to", lambda S, np, x, y, f: S.broadcast_to(x, (2, 3, 3)), lambda np, a, b, f: np.broadcast_to(a, (2, 3, 3)))
    add("broadcast_arrays", "common.broadcast_arrays", lambda S, np, x, y, f: S.broadcast_arrays(x, y[:1]),
        lambda np, a, b, f: np.broadcast_arrays(a, b[:1]), n=2)
    add("expand_dims", "coo_common.expand_dims", lambda S, np, x, y, f: S.expand_dims(x, axis=1), lambda np, a, b, f: np.expand_dims(a, 1))
    add("flip", "coo_common.flip", lambda S, np, x, y, f: S.flip(x), lambda np, a, b, f: np.flip(a))
    add("flip0", "coo_common.flip", lambda S, np, x, y, f: S.flip(x, axis=0), lambda np, a, b, f: np.flip(a, axis=0))
    add("roll_flat", "coo_common.roll", lambda S, np, x, y, f: S.roll(x, 2), lambda np, a, b, f: np.roll(a, 2))
    add("roll_ax", "coo_common.roll", lambda S, np, x, y, f: S.roll(x, 1, axis=1), lambda np, a, b, f: np.roll(a, 1, axis=1))
    add("sort", "coo_common.sort", lambda S, np, x, y, f: S.sort(x), lambda np, a, b, f: np.sort(a), kinds="nonan")
    add("sort0", "coo_common.sort", lambda S, np, x, y, f: S.sort(x, axis=0), lambda np, a, b, f: np.sort(a, axis=0), kinds="nonan")
    add("sort_desc", "coo_common.sort", lambda S, np, x, y, f: S.sort(x, descending=True), lambda np, a, b, f: -np.sort(-a), kinds="nonan_nobool")
    add("take_ax", "coo_common.take", lambda S, np, x, y, f: S.take(x, np.array([0, 2]), axis=1), lambda np, a, b, f: np.take(a, [0, 2], axis=1))
    add("take_flat", "coo_common.take", lambda S, np, x, y, f: S.take(x, np.array([1, 4, 8])), lambda np, a, b, f: np.take(a, [1, 4, 8]))
    add("diagonal", "coo_common.diagonal", lambda S, np, x, y, f: S.diagonal(x), lambda np, a, b, f: np.diagonal(a))
    add("diagonal_off", "coo_common.diagonal", lambda S, np, x, y, f: S.diagonal(x, offset=1), lambda np, a, b, f: np.diagonal(a, offset=1))
    add("diagonal_neg", "coo_common.diagonal", lambda S, np, x, y, f: S.diagonal(x, offset=-1), lambda np, a, b, f: np.diagonal(a, offset=-1))
    add("np_diagonal", "SparseArray.__array_function__", lambda S, np, x, y, f: np.diagonal(x), lambda np, a, b, f: np.diagonal(a))
    add("diagonalize", "coo_common.diagonalize", lambda S, np, x, y, f: S.diagonalize(x), lambda np, a, b, f: _diagonalize_ref(np, a, f), vec=True)
    add("pad_fill", "common.pad", lambda S, np, x, y, f: S.pad(x, 1, constant_values=f), lambda np, a, b, f: np.pad(a, 1, constant_values=f))
    add("pad_default", "common.pad", lambda S, np, x, y, f: S.pad(x, 1), lambda np, a, b, f: np.pad(a, 1))
    add("asCOO", "coo_common.asCOO", lambda S, np, x, y, f: S.asCOO(x), lambda np, a, b, f: a)
    add("as_coo", "coo_core.as_coo", lambda S, np, x, y, f: S.as_coo(x), lambda np, a, b, f: a)
    add("asarray", "common.asarray", lambda S, np, x, y, f: S.asarray(x), lambda np, a, b, f: a)
    add("asarray_gcxs", "common.asarray", lambda S, np, x, y, f: S.asarray(x, format="gcxs"), lambda np, a, b, f: a)
    add("asarray_dok", "common.asarray", lambda S, np, x, y, f: S.asarray(x, format="dok"), lambda np, a, b, f: a)
    add("asarray_csr", "common.asarray", lambda S, np, x, y, f: S.asarray(x, format="csr"), lambda np, a, b, f: a)
    for t in ["coo", "gcxs", "dok", "csr", "csc"]:
        add("asformat_" + t, "{C}.asformat", (lambda t: lambda S, np, x, y, f: x.asformat(t))(t), lambda np, a, b, f: a)
    add("ctor_COO", "COO.__init__", lambda S, np, x, y, f: S.COO(x), lambda np, a, b, f: a)
    add("ctor_GCXS", "GCXS.__init__", lambda S, np, x, y, f: S.GCXS(x), lambda np, a, b, f: a)
    add("ctor_DOK", "DOK.__init__", lambda S, np, x, y, f: S.DOK(x), lambda np, a, b, f: a, fmts=("coo",))
    add("GCXS_from_coo", "GCXS.from_coo", lambda S, np, x, y, f: S.GCXS.from_coo(x), lambda np, a, b, f: a, fmts=("coo",))
    add("DOK_from_coo", "DOK.from_coo", lambda S, np, x, y, f: S.DOK.from_coo(x), lambda np, a, b, f: a, fmts=("coo",))
    add("tocoo", "GCXS.tocoo", lambda S, np, x, y, f: x.tocoo(), lambda np, a, b, f: a, fmts=("gcxs",))
    add("todok", "GCXS.todok", lambda S, np, x, y, f: x.todok(), lambda np, a, b, f: a, fmts=("gcxs",))
    add("to_coo", "DOK.to_coo", lambda S, np, x, y, f: x.to_coo(), lambda np, a, b, f: a, fmts=("dok",))
    add("change_compressed_axes", "GCXS.change_compressed_axes", lambda S, np, x, y, f: x.change_compressed_axes((1,)),
        lambda np, a, b, f: a, fmts=("gcxs",))
    add("dok_fancy", "DOK.__getitem__", lambda S, np, x, y, f: x[[0, 1, 2], [2, 1, 0]], lambda np, a, b, f: a[[0, 1, 2], [2, 1, 0]], fmts=("dok",))
    # ---- explicit densification, non-array results, creation, persistence
    add("todense", "{C}.todense", lambda S, np, x, y, f: x.todense(), lambda np, a, b, f: a)
    add("maybe_densify", "{C}.maybe_densify", lambda S, np, x, y, f: x.maybe_densify(), lambda np, a, b, f: a)
    add("asnumpy", "common.asnumpy", lambda S, np, x, y, f: S.asnumpy(x), lambda np, a, b, f: a)
    add("unique_values", "coo_common.unique_values", lambda S, np, x, y, f: S.unique_values(x), lambda np, a, b, f: np.unique(a), kinds="nonan")
    add("unique_counts", "coo_common.unique_counts", lambda S, np, x, y, f: tuple(S.unique_counts(x)),
        lambda np, a, b, f: np.unique(a, return_counts=True), kinds="nonan")
    add("full_like", "common.full_like", lambda S, np, x, y, f: S.full_like(x, 5), lambda np, a, b, f: np.full_like(a, 5))
    add("zeros_like", "common.zeros_like", lambda S, np, x, y, f: S.zeros_like(x), lambda np, a, b, f: np.zeros_like(a))
    add("ones_like", "common.ones_like", lambda S, np, x, y, f: S.ones_like(x), lambda np, a, b, f: np.ones_like(a))
    add("empty_like", "common.empty_like", lambda S, np, x, y, f: S.empty_like(x).shape, lambda np, a, b, f: a.shape)
    add("full", "common.full", lambda S, np, x, y, f: S.full((2, 3), f), lambda np, a, b, f: np.full((2, 3), f), fmts=("coo",))
    add("from_numpy", "COO.from_numpy", lambda S, np, x, y, f: S.COO.from_numpy(x.todense(), fill_value=f), lambda np, a, b, f: a, fmts=("coo",))
    add("gcxs_from_numpy", "GCXS.from_numpy", lambda S, np, x, y, f: S.GCXS.from_numpy(x.todense(), fill_value=f), lambda np, a, b, f: a, fmts=("coo",))
    add("npz_roundtrip", "io.load_npz", _npz_roundtrip, lambda np, a, b, f: a, fmts=("coo", "gcxs"))
    add("npz_save", "io.save_npz", _npz_roundtrip, lambda np, a, b, f: a, fmts=("coo", "gcxs"))
    add("random_fill", "utils.random", lambda S, np, x, y, f: S.random((3, 4), density=0.5, fill_value=f, random_state=1).fill_value,
        lambda np, a, b, f: f, fmts=("coo",), kinds="floatonly")
    add("from_iter", "COO.from_iter", lambda S, np, x, y, f: S.COO.from_iter({(0, 1): x.dtype.type(1), (2, 2): x.dtype.type(1)}, shape=(3, 3), fill_value=f, dtype=x.dtype),
        lambda np, a, b, f: _from_iter_ref(np, a, f), fmts=("coo",))
    add("gcxs_from_iter", "GCXS.from_iter", lambda S, np, x, y, f: S.GCXS.from_iter({(0, 1): x.dtype.type(1), (2, 2): x.dtype.type(1)}, shape=(3, 3), fill_value=f),
        lambda np, a, b, f: _from_iter_ref(np, a, f), fmts=("coo",))
    add("dok_from_numpy", "DOK.from_numpy", lambda S, np, x, y, f: S.DOK.from_numpy(x.todense()), lambda np, a, b, f: a, fmts=("coo",))
    add("dok_setitem", "DOK.__setitem__", _dok_setitem, lambda np, a, b, f: _dok_setitem_ref(np, a, f), fmts=("dok",))
    add("dok_setitem_fancy", "DOK.__setitem__", _dok_setitem_fancy, lambda np, a, b, f: _dok_setitem_fancy_ref(np, a, f), fmts=("dok",))
    add("zeros", "common.zeros", lambda S, np, x, y, f: S.zeros((2, 3), dtype=x.dtype), lambda np, a, b, f: np.zeros((2, 3), dtype=a.dtype), fmts=("coo",))
    add("ones", "common.ones", lambda S, np, x, y, f: S.ones((2, 3), dtype=x.dtype), lambda np, a, b, f: np.ones((2, 3), dtype=a.dtype), fmts=("coo",))
    add("empty", "common.empty", lambda S, np, x, y, f: S.empty((2, 3), dtype=x.dtype).shape, lambda np, a, b, f: (2, 3), fmts=("coo",))
    add("eye", "common.eye", lambda S, np, x, y, f: S.eye(3, 4, k=1, dtype=x.dtype), lambda np, a, b, f: np.eye(3, 4, k=1, dtype=a.dtype), fmts=("coo",))
    add("getters", "SparseArray.ndim", lambda S, np, x, y, f: (x.ndim, x.size, x.nnz, None, str(x.dtype), x.device, len(x.todense())),
        lambda np, a, b, f: (2, 9, 4, None, str(a.dtype), "cpu", 3), kinds="getters")
    add("result_type", "coo_common.result_type", lambda S, np, x, y, f: str(S.result_type(x, y)), lambda np, a, b, f: str(np.result_type(a, b)), n=2)
    add("can_cast", "common.can_cast", lambda S, np, x, y, f: bool(S.can_cast(x.dtype, np.float64)), lambda np, a, b, f: bool(np.can_cast(a.dtype, np.float64)))
    add("density_nnz", "SparseArray.density", lambda S, np, x, y, f: (x.ndim, x.size, x.shape), lambda np, a, b, f: (a.ndim, a.size, a.shape))
    return R


def _family(name, op):
    """recipes that exercise the same Numba kernels are run by the same worker process (each process JIT-compiles a
    kernel once per dtype signature; compilation, not execution, dominates the cost of the matrix)"""
    tail = op.split(".")[-1]
    if tail in ("dot", "matmul", "__matmul__", "__rmatmul__", "tensordot", "einsum", "kron") or name in ("vecdot", "outer"):
        return "products"
    if tail in ("sort", "unique_values", "unique_counts"):
        return "sort"
    if tail in ("argmax", "argmin"):
        return "argminmax"
    if tail in ("__getitem__", "take", "squeeze", "broadcast_arrays") or name in ("m_squeeze",):
        return "indexing"
    if tail in ("sum", "prod", "max", "min", "mean", "std", "var", "any", "all", "reduce", "nansum", "nanprod", "nanmax", "nanmin",
                "nanmean", "nanreduce", "__array_function__"):
        return "reductions"
    if op == "umath.elemwise" or tail in ("abs", "equal", "round", "isinf", "isnan", "isposinf", "isneginf", "real", "imag", "conj",
                                          "astype", "clip", "where"):
        return "elemwise"
    return "misc"


# families whose kernels are compiled per DATA dtype: the quick tier runs them with float64 data only (plus the
# non-zero int / bool fills of the zero-only operations, which never reach a kernel: the guard raises first)
DTYPE_HEAVY = ("products", "sort", "argminmax")


def _diagonalize_ref(np, a, f):
    # diagonalize(v)[i, j] = v[i] if i == j — at i != j NumPy's analogue (np.diagflat / v[:, None] * eye) has ZERO.
    # The dense meaning of "put v on the diagonal of a zero matrix": off-diagonal 0, diagonal v.
    out = np.zeros((a.shape[0], a.shape[0]), dtype=a.dtype)
    out[np.arange(a.shape[0]), np.arange(a.shape[0])] = a
    return out


def _from_iter_ref(np, a, f):
    out = np.full((3, 3), f, dtype=a.dtype)
    out[0, 1] = 1
    out[2, 2] = 1
    return out


def _dok_setitem(S, np, x, y, f):
    d = S.DOK.from_coo(x.asformat("coo"))
    d[0, 0] = 7           # overwrite a stored element
    d[0, 1] = f           # store the fill value over a stored element: the element must disappear
    d[1, 1] = 7           # create an element
    d[2, 2] = f           # store the fill value at an unstored position
    return d


def _dok_setitem_ref(np, a, f):
    out = a.copy()
    out[0, 0] = 7
    out[0, 1] = f
    out[1, 1] = 7
    out[2, 2] = f
    return out


def _dok_setitem_fancy(S, np, x, y, f):
    # integer-list key naming every axis (DOK._fancy_setitem) and a slice key: exact zeros, the fill value and other
    # values, over stored and unstored positions.  With a non-zero fill a 0 is an ordinary value and must be stored
    # (seeded C07-m5: `if value:` instead of `if value != fill_value:`)
    d = S.DOK.from_coo(x.asformat("coo"))
    d[[0, 0, 1, 2], [0, 1, 1, 2]] = np.array([0, f, 0, 7]).astype(x.dtype)
    d[[1, 2], [0, 0]] = 0
    d[2, 1:2] = 0
    return d


def _dok_setitem_fancy_ref(np, a, f):
    out = a.copy()
    out[[0, 0, 1, 2], [0, 1, 1, 2]] = np.array([0, f, 0, 7]).astype(a.dtype)
    out[[1, 2], [0, 0]] = 0
    out[2, 1:2] = 0
    return out


def _hist_copy(S, x, f, warm):
    """x0: the zero-filled, cache-enabled array with x's stored entries; warm its caches; return COO(x0, fill_value=f)"""
    x0 = S.COO(x.coords, x.data, shape=x.shape, has_duplicates=False, sorted=True, cache=True)
    for w in warm:
        if w == "T":
            x0.transpose((1, 0))
        elif w == "flat":
            x0.reshape((9,))
        else:
            getattr(x0, w)()
    return S.COO(x0, fill_value=f)


def _enable(x):
    x.enable_caching()
    return x


def _twice(x, meth):
    try:
        getattr(x, meth)()
    except ValueError:
        pass
    return getattr(x, meth)()


def _npz_roundtrip(S, np, x, y, f):
    import io
    buf = io.BytesIO()
    S.save_npz(buf, x)
    buf.seek(0)
    return S.load_npz(buf)


# coercion / mix / scalar probes.  kind 0: implicit coercion through __array__; 1: a NumPy function without sparse
# counterpart; 2: an element-wise call (mix = the dense operand, or None); 3: scalar conversion (sel = the sub-array)
def _probes():
    P = {}

    def add(name, kind, impl, ref, mix=None, op=None, sel=None):
        P[name] = dict(kind=kind, impl=impl, ref=ref, mix=mix, op=op, sel=sel)

    add("np_asarray", 0, lambda S, np, x, f: np.asarray(x), lambda np, a, f: a)
    add("np_array", 0, lambda S, np, x, f: np.array(x), lambda np, a, f: a)
    add("np_asarray_dtype", 0, lambda S, np, x, f: np.asarray(x, dtype=np.float64), lambda np, a, f: a.astype(np.float64))
    add("array_dunder", 0, lambda S, np, x, f: x.__array__(), lambda np, a, f: a)
    add("np_array_of_two", 0, lambda S, np, x, f: np.array([x, x]), lambda np, a, f: np.array([a, a]))
    add("np_asarray_list", 0, lambda S, np, x, f: np.asarray([x]), lambda np, a, f: np.asarray([a]))
    add("np_linalg_norm", 1, lambda S, np, x, f: np.linalg.norm(x), lambda np, a, f: np.linalg.norm(a))
    full = lambda np: np.arange(9.0).reshape(3, 3)      # noqa: E731
    row = lambda np: np.arange(3.0)                      # noqa: E731
    ones = lambda np: np.ones(3)                         # noqa: E731
    big = lambda np: np.arange(18.0).reshape(2, 3, 3)    # noqa: E731
    add("add_dense_full", 2, lambda S, np, x, f: x + full(np), lambda np, a, f: a + full(np), mix=full, op="add")
    add("radd_dense_full", 2, lambda S, np, x, f: full(np) + x, lambda np, a, f: full(np) + a, mix=full, op="add")
    add("mul_dense_full", 2, lambda S, np, x, f: x * full(np), lambda np, a, f: a * full(np), mix=full, op="multiply")
    add("add_dense_row", 2, lambda S, np, x, f: x + row(np), lambda np, a, f: a + row(np), mix=row, op="add")
    add("mul_dense_row", 2, lambda S, np, x, f: x * row(np), lambda np, a, f: a * row(np), mix=row, op="multiply")
    add("add_dense_row_const", 2, lambda S, np, x, f: x + ones(np), lambda np, a, f: a + ones(np), mix=ones, op="add")
    add("add_dense_bigger", 2, lambda S, np, x, f: x + big(np), lambda np, a, f: a + big(np), mix=big, op="add")
    add("maximum_dense_row", 2, lambda S, np, x, f: np.maximum(x, row(np)), lambda np, a, f: np.maximum(a, row(np)), mix=row, op="maximum")
    add("np_sin", 2, lambda S, np, x, f: np.sin(x), lambda np, a, f: np.sin(a))
    add("np_cos", 2, lambda S, np, x, f: np.cos(x), lambda np, a, f: np.cos(a))
    add("add_one", 2, lambda S, np, x, f: x + 1, lambda np, a, f: a + 1)
    add("float_0d", 3, lambda S, np, x, f: float(x[0:1, 1:2].reshape(())), lambda np, a, f: float(a[0, 1]), sel=(1, []))
    add("float_0d_unstored", 3, lambda S, np, x, f: float(x[0:1, 2:3].reshape(())), lambda np, a, f: float(a[0, 2]), sel=(1, []))
    add("bool_0d", 3, lambda S, np, x, f: bool(x[0:1, 1:2].reshape(())), lambda np, a, f: bool(a[0, 1]), sel=(1, []))
    add("float_2d", 3, lambda S, np, x, f: float(x), lambda np, a, f: None, sel=(9, [3, 3]))
    add("int_1elem_2d", 3, lambda S, np, x, f: int(x[0:1, 1:2]), lambda np, a, f: None, sel=(1, [1, 1]))
    add("maybe_densify_small", 4, lambda S, np, x, f: x.maybe_densify(max_size=100, min_density=0.9), lambda np, a, f: a, sel=(100, 0.9))
    add("maybe_densify_dense_enough", 4, lambda S, np, x, f: x.maybe_densify(max_size=5, min_density=0.25), lambda np, a, f: a, sel=(5, 0.25))
    add("maybe_densify_refused", 4, lambda S, np, x, f: x.maybe_densify(max_size=5, min_density=0.5), lambda np, a, f: None, sel=(5, 0.5))
    add("maybe_densify_boundary", 4, lambda S, np, x, f: x.maybe_densify(max_size=9, min_density=0.99), lambda np, a, f: a, sel=(9, 0.99))
    add("int_1elem_1d", 3, lambda S, np, x, f: int(x[0, 1:2]), lambda np, a, f: None, sel=(1, [1]))
    return P


# ------------------------------------------------------------------------------------------ worker side
def _fillval(np, code):
    dt, txt, _b, _t = FILLS[code]
    if dt == "bool":
        return np.bool_(txt == "True")
    if dt == "int64":
        return np.int64(int(txt))
    return np.float64(float(txt))


def _operand(np, sparse, code, which, fmt, vec=False, pat="default"):
    """dense array with a few entries different from the fill, and its sparse form in the given format"""
    f = _fillval(np, code)
    dt = np.dtype(FILLS[code][0])
    if vec:
        pos = {"x": [(1,), (2,)], "y": [(0,), (2,)]}[which]
        vals = {"x": [1, 2], "y": [7, 5]}[which]
        d = np.full((4,), f, dtype=dt)
    else:
        pos = {"x": [(0, 0), (0, 1), (1, 2), (2, 0)], "y": [(0, 2), (1, 0), (2, 1), (2, 2)]}[which]
        vals = {"x": [4, 1, 2, 5], "y": [7, 1, 2, 6]}[which]
        if pat == "rowfull":
            pos, vals = [(0, 0), (0, 1), (0, 2), (1, 2), (2, 0)], [4, 1, 2, 2, 5]
        d = np.full((3, 3), f, dtype=dt)
    for p, v in zip(pos, vals, strict=True):
        d[p] = (not bool(f)) if dt == np.bool_ else v
    x = sparse.COO.from_numpy(d, fill_value=f)
    assert x.nnz == len(pos) and (x.fill_value == f or (f != f and x.fill_value != x.fill_value))
    if fmt == "gcxs":
        x = sparse.GCXS.from_coo(x)
    elif fmt == "dok":
        x = sparse.DOK.from_coo(x)
    return d, x, f


def _norm(np, r):
    """result -> nested (shape, tokens) structure"""
    import sparse
    try:
        import scipy.sparse as sps
    except ImportError:
        sps = None
    if isinstance(r, sparse.SparseArray):
        meta = {"sparse": type(r).__name__, "fill": vlib.val_token(r.fill_value), "nnz": int(r.nnz)}
        d = np.asarray(r.todense())
        return ("a", list(d.shape), [vlib.val_token(v) for v in d.reshape(-1)], meta, d)
    if sps is not None and sps.issparse(r):
        d = np.asarray(r.toarray())
        return ("a", list(d.shape), [vlib.val_token(v) for v in d.reshape(-1)], {"sparse": "scipy"}, d)
    if isinstance(r, (tuple, list)):
        return ("t", [_norm(np, e) for e in r])
    if isinstance(r, str) or r is None:
        return ("s", r)
    d = np.asarray(r)
    if d.dtype == object:
        return ("s", repr(r)[:80])
    return ("a", list(d.shape), [vlib.val_token(v) for v in d.reshape(-1)], {"sparse": None}, d)


def _same(np, a, b, approx):
    """0 different | 1 identical tokens | 2 equal up to the sign of zero | 3 equal within tolerance"""
    if a[0] != b[0]:
        return 0
    if a[0] == "s":
        return 1 if a[1] == b[1] else 0
    if a[0] == "t":
        if len(a[1]) != len(b[1]):
            return 0
        rs = [_same(np, x, y, approx) for x, y in zip(a[1], b[1], strict=True)]
        return 0 if 0 in rs else max(rs)
    if a[1] != b[1]:
        return 0
    if a[2] == b[2]:
        return 1
    zs = {0, NEGZERO}
    if all(x == y or (x in zs and y in zs) for x, y in zip(a[2], b[2], strict=True)):
        return 2
    if approx:
        try:
            if np.allclose(a[4].astype(np.complex128), b[4].astype(np.complex128), rtol=1e-9, atol=1e-12, equal_nan=True):
                return 3
        except Exception:  # noqa: BLE001
            return 0
    return 0


def _classify_exc(ex):
    n = type(ex).__name__
    if isinstance(ex, ValueError):
        return "valueerror"
    if isinstance(ex, RuntimeError) and n == "RuntimeError":
        return "runtimeerror"
    return "other"


def _check_auto(case):
    from sparse.numba_backend import _settings
    want = bool(case["auto"])
    if bool(_settings.AUTO_DENSIFY) != want:
        raise AssertionError(f"AUTO_DENSIFY={_settings.AUTO_DENSIFY} but the case wants {want}")


def impl_case(case):
    """one (recipe, fill, fill2, format, auto) cell of the matrix"""
    import warnings

    import numpy as np
    import sparse
    warnings.filterwarnings("ignore")
    np.seterr(all="ignore")
    _check_auto(case)
    if "probe" in case:
        return impl_probe(case)
    if "guard" in case:
        return impl_guard(case)
    rec = RECIPES[case["recipe"]]
    da, x, f = _operand(np, sparse, case["fill"], "x", case["fmt"], rec["vec"], rec["pat"])
    db = y = None
    if rec["n"] == 2:
        db, y, _f2 = _operand(np, sparse, case["fill2"], "y", case["fmt2"], rec["vec"])
    out = {}
    try:
        exp = _norm(np, rec["ref"](np, da, db, f))
    except Exception as ex:  # noqa: BLE001
        exp = ("refexc", type(ex).__name__)
    try:
        r = rec["impl"](sparse, np, x, y, f)
    except Exception as ex:  # noqa: BLE001
        out.update(out=_classify_exc(ex), exc=type(ex).__name__, msg=str(ex)[:120])
        if exp[0] == "refexc":
            # NumPy rejects these operands too (e.g. `-` on booleans): outside the operation's domain
            out.update(out="unsupported", ref_exc=exp[1])
        return out
    try:
        got = _norm(np, r)
    except Exception as ex:  # noqa: BLE001
        # the returned object cannot even be densified (malformed result, e.g. GCXS x[None, 1]: finding D22 of C02)
        out.update(out="other", exc=type(ex).__name__, msg="todense() of the result: " + str(ex)[:80])
        return out
    if exp[0] == "refexc":
        out.update(out="wrong", note="numpy raises " + exp[1], got=_brief(got))
        return out
    s = _same(np, got, exp, rec["approx"])
    out["out"] = "right" if s else "wrong"
    out["match"] = s
    if got[0] == "a":
        out["res"] = got[3]
    if not s:
        out["got"] = _brief(got)
        out["exp"] = _brief(exp)
    return out


def _brief(n):
    if n[0] == "a":
        return {"shape": n[1], "flat": n[2][:40], "meta": n[3]}
    if n[0] == "t":
        return [_brief(e) for e in n[1]]
    return n[1]


def impl_probe(case):
    import warnings

    import numpy as np
    import sparse
    warnings.filterwarnings("ignore")
    np.seterr(all="ignore")
    _check_auto(case)
    pr = PROBES[case["probe"]]
    da, x, f = _operand(np, sparse, case["fill"], "x", case["fmt"])
    out = {"const": True, "shape": [3, 3], "nshape": [], "size": 9}
    if pr["mix"] is not None:
        # the inputs of the dense-mix rule, computed with NumPy: is func(fill, ndarray) a constant array?
        nd = pr["mix"](np)
        fa = np.atleast_1d(getattr(np, pr["op"])(f, nd))
        first = fa.reshape(-1)[0]
        out["const"] = bool(((fa == first) | ((fa != fa) & (first != first))).all())
        out["nshape"] = [int(d) for d in nd.shape]
        out["shape"] = [int(d) for d in np.broadcast_shapes((3, 3), nd.shape)]
    if pr["sel"] is not None and pr["kind"] == 3:
        out["size"], out["shape"] = pr["sel"][0], list(pr["sel"][1])
    if pr["kind"] == 4:
        if not hasattr(x, "maybe_densify"):
            return {"out": "unsupported", "dense": False, "const": False, "shape": [0], "nshape": [], "size": 0}
        out["size"], out["shape"], out["const"] = int(x.size), [int(pr["sel"][0])], bool(x.density < pr["sel"][1])
    try:
        exp = _norm(np, pr["ref"](np, da, f))
    except Exception as ex:  # noqa: BLE001
        exp = ("refexc", type(ex).__name__)
    try:
        r = pr["impl"](sparse, np, x, f)
    except Exception as ex:  # noqa: BLE001
        out.update(out=_classify_exc(ex), exc=type(ex).__name__, msg=str(ex)[:120], dense=False)
        return out
    got = _norm(np, r)
    out["dense"] = not isinstance(r, sparse.SparseArray)
    if exp[0] == "refexc" or exp == ("s", None):
        out.update(out="wrong", note="a result where an error is required", got=_brief(got))
        return out
    s = _same(np, got, exp, True)
    out["out"] = "right" if s else "wrong"
    out["match"] = s
    if not s:
        out["got"] = _brief(got)
        out["exp"] = _brief(exp)
    return out


GUARD_OUT = {"ok": 0, "valueerror": 1, "other": 3}


def impl_guard(case):
    """the guards themselves, on operands with the given fills (None = an ndarray, which has no fill_value)"""
    import numpy as np
    import sparse
    from sparse.numba_backend._utils import check_consistent_fill_value, check_fill_value, check_zero_fill_value
    ops = []
    for code in case["ops"]:
        if code is None:
            ops.append(np.ones(2))
        else:
            f = _fillval(np, code)
            ops.append(sparse.COO.from_numpy(np.array([f, f]), fill_value=f))
    try:
        if case["kind"] == 0:
            check_zero_fill_value(*ops)
        elif case["kind"] == 1:
            check_consistent_fill_value(ops)
        else:
            acc = [np.float64(float(a)) if isinstance(a, str) else a for a in case["acc"]]
            if case["amode"] == 0:
                check_fill_value(ops[0])
            elif case["amode"] == 1:
                check_fill_value(ops[0], accept_fv=acc[0])
            else:
                check_fill_value(ops[0], accept_fv=acc)
        return {"g": "ok"}
    except ValueError:
        return {"g": "valueerror"}
    except Exception as ex:  # noqa: BLE001
        return {"g": "other", "exc": type(ex).__name__}


def guard_cases(tier, seed):
    import itertools
    rng = random.Random(seed + 7)
    codes = [None, "z", "nz", "3", "nan", "pinf", "iz", "i3", "F", "T"]
    out = []
    for kind in (0, 1):
        for n in (0, 1, 2):
            for ops in itertools.product(codes, repeat=n):
                out.append(dict(guard=True, kind=kind, amode=0, ops=list(ops), acc=[]))
        triples = list(itertools.product(codes, repeat=3))
        for ops in (triples if tier == "thorough" else rng.sample(triples, 150)):
            out.append(dict(guard=True, kind=kind, amode=0, ops=list(ops), acc=[]))
    accs = [(0, []), (1, [0]), (1, [3]), (1, ["nan"]), (1, ["-0.0"]), (2, [0, 3]), (2, []), (2, ["nan", 0]), (2, ["inf"])]
    for code in codes[1:]:
        for amode, acc in accs:
            out.append(dict(guard=True, kind=2, amode=amode, ops=[code], acc=acc))
    return out


def acc_token(a):
    if isinstance(a, str):
        return vlib.val_token(float(a))
    return int(a)


RECIPES = _recipes()
PROBES = _probes()


# ------------------------------------------------------------------------------------------ campaign
def table_ops():
    """operation keys of the generated site table (same extractor the build ran)"""
    import importlib.util
    p = os.path.join(vlib.VERIF, "tools", "sitegen", "fill.py")
    sp = importlib.util.spec_from_file_location("sitegen_fill_c07", p)
    m = importlib.util.module_from_spec(sp)
    sp.loader.exec_module(m)
    rows = m.build_table(m.World(vlib.REPO))
    return {r["op"]: r for r in rows}


def fill_ok_for(rec, code):
    k = rec["kinds"]
    if k == "floatonly" and FILLS[code][0] != "float64":
        return False
    if k in ("nonan", "nonan_nobool") and code == "nan":
        return False          # NumPy's own NaN ordering / uniqueness is out of scope (C10)
    if k == "nonan_nobool" and code in ("T", "F"):
        return False
    return True


def build_cases(tier, seed, ops):
    rng = random.Random(seed)
    fills = ["z", "nz", "3", "nan", "pinf", "ninf", "iz", "i3", "F", "T"]
    cases = []
    skipped = []
    for name, rec in RECIPES.items():
        for fmt in rec["fmts"]:
            key = rec["op"].replace("{C}", FMT_CLASS[fmt])
            if key not in ops and "{C}" in rec["op"]:
                key = rec["op"].replace("{C}", "SparseArray")
            if key not in ops:
                skipped.append(f"{name}/{fmt}")       # the class has no such method: nothing to call
                continue
            others = [g for g in ("coo", "gcxs", "dok") if g != fmt]
            cross = rng.choice(others)
            for code in fills:
                if not fill_ok_for(rec, code):
                    continue
                if tier == "quick" and rec["family"] in DTYPE_HEAVY and FILLS[code][0] != "float64":
                    if not (rec["family"] == "products" and code in ("i3", "T") and name not in ("vecdot", "outer")):
                        continue
                if rec["n"] == 1:
                    combos = [(code, None, None)]
                else:
                    # same fill; mixed with the dtype's zero; mixed with another non-zero fill (float only)
                    base = FILLS[code][2]
                    combos = [(code, code, fmt), (code, base, fmt)]
                    if FILLS[code][0] == "float64":
                        combos.append((code, "3" if code != "3" else "pinf", fmt))
                        if code == "z":
                            combos.append((code, "nz", fmt))
                    # the second operand in another format (always for the zero baselines)
                    if tier == "thorough":
                        combos += [(code, code, g) for g in others]
                    elif code == base or rng.random() < 0.34:
                        combos.append((code, code, cross))
                    combos = [c for i, c in enumerate(combos) if c not in combos[:i]]
                for (c1, c2, fmt2) in combos:
                    cases.append(dict(recipe=name, op=key, fill=c1, fill2=c2, fmt=fmt, fmt2=fmt2))
    return cases, skipped


def is_baseline(c):
    return c["fill"] == FILLS[c["fill"]][2] and (c["fill2"] is None or c["fill2"] == c["fill"])


def build_probes():
    out = []
    for name in PROBES:
        for fmt in ("coo", "gcxs", "dok"):
            for code in ["z", "nz", "3", "nan", "pinf", "iz", "i3", "T"]:
                out.append(dict(probe=name, fill=code, fmt=fmt))
    return out


def impl_batch(batch):
    """all cells of one (family, format) group, run in order by one worker process"""
    out = []
    for case in batch:
        try:
            out.append(impl_case(case))
        except BaseException as ex:  # noqa: BLE001
            out.append({"exc": type(ex).__name__, "msg": str(ex)[:200]})
    return out


def run_generation(auto, cases, probes, guards=()):
    """one interpreter generation: SPARSE_AUTO_DENSIFY set (or not) before the workers are spawned.  Cells are grouped
    by (kernel family, format) so that each Numba kernel is compiled by one process only."""
    order = {"products": 0, "indexing": 1, "reductions": 2, "sort": 3, "argminmax": 4, "elemwise": 5, "misc": 6, "probes": 7}
    groups = {}
    for i, c in enumerate(cases):
        fam = RECIPES[c["recipe"]]["family"]
        # DOK operands are converted to COO by the library, so they share COO's kernels
        fmt = ("gcxs" if c["fmt"] == "gcxs" else "coo+dok") if fam in ("products", "indexing", "reductions", "elemwise") else "*"
        groups.setdefault((order[fam], fam, fmt), []).append(("c", i))
    for i, c in enumerate(probes):
        groups.setdefault((order["probes"], "probes", c["fmt"]), []).append(("p", i))
    for i, c in enumerate(guards):
        groups.setdefault((8, "guards", "*"), []).append(("g", i))
    keys = sorted(groups)
    src = {"c": cases, "p": probes, "g": guards}
    batches = [[dict(src[k][i], auto=auto) for k, i in groups[key]] for key in keys]
    old = os.environ.get("SPARSE_AUTO_DENSIFY")
    try:
        if auto:
            os.environ["SPARSE_AUTO_DENSIFY"] = "1"
        else:
            os.environ.pop("SPARSE_AUTO_DENSIFY", None)
        bres = vlib.run_impl("props.c07", "impl_batch", batches, workers=6, per_case_timeout=150.0)
    finally:
        if old is None:
            os.environ.pop("SPARSE_AUTO_DENSIFY", None)
        else:
            os.environ["SPARSE_AUTO_DENSIFY"] = old
    res, pres, gres = [None] * len(cases), [None] * len(probes), [None] * len(guards)
    dst = {"c": res, "p": pres, "g": gres}
    for key, br in zip(keys, bres, strict=True):
        for j, (k, i) in enumerate(groups[key]):
            # a batch whose worker was killed (hang) comes back as one marker dict: every cell of it gets the marker
            dst[k][i] = br[j] if isinstance(br, list) and j < len(br) else (br if isinstance(br, dict) else None)
    return res, pres, gres


def out_class(r):
    if r is None or r.get("hang"):
        return "hang"
    if "out" in r:
        return r["out"]
    return "other"          # crash / the worker function itself failed (harness problem): surfaces as 'other'


def coq_str(s):
    return '"' + s.replace('"', '""') + '"'


# clause names of the open findings.  D5 diagonal / D14 diagonalize (fix 7b39a89) and D29 sum with a non-finite fill
# (fix f1f8980) were repaired and are no longer tagged: if one of them shows up again it is a new violation.
CODE_TEXT = {
    1: "operation has no required policy / is missing from the generated table",
    2: "SILENTLY WRONG: a result that differs from NumPy on the densified operands",
    3: "the generated guards demand ValueError but the implementation returned a (correct) result",
    4: "unexpected exception class (neither a correct result nor ValueError)",
    5: "hang",
    7: "RuntimeError (implicit densification refused) inside a public operation",
    11: "probe: implicit coercion must raise RuntimeError when auto-densify is off",
    12: "probe: implicit coercion with auto-densify on must give the dense array",
    13: "probe: sparse-dense mix disagrees with the generated dense-mix rule",
    14: "probe: scalar conversion disagrees with the generated _to_scalar rule",
    15: "probe: result silently wrong",
    16: "probe: maybe_densify disagrees with the generated size test",
}
CLAUSE_OF_CODE = {16: "maybe_densify_rule", 1: "unclassified_operation", 2: "silently_wrong", 3: "guard_not_effective", 4: "unexpected_exception",
                  5: "hang", 7: "runtimeerror_in_operation", 11: "coercion_not_refused", 12: "auto_densify_wrong",
                  13: "dense_mix_rule", 14: "to_scalar_rule", 15: "probe_silently_wrong"}
IMPORTS = "From Coq Require Import String.\nFrom Verif Require Import C07Judge.\nOpen Scope string_scope."


def clause_for(code, c, r):
    # no open clause-tagged finding is left for C07 (D5/D14: fix 7b39a89, D29: fix f1f8980, D30: fix ea90286)
    return CLAUSE_OF_CODE.get(code, "other") + ":" + c["op"]


def py_judge_matrix(out_code):
    """policy-independent part of Corr/C07Judge.v:judge_matrix, used only when the Coq judge cannot be built:
    silently wrong, hang, RuntimeError inside an operation, other exception (the baseline being right)"""
    return {OUT_CODE["wrong"]: 2, OUT_CODE["hang"]: 5, OUT_CODE["runtimeerror"]: 7, OUT_CODE["other"]: 4}.get(out_code, 0)


def py_judge_probe(kind, auto, const, shape, nshape, size, out, dense):
    """Python transcription of Corr/C07Judge.v:judge_probe with the rules written out (fallback only)"""
    O = OUT_CODE
    if out == O["unsupported"]:
        return 0
    if out == O["hang"]:
        return 5
    if kind == 0:
        if not auto:
            return 0 if out == O["runtimeerror"] else 11
        return 0 if (out == O["right"] and dense) else 12
    if kind == 1:
        return 15 if out == O["wrong"] else (11 if (out == O["right"] and not auto) else 0)
    if kind == 2:
        if const:
            return 0 if (out == O["right"] and not dense) else (15 if out == O["wrong"] else 13)
        if list(shape) == list(nshape):
            return 0 if (out == O["right"] and dense) else (15 if out == O["wrong"] else 13)
        return 0 if out == O["valueerror"] else 13
    if kind == 3:
        if size != 1 or list(shape) != []:
            return 0 if out == O["valueerror"] else 14
        return 0 if out == O["right"] else (15 if out == O["wrong"] else 14)
    if kind == 4:
        if size > shape[0] and const:
            return 0 if out == O["valueerror"] else 16
        return 0 if (out == O["right"] and dense) else (15 if out == O["wrong"] else 16)
    return 1


def campaign(build, tier, seed, report, budget=1):
    viol = []
    ops = table_ops()
    cases, skipped = build_cases(tier, seed, ops)
    probes = build_probes()
    # AUTO_DENSIFY is read by SparseArray.__array__ only (checked by the site extractor), so the quick tier repeats
    # part of the matrix (element-wise, conversions, shape operations; fills 0, 3, NaN) in the second interpreter generation; the probes
    # run in full in both
    sub = {"z", "3", "nan"}
    light = ("elemwise", "misc")
    gen_cases = {False: cases,
                 True: cases if tier == "thorough" else
                 [c for c in cases if RECIPES[c["recipe"]]["family"] in light and c["fill"] in sub
                  and (c["fill2"] in sub or c["fill2"] is None)]}
    gcases = guard_cases(tier, seed)
    import time
    phase = {}
    gens = {}
    for auto in (False, True):
        t0 = time.time()
        gens[auto] = run_generation(auto, gen_cases[auto], probes, gcases if not auto else ())
        phase["impl_generation_" + ("auto" if auto else "unset")] = round(time.time() - t0, 1)
    t0 = time.time()
    lits, meta, out_codes = [], [], []
    hist = {}
    not_exercised = {}
    harness_failures = []
    for auto in (False, True):
        res = gens[auto][0]
        cs = gen_cases[auto]
        base = {}
        for c, r in zip(cs, res, strict=True):
            if r is not None and "out" not in r and not r.get("hang"):
                harness_failures.append({"case": c, "res": r})
            if is_baseline(c):
                base[(c["recipe"], c["fmt"], c["fmt2"], FILLS[c["fill"]][0])] = out_class(r)
        for i, (c, r) in enumerate(zip(cs, res, strict=True)):
            oc = out_class(r)
            b = base.get((c["recipe"], c["fmt"], c["fmt2"], FILLS[c["fill"]][0]))
            if b is None:
                b = base.get((c["recipe"], c["fmt"], c["fmt"], FILLS[c["fill"]][0]), "right")
            if b != "right" and oc != "wrong":
                # the operation does not work for this format / dtype even with a zero fill: not a fill matter
                not_exercised[(c["recipe"], c["fmt"] + ("/" + c["fmt2"] if c["fmt2"] and c["fmt2"] != c["fmt"] else ""),
                               FILLS[c["fill"]][0])] = b
                oc = "unsupported"
            toks = [FILLS[c["fill"]][3]] + ([FILLS[c["fill2"]][3]] if c["fill2"] is not None else [])
            kind = 1 if RECIPES[c["recipe"]]["kinds"] == "where1" else 0
            lits.append(vpair(coq_str(c["op"]), vZ(kind), vlist(toks), vZ(OUT_CODE[oc])))
            out_codes.append(OUT_CODE[oc])
            meta.append((auto, i))
            hist[(c["op"], oc)] = hist.get((c["op"], oc), 0) + 1
    coq_ok = True
    try:
        tagged = build.judge("c07_matrix", IMPORTS, "matrix_case", "judge_matrix_tagged", lits)
        if len(tagged) != len(lits):
            raise vlib.CoqEvalError(f"judge_matrix_tagged returned {len(tagged)} verdicts for {len(lits)} cases")
        codes = [(k, (v - 1) // 4) for k, v in tagged if (v - 1) // 4 != 0]
        must_raise = sum(1 for _k, v in tagged if (v - 1) % 4 == 0)
    except vlib.CoqEvalError as ex:
        # the Coq side does not build (a generated fragment / the table changed and a definition or proof broke; the
        # build failure itself is reported by the check as a broken obligation): judge with the policy-independent
        # Python verdicts so that a concrete failing input is still searched for and reported
        coq_ok = False
        report["notes"].append("Coq judge unavailable (" + str(ex)[-300:] + "): verdicts by the Python fallback")
        codes = [(k, py_judge_matrix(out_codes[k])) for k in range(len(lits)) if py_judge_matrix(out_codes[k])]
        must_raise = None
    for k, code in codes:
        auto, i = meta[k]
        c, r = gen_cases[auto][i], gens[auto][0][i]
        viol.append({"property": "C07", "op": c["op"], "kind": "representation" if code == 1 else "value",
                     "clause": clause_for(code, c, r), "what": CODE_TEXT.get(code, str(code)),
                     "case": dict(c, auto=auto), "impl": dict(r or {}), "replay_py": replay_line(c, auto)})
    # ---- probes
    plits, pmeta, ptuples = [], [], []
    phist = {}
    for auto in (False, True):
        pres = gens[auto][1]
        for i, (c, r) in enumerate(zip(probes, pres, strict=True)):
            oc = out_class(r)
            r = r or {}
            if "out" not in r and not r.get("hang"):
                harness_failures.append({"case": c, "res": r})
            pr = PROBES[c["probe"]]
            pt = (pr["kind"], auto, bool(r.get("const", True)), r.get("shape", [3, 3]), r.get("nshape", []), r.get("size", 9),
                  OUT_CODE[oc], bool(r.get("dense")))
            ptuples.append(pt)
            plits.append(vpair(vZ(pt[0]), vbool(pt[1]), vbool(pt[2]), vlist(pt[3]), vlist(pt[4]), vZ(pt[5]), vZ(pt[6]), vbool(pt[7])))
            pmeta.append((auto, i))
            tag = (c["probe"], "auto" if auto else "noauto", oc + ("/dense" if r.get("dense") else ""))
            phist[tag] = phist.get(tag, 0) + 1
    pcodes = None
    if coq_ok:
        try:
            pcodes = build.judge("c07_probes", IMPORTS, "probe_case", "judge_probe", plits)
        except vlib.CoqEvalError as ex:
            coq_ok = False
            report["notes"].append("Coq probe judge unavailable (" + str(ex)[-200:] + "): Python fallback")
    if pcodes is None:
        pcodes = [(k, py_judge_probe(*pt)) for k, pt in enumerate(ptuples) if py_judge_probe(*pt)]
    for k, code in pcodes:
        auto, i = pmeta[k]
        c, r = probes[i], gens[auto][1][i]
        viol.append({"property": "C07", "op": "probe:" + c["probe"], "kind": "value",
                     "clause": CLAUSE_OF_CODE.get(code, "probe") + ":" + c["probe"],
                     "what": CODE_TEXT.get(code, str(code)), "case": dict(c, auto=auto), "impl": r,
                     "replay_py": replay_line(c, auto, probe=True)})
    # ---- the guards themselves (kernel level): generated loop bodies vs check_zero/consistent/check_fill_value
    glits = []
    ghist = {}
    for c, r in zip(gcases, gens[False][2], strict=True):
        g = (r or {}).get("g", "other")
        toks = [None if o is None else FILLS[o][3] for o in c["ops"]]
        glits.append(vpair(vZ(c["kind"]), vZ(c["amode"]), vlist(toks, lambda t: "None" if t is None else f"(Some {vZ(t)})"),
                           vlist([acc_token(a) for a in c["acc"]]), vZ(GUARD_OUT[g])))
        ghist[(("check_zero", "check_consistent", "check_fill_value")[c["kind"]], g)] = \
            ghist.get((("check_zero", "check_consistent", "check_fill_value")[c["kind"]], g), 0) + 1
    gcodes = []
    if coq_ok:
        try:
            gcodes = build.judge("c07_guards", IMPORTS, "guard_case", "judge_guard", glits)
        except vlib.CoqEvalError as ex:
            coq_ok = False
            report["notes"].append("Coq guard judge unavailable (" + str(ex)[-200:] + "): guard correspondence skipped")
    for k, code in gcodes:
        c = gcases[k]
        viol.append({"property": "C07", "op": ("check_zero_fill_value", "check_consistent_fill_value", "check_fill_value")[c["kind"]],
                     "kind": "representation", "clause": "guard_model_mismatch",
                     "what": "the generated guard (Gen/S_fill.v + Model/FillRules.v loops) disagrees with the implementation's guard",
                     "case": c, "impl": gens[False][2][k], "replay_py": replay_line(c, False)})
    if harness_failures:
        viol.append({"property": "C07", "op": "harness", "kind": "representation", "clause": "harness_failure",
                     "what": "the worker function itself failed on some cases", "case": harness_failures[0]["case"],
                     "impl": harness_failures[0]["res"], "count": len(harness_failures), "replay_py": "# see case"})
    # ---- coverage
    cov = report["coverage"]
    phase["coq_judges"] = round(time.time() - t0, 1)
    cov["phase_seconds"] = phase
    cov["judged_by"] = "Coq (Corr/C07Judge.v)" if coq_ok else "Python fallback (the Coq judge did not build)"
    cov["evaluations"] = len(lits) + len(plits) + len(glits)
    cov["guard_tags"] = {f"{k[0]}:{k[1]}": v for k, v in sorted(ghist.items())}
    exercised_ops = sorted({c["op"] for c in cases})
    cov["distinct_nontrivial"] = len({(c["recipe"], c["fill"], c["fill2"], c["fmt"], c["fmt2"]) for c in cases
                                      if not is_baseline(c)}) + len(probes)
    cov["rule"] = ("operation x fill matrix: every recipe (one call of a public operation named in the generated site table) x "
                   "fills {0,-0.0,3,NaN,+inf,-inf float64; 0,3 int64; False,True} x formats COO/GCXS/DOK (second operand: same fill, "
                   "the dtype's zero, another non-zero fill, another format) x SPARSE_AUTO_DENSIFY in {unset,1} (separate interpreter "
                   "generations; quick tier: the second generation repeats the element-wise / conversion / shape recipes with fills {0,3,NaN} "
                   "— the switch is read by __array__ only, theorem coercion_single_site); plus coercion / dense-mix / "
                   "scalar-conversion probes in both generations; distinct = distinct non-baseline cells + probes")
    cov["cases_per_generation"] = {"unset": len(gen_cases[False]), "1": len(gen_cases[True]), "probes": len(probes)}
    cov["operations_in_table"] = len(ops)
    cov["public_operations_in_table"] = sum(1 for r in ops.values() if r["public"])
    probe_ops = ["SparseArray.__array__", "SparseArray.__array_ufunc__", "SparseArray.__float__", "SparseArray.__bool__",
                 "SparseArray.__int__"]
    exercised_ops = sorted(set(exercised_ops) | {o for o in probe_ops if o in ops})
    cov["operations_exercised"] = len(exercised_ops)
    cov["recipes_without_method_for_format"] = skipped
    cov["public_ops_without_recipe"] = sorted(o for o, r in ops.items() if r["public"] and o not in exercised_ops)
    cov["not_exercised_baseline_fails"] = {f"{k[0]}@{k[1]}:{k[2]}": v for k, v in sorted(not_exercised.items())}
    cov["differential_only"] = sorted(nm for nm, rec in RECIPES.items() if rec["approx"])
    cov["model_must_raise_cases"] = must_raise
    cov["branch_tags"] = {f"{k[0]}:{k[1]}": v for k, v in sorted(hist.items())}
    cov["probe_tags"] = {f"{k[0]}/{k[1]}/{k[2]}": v for k, v in sorted(phist.items())}
    cov["right_up_to_sign_of_zero"] = sum(1 for auto in (False, True) for r in gens[auto][0] if r and r.get("match") == 2)
    cov["samples"] = [dict(case=cases[i], impl=gens[False][0][i]) for i in (0, len(cases) // 3, len(cases) - 1)]
    return viol


def replay_line(c, auto, probe=False):
    env = "import os; os.environ['SPARSE_AUTO_DENSIFY']='1'; " if auto else ""
    fn = "impl_probe" if probe else "impl_case"
    return (f"{env}import sys; sys.path.insert(0, '/verif/tools'); import props.c07 as m; "
            f"print(m.{fn}({dict(c, auto=auto)!r}))")


def replay(path):
    v = json.load(open(path))
    print(json.dumps(v, indent=1, default=str)[:3000])
    if "replay_py" in v and not v["replay_py"].startswith("#"):
        import subprocess
        p = subprocess.run([vlib.PY, "-c", v["replay_py"]], env=vlib.env_clean(), capture_output=True, text=True)
        print(p.stdout, p.stderr[-800:])
    return 0
