"""C17 — all call paths to an operation agree.

Campaign (implementation in worker processes, verdicts inside Coq by Corr/C17Judge.v):
  part 1  for every operation class of the GENERATED table (tools/sitegen/dispatch.py) x format x operand
          position x random small integer operands: run every spelling, canonicalise, require identical outcome
          (type/format, shape, dtype, fill, coords/data after conversion to COO, or exception class) and a
          sparse result whenever the method spelling is sparse; the judge compares with the model's `resolve`.
  part 2  every namespace wrapper called with keywords vs the method called with the keywords renamed by the
          model's forwarding map (the renaming itself is re-derived in Coq).
  part 3  NumPy's own call shapes (second argument positional, NumPy keyword names) through np.f(x, ...) vs
          x.f(...); the judge predicts binding from the generated signatures.
  part 4  sweep over numpy.__all__ (+ linalg, fft) callables on 1-3 sparse arguments with todense()/
          maybe_densify() instrumented: never a silently densified result; the judge compares the outcome class
          with the model (TypeError for every name the model says is not implemented)."""
import importlib.util
import itertools
import json
import os
import random

import vlib
from vlib import vZ, vbool, vlist, vpair

LEVEL = "proof"
TRUSTED_BASE = [
    "Coq 8.16.1 kernel + vm_compute (generated-table obligations and case evaluation); no native_compute",
    "axioms: none (Print Assumptions: Closed under the global context for every C17 theorem)",
    "tools/sitegen/dispatch.py: AST extraction of the namespace, wrapper forwarding maps, class attribute tables, "
    "the step list of __array_function__, the branch table of __array_ufunc__, the guard of __array__ "
    "(fail-closed on unrecognised shapes); the classification of NumPy's public names (ufunc / gufunc / NEP-18 "
    "function / not dispatched) and the operator table of numpy.lib.mixins come from the INSTALLED NumPy",
    "NumPy's own protocol dispatch (NEP-13/NEP-18 call order, __array_priority__, reflected operators, "
    "NDArrayOperatorsMixin internals, normalisation of out=/axis= before __array_ufunc__) is runtime behaviour: "
    "observed by the campaign, not proved",
    "the spec tables REDUCTION_SPEC / OPERATOR_SPEC / EXTRA_ALIASES of tools/sitegen/dispatch.py (which names denote "
    "the same operation) and the argument templates of tools/props/c17.py",
    "correspondence harness tools/props/c17.py, tools/vlib.py (densification is detected by instrumenting "
    "todense()/maybe_densify() in the worker process)",
]
ASSUMPTIONS = [
    "method bodies, elemwise(), reduce() and the opaque namespace functions are leaves of the model: their VALUES are "
    "other properties' subject (C01, C03, C04, C08); C17 proves that spellings reach the same leaf with the same arguments",
    "wrapper_ok_sound assumes literals that compare equal in Python (0 == 0.0) mean the same to the method body "
    "(hypothesis inj_equiv; exercised by the campaign on var/std)",
    "SPARSE_AUTO_DENSIFY is unset",
]

K = {"sparse": 0, "ndarray": 1, "scalar": 2, "tuple": 3, "none": 4, "TypeError": 10, "AttributeError": 11,
     "ValueError": 12, "NotImplementedError": 13, "RuntimeError": 14, "otherexc": 19, "hang": 20,
     "nep18": 21, "ufunc_te": 22, "densified": 30}

CLS_OF = {"coo": "COO", "dok": "DOK", "gcxs": "GCXS"}
WORKERS = 10


def _tables():
    sp = importlib.util.spec_from_file_location("sitegen_dispatch", os.path.join(vlib.VERIF, "tools", "sitegen", "dispatch.py"))
    m = importlib.util.module_from_spec(sp)
    sp.loader.exec_module(m)
    try:
        return m, m.tables(vlib.REPO), None
    except Exception as ex:  # noqa: BLE001
        # the extraction fails closed on a tree whose dispatch code no longer has the recognised shape (that is
        # already a broken site obligation); the campaign then searches a failing input with the REFERENCE tables
        # committed in coq/Gen (the Coq judge is built from the committed Gen/S_dispatch.v in that case, too)
        import ast
        ref = os.path.join(vlib.COQ_SRC, "Gen", "S_dispatch_tables.txt")
        return m, ast.literal_eval(open(ref).read()), f"{type(ex).__name__}: {ex}"


# =================================================================== worker side
_STATE = {}


def _setup():
    if _STATE:
        return _STATE
    import warnings

    import numpy as np
    import sparse
    warnings.filterwarnings("ignore")
    np.seterr(all="ignore")
    cnt = {"n": 0}

    def wrap(cls, name):
        orig = getattr(cls, name)

        def f(self, *a, **k):
            cnt["n"] += 1
            return orig(self, *a, **k)
        f.__name__ = name
        setattr(cls, name, f)
    for cls in (sparse.COO, sparse.GCXS, sparse.DOK):
        wrap(cls, "todense")
        if "maybe_densify" in cls.__dict__:
            wrap(cls, "maybe_densify")
    _STATE.update(np=np, sparse=sparse, cnt=cnt)
    return _STATE


def _arr(dense, dtype):
    """nested list -> ndarray; ('zeros', shape) for arrays with a zero-length extent (a nested list cannot say (0, 3))"""
    np = _setup()["np"]
    if isinstance(dense, tuple) and dense and dense[0] == "zeros":
        return np.zeros(tuple(dense[1]), dtype=dtype)
    if dtype == "complex128":
        # descriptors carry real numbers only (JSON replays): a complex operand is the real array times (1+2j), so every
        # non-zero element has a non-zero imaginary part (seeded C17-m6: conjugation keyed on the wrong operand)
        return np.array(dense, dtype="float64") * (1 + 2j)
    return np.array(dense, dtype=dtype)


def _mk(d):
    """operand descriptor -> object"""
    st = _setup()
    np, sparse = st["np"], st["sparse"]
    t = d[0]
    if t == "sp":
        _t, fmt, ca, dense, fill, dtype = d
        arr = _arr(dense, dtype)
        c = sparse.COO.from_numpy(arr, fill_value=fill)
        if fmt == "coo":
            return c
        if fmt == "dok":
            return c.asformat("dok")
        return sparse.GCXS.from_coo(c, compressed_axes=None if ca is None else tuple(ca))
    if t == "nd":
        return _arr(d[1], d[2])
    if t == "scipy":
        import scipy.sparse as ss
        return ss.csr_matrix(_arr(d[1], d[2]))
    if t == "py":
        return d[1]
    if t == "tuple":
        return tuple(d[1])
    if t == "dtype":
        return np.dtype(d[1])
    if t == "npscalar":
        return np.int64(d[1])
    if t == "list":
        return [_mk(x) for x in d[1]]
    if t == "ufuncobj":
        return getattr(np, d[1])
    if t == "expand":          # x[(Ellipsis,) + (None,) * n]: the broadcasting spelling of an outer operand
        return _mk(d[1])[(Ellipsis,) + (None,) * d[2]]
    if t == "outsp":
        _t, fmt, ca, shape, dtype = d
        z = sparse.zeros(tuple(shape), dtype=dtype)
        if fmt == "coo":
            return z
        if fmt == "dok":
            return z.asformat("dok")
        return sparse.GCXS.from_coo(z, compressed_axes=None if ca is None else tuple(ca))
    raise ValueError(d)


def _scal(v):
    import numpy as np
    if isinstance(v, (bool, np.bool_)):
        return "b" + str(bool(v))
    if isinstance(v, (int, np.integer)):
        return "i" + str(int(v))
    if isinstance(v, (float, np.floating)):
        v = float(v)
        return "f" + ("nan" if v != v else v.hex())
    if isinstance(v, (complex, np.complexfloating)):
        return "c" + repr(complex(v))
    return "o" + repr(v)[:60]


def _canon(r, depth=0):
    """(kind, canonical string)"""
    st = _setup()
    np, sparse = st["np"], st["sparse"]
    if isinstance(r, sparse.SparseArray):
        c = r if isinstance(r, sparse.COO) else (r.asformat("coo") if hasattr(r, "asformat") else sparse.COO(r))
        coords = np.asarray(c.coords)
        data = np.asarray(c.data)
        if coords.shape[1]:
            order = np.lexsort(coords[::-1]) if coords.shape[0] else np.arange(coords.shape[1])
            coords, data = coords[:, order], data[order]
        extra = tuple(int(a) for a in r.compressed_axes) if getattr(r, "compressed_axes", None) is not None else None
        # "T:<array type, compressed axes>|" + CONTENT (shape, dtype, fill, nnz of the result as returned, stored
        # coordinates and data after conversion to COO, nothing pruned): the parent compares both levels
        return "sparse", "T:%s,%s|" % (type(r).__name__, extra) + repr(
            ("S", tuple(int(s) for s in r.shape), r.dtype.str, _scal(r.fill_value), int(r.nnz),
             coords.T.tolist(), [_scal(v) for v in data]))
    if isinstance(r, np.ndarray):
        return "ndarray", repr(("A", r.shape, r.dtype.str, [_scal(v) for v in r.ravel()]))
    if r is None:
        return "none", "None"
    if isinstance(r, (tuple, list)) and depth < 3:
        parts = [_canon(x, depth + 1) for x in r]
        return "tuple", repr((type(r).__name__ if isinstance(r, (tuple, list)) and type(r) in (tuple, list) else "tuple",
                              [p[1] for p in parts]))
    if isinstance(r, (bool, int, float, complex, np.generic)):
        return "scalar", repr((type(r).__name__, _scal(r)))
    if isinstance(r, np.dtype):
        return "scalar", "dtype:" + r.str
    return "scalar", "obj:" + type(r).__name__


def content_of(can):
    """canonical string without the array-type markers"""
    import re
    return re.sub(r"T:[A-Za-z0-9_]*,[^|]*\|", "", can)


def _contains(r, pred, depth=0):
    if pred(r):
        return True
    if isinstance(r, (tuple, list)) and depth < 3:
        return any(_contains(x, pred, depth + 1) for x in r)
    return False


def _run(thunk):
    """-> (kind name, canonical string, densified?)"""
    st = _setup()
    np, sparse = st["np"], st["sparse"]
    n0 = st["cnt"]["n"]
    import contextlib
    import io
    try:
        with contextlib.redirect_stdout(io.StringIO()), contextlib.redirect_stderr(io.StringIO()):
            r = thunk()
    except BaseException as ex:  # noqa: BLE001
        nm = type(ex).__name__
        msg = str(ex)
        if nm == "TypeError" and msg.startswith("no implementation found for"):
            return "nep18", "exc:TypeError", False
        if nm == "TypeError" and "all returned NotImplemented" in msg:
            return "ufunc_te", "exc:TypeError", False
        return (nm if nm in K else "otherexc"), "exc:" + nm, False
    dens = st["cnt"]["n"] > n0
    kind, can = _canon(r)
    has_sparse = _contains(r, lambda x: isinstance(x, sparse.SparseArray))
    has_nd = _contains(r, lambda x: isinstance(x, np.ndarray))
    return kind, can, bool(dens and has_nd and not has_sparse)


def _first_sparse(args):
    sparse = _setup()["sparse"]
    for a in args:
        if isinstance(a, sparse.SparseArray):
            return a
        if isinstance(a, (list, tuple)):
            for b in a:
                if isinstance(b, sparse.SparseArray):
                    return b
    return None


_OPS = {"lt": "lt", "le": "le", "eq": "eq", "ne": "ne", "gt": "gt", "ge": "ge", "add": "add", "sub": "sub",
        "mul": "mul", "matmul": "matmul", "truediv": "truediv", "floordiv": "floordiv", "mod": "mod", "pow": "pow",
        "lshift": "lshift", "rshift": "rshift", "and": "and_", "xor": "xor", "or": "or_", "neg": "neg", "pos": "pos",
        "abs": "abs", "invert": "invert"}


def _call(sp, args, kwargs):
    """thunk performing the spelling `sp` on built arguments"""
    import operator
    st = _setup()
    np, sparse = st["np"], st["sparse"]
    k = sp[0]
    if k == "method":
        return lambda: getattr(args[0], sp[1])(*args[1:], **kwargs)
    if k == "attr":
        return lambda: getattr(args[0], sp[1])
    if k == "namespace":
        return lambda: getattr(sparse, sp[1])(*args, **kwargs)
    if k == "array_namespace":
        return lambda: getattr(_first_sparse(args).__array_namespace__(), sp[1])(*args, **kwargs)
    if k == "numpy_function":
        f = np
        for part in sp[1].split("."):
            f = getattr(f, part)
        return lambda: f(*args, **kwargs)
    if k == "ufunc":
        u = getattr(np, sp[1])
        return (lambda: u(*args, **kwargs)) if sp[2] == "__call__" else (lambda: getattr(u, sp[2])(*args, **kwargs))
    if k == "operator":
        return lambda: getattr(operator, _OPS[sp[1]])(*args)
    raise ValueError(sp)


def impl_agree(case):
    """case: {'calls': [(spelling, [arg descriptors], {kw: descriptor})]} -> {'out': [(kind, canon)]}"""
    out = []
    for sp, ad, kd in case["calls"]:
        args = [_mk(a) for a in ad]
        kwargs = {k: _mk(v) for k, v in kd.items()}
        kind, can, _d = _run(_call(tuple(sp), args, kwargs))
        for k, v in kd.items():
            if v[0] == "outsp":          # the state of an out= argument after the call is part of the outcome
                can += "|out:" + _canon(kwargs[k])[1]
        out.append((kind, can))
    return {"out": out}


def impl_sweep(case):
    """case: (public (dotted) numpy name, [operand descriptors], compare with NumPy on the dense operands?)
    -> {'kind', 'canon', 'np_ok'}"""
    name, ads, want_ref = case
    st = _setup()
    np = st["np"]
    f = np
    for part in name.split("."):
        f = getattr(f, part)
    args = [_mk(a) for a in ads]
    box = {}

    def thunk():
        box["r"] = f(*args)
        return box["r"]
    kind, can, dens = _run(thunk)
    good = True
    if want_ref and "r" in box and kind in ("sparse", "ndarray", "scalar"):
        try:
            import contextlib
            import io
            with np.errstate(all="ignore"), contextlib.redirect_stdout(io.StringIO()):
                want = np.asarray(f(*[_dense(_mk(a)) for a in ads]))
            got = np.asarray(_dense(box["r"]))
            good = bool(got.shape == want.shape and np.array_equal(got, want, equal_nan=True))
        except Exception:  # noqa: BLE001  (NumPy itself rejects the dense call: any normal return is wrong)
            good = False
    return {"kind": "densified" if dens else kind, "canon": can[:300], "np_ok": good}


def _dense(a):
    st = _setup()
    np, sparse = st["np"], st["sparse"]
    if isinstance(a, sparse.SparseArray):
        return a.todense()
    if hasattr(a, "toarray"):
        return a.toarray()
    return a


def impl_order(case):
    """case: {'calls': [...], 'ref': (ufunc name, method, [dense-able arg descriptors], {kw})}
    -> {'out': [(kind, canon)], 'np_ok': [bool]}: every call's densified result against NumPy's"""
    st = _setup()
    np, sparse = st["np"], st["sparse"]
    u, m, rad, rkd = case["ref"]
    try:
        f = getattr(np, u) if m == "__call__" else getattr(getattr(np, u), m)
        with np.errstate(all="ignore"):
            want = f(*[_dense(_mk(a)) for a in rad], **{k: _mk(v) for k, v in rkd.items()})
        want = np.asarray(want)
    except Exception:  # noqa: BLE001
        want = None
    out, ok = [], []
    for sp, ad, kd in case["calls"]:
        args = [_mk(a) for a in ad]
        kwargs = {k: _mk(v) for k, v in kd.items()}
        box = {}

        def thunk(sp=sp, args=args, kwargs=kwargs, box=box):
            box["r"] = _call(tuple(sp), args, kwargs)()
            return box["r"]
        kind, can, _d = _run(thunk)
        out.append((kind, can))
        good = True
        if "r" in box and want is not None and kind in ("sparse", "ndarray", "scalar"):
            try:
                got = np.asarray(_dense(box["r"]))
                good = bool(got.shape == want.shape and got.dtype == want.dtype and np.array_equal(got, want, equal_nan=True))
            except Exception:  # noqa: BLE001
                good = True
        ok.append(good)
    return {"out": out, "np_ok": ok}


def impl_any(case):
    """one worker entry point for all parts, so that every worker process pays import + JIT once"""
    part, payload = case
    if part == "bundle":
        return {"bundle": [impl_any(c) for c in payload]}
    if part == "sweep":
        return impl_sweep(payload)
    if part == "order":
        return impl_order(payload)
    return impl_agree(payload)


def run_bundled(items, keys, workers, timeout):
    """run_impl over bundles of cases with equal key (one worker pays the JIT of one operation family); a bundle
    that hangs / crashes is re-run case by case so that the watchdog verdict is per case"""
    order = {}
    for i, k in enumerate(keys):
        order.setdefault(k, []).append(i)
    bundles = list(order.values())
    bres = vlib.run_impl("props.c17", "impl_any", [("bundle", [items[i] for i in b]) for b in bundles],
                         workers=workers, per_case_timeout=timeout)
    out = [None] * len(items)
    redo = []
    for b, r in zip(bundles, bres, strict=True):
        if isinstance(r, dict) and "bundle" in r and len(r["bundle"]) == len(b):
            for i, x in zip(b, r["bundle"], strict=True):
                out[i] = x
        else:
            redo.extend(b)
    if redo:
        rres = vlib.run_impl("props.c17", "impl_any", [items[i] for i in redo], workers=workers, per_case_timeout=30.0)
        for i, x in zip(redo, rres, strict=True):
            out[i] = x
    return out, len(bundles), len(redo)


# =================================================================== generators (parent side)
def _rand_dense(rng, shape, fill=0, lo=-3, hi=4):
    n = 1
    for s in shape:
        n *= s
    if n == 0:
        return ("zeros", list(shape))
    flat = [(rng.randint(lo, hi) if rng.random() < 0.55 else fill) for _ in range(n)]
    if n and all(v == fill for v in flat):
        flat[rng.randrange(n)] = fill + 1

    def nest(vals, shp):
        if not shp:
            return vals[0]
        step = len(vals) // shp[0] if shp[0] else 0
        return [nest(vals[i * step:(i + 1) * step], shp[1:]) for i in range(shp[0])]
    return nest(flat, list(shape))


def _formats(tier):
    f = [("coo", None), ("gcxs", (0,)), ("gcxs", (1,)), ("dok", None)]
    if tier != "quick":
        f.append(("gcxs", (0, 1)))
    return f


def _sp(rng, fmt, shape, fill=0, dtype="int64", lo=-3, hi=4):
    name, ca = fmt
    if ca is not None and (len(shape) < 2 or max(ca) >= len(shape) or len(ca) >= len(shape)):
        ca = None          # GCXS cannot compress all axes: fall back to the default choice
    return ("sp", name, ca, _rand_dense(rng, shape, fill, lo, hi), fill, dtype)


def _nd(rng, shape, dtype="int64"):
    return ("nd", _rand_dense(rng, shape, 0), dtype)


def _scipy(rng, shape):
    return ("scipy", _rand_dense(rng, shape, 0), "int64")


REDUCTIONS = ("sum", "prod", "max", "min", "any", "all")
DOCUMENTED_KW_RENAMES = {"correction": "ddof"}


def templates(label, sps, nptab, rng, fmt, tier):
    """argument variants for one operation class: list of (args, kwargs, tag)"""
    kinds = {s[0] for s in sps}
    uf = [s for s in sps if s[0] == "ufunc" and s[2] == "__call__"]
    V = []
    sh = rng.choice([(2, 3), (3, 2), (3, 3)])
    fills = [0, 2] if tier != "quick" else [rng.choice([0, 0, 2])]
    if label in REDUCTIONS or label in ("mean", "var", "std"):
        for fill in fills:
            x = _sp(rng, fmt, sh, fill)
            V.append(([x], {"axis": ("py", 0)}, "axis0"))
            V.append(([x], {"axis": ("py", 1), "keepdims": ("py", True)}, "axis1_keepdims"))
            V.append(([x], {"axis": ("py", None)}, "axis_none"))
            V.append(([x], {}, "noargs"))
            if label in ("sum", "prod", "mean"):
                V.append(([x], {"axis": ("py", 0), "dtype": ("dtype", "float64")}, "dtype"))
            if label in ("var", "std"):
                V.append(([x], {"correction": ("py", 1)}, "correction"))
                V.append(([x], {"correction": ("py", 0.5)}, "correction_fractional"))
                V.append(([x], {"axis": ("py", 1), "correction": ("py", 1.5)}, "correction_fractional_axis"))
                V.append(([x], {"axis": ("py", 0), "correction": ("py", 1), "keepdims": ("py", True)}, "correction_axis"))
        x3 = _sp(rng, fmt, (2, 2, 3), 0)
        V.append(([x3], {"axis": ("tuple", [0, 2])}, "axis_tuple"))
        return V
    if uf:
        info = dict(nptab).get(uf[0][1])
        nin = info[3] if info and info[0] == "ufunc" else 1
        if nin == 1:
            if label in ("isnan", "isinf", "isfinite", "isneginf", "isposinf", "sign", "abs"):
                # values that make the predicate TRUE somewhere, FALSE on other stored elements
                xs = _sp(rng, fmt, sh, 0, "float64")
                flat = [float("nan"), float("inf"), -float("inf"), 0.0, 2.0, 0.0]
                rng.shuffle(flat)
                dense = [flat[i * sh[1]:(i + 1) * sh[1]] for i in range(sh[0])] if sh[0] * sh[1] == 6 else \
                    [[float("nan"), 0.0, 1.0], [float("inf"), 0.0, 0.0], [0.0, -float("inf"), 3.0]][:sh[0]]
                dense = [row[:sh[1]] + [0.0] * (sh[1] - len(row)) for row in dense]
                V.append(([("sp", xs[1], xs[2], dense, 0, "float64")], {}, "unary_nonfinite"))
            for fill in fills:
                V.append(([_sp(rng, fmt, sh, fill)], {}, "unary"))
            V.append(([_sp(rng, fmt, (4,), 0)], {}, "unary_1d"))
            return V
        if label in ("matmul", "vecdot"):
            pass
        else:
            small = label in ("pow", "bitwise_left_shift", "bitwise_right_shift")
            lo, hi = (0, 3) if small else (-3, 4)
            for fill in fills:
                x = _sp(rng, fmt, sh, fill, lo=lo, hi=hi)
                y = _sp(rng, fmt, sh, 0, lo=lo, hi=hi)
                V.append(([x, y], {}, "sparse_sparse"))
                V.append(([x, ("py", 2)], {}, "sparse_scalar"))
                V.append((([("py", 2), x]), {}, "scalar_sparse"))
                V.append(([x, ("npscalar", 3)], {}, "sparse_npscalar"))
            x = _sp(rng, fmt, sh, 0, lo=lo, hi=hi)
            V.append(([x, _nd(rng, sh)], {}, "sparse_ndarray"))
            V.append(([_nd(rng, sh), x], {}, "ndarray_sparse"))
            V.append(([x, _scipy(rng, sh)], {}, "sparse_scipy"))
            V.append(([x, _sp(rng, fmt, (sh[1],), 0, lo=lo, hi=hi)], {}, "broadcast"))
            return V
    if label in ("matmul", "dot", "vecdot"):
        x = _sp(rng, fmt, (2, 3), 0)
        if label == "vecdot":
            y = _sp(rng, fmt, (2, 3), 0)
            xc, yc = _sp(rng, fmt, (2, 3), 0, dtype="complex128"), _sp(rng, fmt, (2, 3), 0, dtype="complex128")
            xf = _sp(rng, fmt, (2, 3), 0, dtype="float64")
            return [([x, y], {}, "sparse_sparse"), ([x, _nd(rng, (2, 3))], {}, "sparse_ndarray"),
                    ([xc, xf], {}, "complex_real"), ([xf, xc], {}, "real_complex"), ([xc, yc], {}, "complex_complex")]
        y = _sp(rng, fmt, (3, 2), 0)
        V.append(([x, y], {}, "sparse_sparse"))
        V.append(([x, _nd(rng, (3, 2))], {}, "sparse_ndarray"))
        V.append(([_nd(rng, (2, 2)), x], {}, "ndarray_sparse"))
        V.append(([x, _scipy(rng, (3, 2))], {}, "sparse_scipy"))
        V.append(([x, _sp(rng, fmt, (3,), 0)], {}, "matrix_vector"))
        if label == "matmul":
            V.append(([x, ("py", 2)], {}, "sparse_scalar"))
            V.append(([_sp(rng, fmt, (2, 2, 3), 0), _sp(rng, fmt, (2, 3, 2), 0)], {}, "batched"))
        return V
    x = _sp(rng, fmt, sh, 0)
    xf = _sp(rng, fmt, sh, 0, "float64")
    y = _sp(rng, fmt, sh, 0)
    n = sh[0] * sh[1]
    T = {
        "astype": [([x, ("dtype", "float64")], {}, "to_float"), ([x, ("dtype", "int64")], {"copy": ("py", False)}, "nocopy")],
        "reshape": [([x, ("tuple", [n])], {}, "flat"), ([x, ("tuple", [sh[1], sh[0]])], {}, "swap"),
                    ([x, ("tuple", [-1, 1])], {}, "minus_one")],
        "permute_dims": [([x, ("tuple", [1, 0])], {}, "axes"), ([x], {}, "default"),
                         ([_sp(rng, fmt, (2, 1, 3), 0), ("tuple", [2, 0, 1])], {}, "axes3")],
        "squeeze": [([_sp(rng, fmt, (1, 3), 0)], {}, "all"), ([_sp(rng, fmt, (1, 3, 1), 0)], {"axis": ("py", 0)}, "axis")],
        "broadcast_to": [([x, ("tuple", [2, sh[0], sh[1]])], {}, "new_axis")],
        "round": [([xf], {}, "default"), ([xf, ("py", 1)], {}, "decimals_pos"), ([xf], {"decimals": ("py", 1)}, "decimals_kw"),
                  ([xf], {"decimals": ("py", 1), "out": ("outsp", fmt[0], xf[2], list(sh), "float64")}, "out")],
        "clip": [([x, ("py", -1), ("py", 2)], {}, "both"), ([x, ("py", 0)], {}, "min_only"),
                 ([x, ("py", -1), ("py", 2)], {"out": ("outsp", fmt[0], x[2], list(sh), "int64")}, "out"),
                 ([_sp(rng, fmt, sh, 2), ("py", 1), ("py", 2)], {}, "fill2")],
        "tensordot": [([x, _sp(rng, fmt, (sh[1], 2), 0)], {"axes": ("py", 1)}, "axes1"),
                      ([x, _nd(rng, (sh[1], 2))], {"axes": ("py", 1)}, "sparse_ndarray")],
        "concatenate": [([("list", [x, y])], {}, "axis0"), ([("list", [x, y])], {"axis": ("py", 1)}, "axis1")],
        "stack": [([("list", [x, y])], {}, "axis0"), ([("list", [x, y])], {"axis": ("py", 1)}, "axis1")],
        "argmax": [([x], {}, "flat"), ([x], {"axis": ("py", 0)}, "axis0")],
        "argmin": [([x], {}, "flat"), ([x], {"axis": ("py", 1)}, "axis1")],
        "diagonal": [([x], {}, "default"), ([x], {"offset": ("py", 1)}, "offset")],
        "expand_dims": [([x], {"axis": ("py", 0)}, "axis0"), ([x], {"axis": ("py", 1)}, "axis1")],
        "flip": [([x], {}, "all"), ([x], {"axis": ("py", 0)}, "axis0")],
        "roll": [([x, ("py", 1)], {}, "flat"), ([x, ("py", 1)], {"axis": ("py", 0)}, "axis0")],
        "moveaxis": [([x, ("py", 0), ("py", 1)], {}, "01")],
        "swapaxes": [([x, ("py", 0), ("py", 1)], {}, "01")],
        "kron": [([x, y], {}, "sparse_sparse")],
        "outer": [([_sp(rng, fmt, (3,), 0), _sp(rng, fmt, (2,), 0)], {}, "1d")],
        "where": [([_sp(rng, fmt, sh, 0), x, y], {}, "three"), ([x], {}, "one")],
        "tril": [([x], {}, "k0"), ([x], {"k": ("py", 1)}, "k1")],
        "triu": [([x], {}, "k0"), ([x], {"k": ("py", -1)}, "km1")],
        "take": [([x, ("py", [0, 1])], {"axis": ("py", 0)}, "axis0"), ([x, ("py", [0, 2])], {}, "flat")],
        "sort": [([x], {}, "default"), ([x], {"axis": ("py", 0)}, "axis0")],
        "pad": [([x, ("py", 1)], {}, "one")],
        "isposinf": [([xf], {}, "float")],
        "isneginf": [([xf], {}, "float")],
        "einsum": [([("py", "ij->i"), x], {}, "rowsum"), ([("py", "ij,ij->ij"), x, y], {}, "hadamard")],
        "result_type": [([x, xf], {}, "two")],
        "full_like": [([x, ("py", 7)], {}, "seven")],
        "broadcast_arrays": [([x, _sp(rng, fmt, (sh[1],), 0)], {}, "two")],
        "copy": [([x], {}, "plain")],
        "nonzero": [([x], {}, "plain")],
        "argwhere": [([x], {}, "plain")],
    }
    if label in T:
        return T[label]
    if label.startswith("nan"):
        return [([xf], {}, "all"), ([xf], {"axis": ("py", 0)}, "axis0")]
    # default: one argument (attributes, unary functions)
    return [([x], {}, "unary_default"), ([_sp(rng, fmt, sh, 0, "float64")], {}, "unary_float")]


def _is_sparse_desc(d):
    return d[0] == "sp" or (d[0] == "list" and any(x[0] == "sp" for x in d[1]))


def applicable(sp, args, kwargs, wrapper_of):
    """(args, kwargs) to use for this spelling, or None when the spelling cannot express the call"""
    k = sp[0]
    if k == "attr":
        return (args, {}) if len(args) == 1 and not kwargs and args[0][0] == "sp" else None
    if k == "operator":
        if kwargs or len(args) > 2:
            return None
        unary = sp[1] in ("neg", "pos", "abs", "invert")
        if unary != (len(args) == 1):
            return None
        if unary:
            return (args, {}) if args[0][0] == "sp" else None
        a_sp = args[0][0] == "sp"
        b_sp = args[1][0] == "sp"
        if sp[2] == "L":
            return (args, {}) if a_sp else None
        return (args, {}) if (b_sp and not a_sp) else None
    if k == "method":
        if not args or args[0][0] != "sp":
            return None
        w = wrapper_of.get(sp[1])
        # when the namespace function is (no longer) a thin wrapper the documented Array-API renames of
        # Model/Dispatch.v (documented_renames) still say how the method spells the keyword
        kw = {DOCUMENTED_KW_RENAMES.get(kk, kk): v for kk, v in kwargs.items()}
        if w is not None:
            # a keyword the wrapper accepts but does not forward is given to the method under its own name
            kw = {(rename_key(w, kk) or (kk if kk == "out" else None)): v for kk, v in kwargs.items()}
            if None in kw:
                return None
        return (args, kw)
    if k == "ufunc" and sp[2] == "reduce":
        if len(args) != 1 or any(kk not in ("axis", "keepdims", "dtype") for kk in kwargs) or "axis" not in kwargs:
            return None
        return (args, kwargs)
    if k in ("namespace", "array_namespace", "numpy_function", "ufunc"):
        if k == "array_namespace" and not any(_is_sparse_desc(a) for a in args):
            return None
        return (args, kwargs)
    return None


def rename_key(w, k, msig=None):
    """python-side forwarding: wrapper parameter -> method keyword (None when dropped).  Positional forwards are
    named after the method's positional parameters in order (the model's name_fwd)."""
    for key, src in w["fwd"]:
        if src == ("param", k) and key[0] == "kw":
            return key[1]
    pos = [src for key, src in w["fwd"] if key[0] == "pos"]
    for i, src in enumerate(pos):
        if src == ("param", k):
            if msig is not None and i < len(msig):
                return msig[i][0]
            return k
    return None


# =================================================================== Coq literals
def q(s):
    return '"' + s.replace('"', '""') + '"'


def cspell(sp):
    k = sp[0]
    if k == "method":
        return f"(Method {q(sp[1])})"
    if k == "attr":
        return f"(Attr {q(sp[1])})"
    if k == "namespace":
        return f"(Namespace {q(sp[1])})"
    if k == "array_namespace":
        return f"(ArrayNamespace {q(sp[1])})"
    if k == "numpy_function":
        return f"(NumpyFunction {q(sp[1])} true)"
    if k == "ufunc":
        return f"(Ufunc {q(sp[1])} {q(sp[2])})"
    if k == "operator":
        return f"(Operator {q(sp[1])} {'SideL' if sp[2] == 'L' else 'SideR'})"
    raise ValueError(sp)


IMPORTS = "From Coq Require Import String.\nFrom Verif Require Import Dispatch S_dispatch C17Judge.\nOpen Scope string_scope."

AGREE_WHAT = {1: "spellings that the model resolves to the SAME code give different outcomes",
              2: "two code paths return the same content in different array types",
              3: "a spelling reaches an abstract stub (returns None)",
              4: "a namespace function converts its receiver to another format first",
              5: "the spellings raise different exception classes", 6: "spellings reach different code and differ in array type",
              7: "observed outcome kind contradicts the model's resolution", 8: "method spelling is sparse, another spelling is not",
              9: "spelling outside the generated class", 10: "the method/attribute does not exist on this format",
              11: "the wrapper accepts a parameter it does not forward",
              12: "two code paths for the same operation return different CONTENT (values, nnz, stored coordinates)"}
AGREE_CLAUSE = {1: (None, "value"), 2: ("two_algorithm_paths_disagree", "value"),
                3: (None, "value"), 4: (None, "value"),
                5: ("unsupported_op_exception_class_differs", "value"), 6: ("spellings_reach_different_code", "value"),
                7: (None, "representation"), 8: ("result_not_sparse_in_some_spelling", "value"),
                9: (None, "representation"), 10: ("method_missing_on_format", "value"),
                11: (None, "value"), 12: (None, "value")}


def _show_call(sp, ad, kd):
    def sh(d):
        if d[0] in ("sp", "nd", "scipy") and isinstance(d[3] if d[0] == "sp" else d[1], tuple):
            z = "np.zeros(%r, dtype=%r)" % (tuple((d[3] if d[0] == "sp" else d[1])[1]), d[5] if d[0] == "sp" else d[2])
            if d[0] == "nd":
                return z
            if d[0] == "scipy":
                return "scipy.sparse.csr_matrix(%s)" % z
            return {"coo": "sparse.COO.from_numpy(%s)" % z, "dok": "sparse.COO.from_numpy(%s).asformat('dok')" % z,
                    "gcxs": "sparse.GCXS.from_numpy(%s, compressed_axes=%r)" % (z, d[2])}[d[1]]
        if d[0] == "sp":
            arr = "np.array(%r)" % (d[3],) if d[5] == "int64" else "np.array(%r, dtype=%r)" % (d[3], d[5])
            if d[5] == "complex128":
                arr = "(np.array(%r, dtype='float64') * (1+2j))" % (d[3],)
            return {"coo": "sparse.COO.from_numpy(%s, fill_value=%r)" % (arr, d[4]),
                    "dok": "sparse.COO.from_numpy(%s, fill_value=%r).asformat('dok')" % (arr, d[4]),
                    "gcxs": "sparse.GCXS.from_numpy(%s, compressed_axes=%r, fill_value=%r)" % (arr, d[2], d[4])}[d[1]]
        if d[0] == "nd":
            return "np.array(%r)" % (d[1],)
        if d[0] == "scipy":
            return "scipy.sparse.csr_matrix(np.array(%r))" % (d[1],)
        if d[0] == "tuple":
            return repr(tuple(d[1]))
        if d[0] == "dtype":
            return "np.dtype(%r)" % d[1]
        if d[0] == "npscalar":
            return "np.int64(%r)" % d[1]
        if d[0] == "list":
            return "[" + ", ".join(sh(x) for x in d[1]) + "]"
        if d[0] == "outsp":
            return "OUT"
        if d[0] == "ufuncobj":
            return "np." + d[1]
        if d[0] == "expand":
            return "(%s)[(Ellipsis,) + (None,) * %d]" % (sh(d[1]), d[2])
        return repr(d[1])
    a = [sh(x) for x in ad]
    kw = ["%s=%s" % (k, sh(v)) for k, v in kd.items()]
    k = sp[0]
    if k == "method":
        return "(%s).%s(%s)" % (a[0], sp[1], ", ".join(a[1:] + kw))
    if k == "attr":
        return "(%s).%s" % (a[0], sp[1])
    if k == "namespace":
        return "sparse.%s(%s)" % (sp[1], ", ".join(a + kw))
    if k == "array_namespace":
        return "sparse.COO(np.zeros(1)).__array_namespace__().%s(%s)" % (sp[1], ", ".join(a + kw))
    if k == "numpy_function":
        return "np.%s(%s)" % (sp[1], ", ".join(a + kw))
    if k == "ufunc":
        return "np.%s%s(%s)" % (sp[1], "" if sp[2] == "__call__" else "." + sp[2], ", ".join(a + kw))
    if k == "operator":
        return "operator.%s(%s)" % (_OPS[sp[1]], ", ".join(a))
    return "?"


def _replay(calls):
    outs = [v for _sp, _a, kd in calls for v in kd.values() if v[0] == "outsp"]
    pre = ""
    if outs:
        o = outs[0]
        mk = {"coo": "sparse.zeros(%r, dtype=%r)", "dok": "sparse.zeros(%r, dtype=%r).asformat('dok')",
              "gcxs": "sparse.GCXS.from_coo(sparse.zeros(%r, dtype=%r), compressed_axes=" + repr(o[2]) + ")"}[o[1]] % (tuple(o[3]), o[4])
        pre = "_mk=lambda: %s\n" % mk
    if outs:
        body = "\n".join("OUT=_mk(); print(%r, _r(lambda: %s), 'out after call:', OUT.todense().tolist())"
                         % (_show_call(sp, ad, kd)[:60], _show_call(sp, ad, kd)) for sp, ad, kd in calls)
    else:
        body = "; ".join("print(%r, _r(lambda: %s))" % (_show_call(sp, ad, kd)[:60], _show_call(sp, ad, kd)) for sp, ad, kd in calls)
    return ("import numpy as np, sparse, scipy.sparse, operator, warnings; warnings.filterwarnings('ignore'); "
            "nan=float('nan'); inf=float('inf'); "
            "_d=lambda r: (type(r).__name__, 'fill', getattr(r,'fill_value',None), 'nnz', r.nnz, r.todense().tolist()) if hasattr(r,'todense') else r; "
            "\ndef _r(f):\n    try: return _d(f())\n    except Exception as e: return type(e).__name__\n" + pre + body)


# =================================================================== campaign
def _shape_cases(T, wrappers, rng, tier):
    """part 2/3: wrapper keyword subsets vs the method with renamed keywords; NumPy call shapes"""
    PV = {"axis": ("py", 0), "keepdims": ("py", True), "dtype": ("dtype", "float64"), "correction": ("py", 1),
          "ddof": ("py", 1), "decimals": ("py", 1), "copy": ("py", False), "a_min": ("py", 0), "a_max": ("py", 2),
          "min": ("py", 0), "max": ("py", 2), "out": ("py", None), "casting": ("py", "unsafe"), "order": ("py", "C")}
    scases, smeta = [], []
    npsig = dict(T["numpy_sigs"])
    for wn, w in wrappers.items():
        if w["target"][0] != "method":
            continue
        m = w["target"][1]
        for fmt in _formats(tier):
            cls = CLS_OF[fmt[0]]
            a = T["attrs"][cls].get(m)
            msig = a[2] if a and a[0] == "method" else None
            sh = (2, 3)
            x = _sp(rng, fmt, sh, 0, "float64" if wn == "round" else "int64")
            pv = dict(PV)
            pv["shape"] = ("tuple", [2, 2, 3]) if wn == "broadcast_to" else ("tuple", [3, 2])
            pv["axes"] = ("tuple", [1, 0])
            if wn == "squeeze":
                x = _sp(rng, fmt, (1, 3), 0)
            # required extra parameters of the wrapper are passed positionally in every shape
            req = [p for p in w["sig"][1:] if p[2] is None]
            base = [pv.get(p[0], ("py", 1)) for p in req]
            opt = [p[0] for p in w["sig"][1:] if p[2] is not None and p[1] != "PosOnly"]
            subsets = [[]] + [[k] for k in opt] + ([opt] if len(opt) > 1 else [])
            for ks in subsets:
                if any(k not in pv for k in ks):
                    continue
                mk = []
                ok = True
                for k in ks:
                    rk = rename_key(w, k, msig)
                    if rk is None:
                        continue          # documented drop: the method is called without it
                    mk.append((rk, pv[k]))
                wkw = {k: pv[k] for k in ks}
                mkw = dict(mk)
                scases.append({"calls": [(("namespace", wn), [x] + base, wkw), (("method", m), [x] + base, mkw)]})
                smeta.append((cls, wn, len(base), list(ks), [k for k, _ in mk], False, fmt))
            # NumPy's call shapes: second parameter positionally; each NumPy keyword the method also has
            if wn in npsig and msig is not None and not req:
                nps = npsig[wn]
                mnames = [p[0] for p in msig]
                if len(nps) > 1 and nps[1][1] != "KwOnly" and msig and nps[1][0] in pv:
                    v = pv[nps[1][0]]
                    scases.append({"calls": [(("numpy_function", wn), [x, v], {}), (("method", m), [x, v], {})]})
                    smeta.append((cls, wn, 1, [], [], True, fmt))
                for p in nps[1:]:
                    if p[0] in mnames and p[0] in pv and p[0] != "out":
                        scases.append({"calls": [(("numpy_function", wn), [x], {p[0]: pv[p[0]]}),
                                                 (("method", m), [x], {p[0]: pv[p[0]]})]})
                        smeta.append((cls, wn, 0, [p[0]], [p[0]], True, fmt))
    return scases, smeta


NONCOMMUTATIVE = ("subtract", "power", "floor_divide", "divide", "remainder", "greater", "greater_equal", "less",
                  "less_equal", "left_shift", "right_shift", "arctan2", "copysign", "fmod", "ldexp", "logaddexp2")


def _ndim(d):
    x = d[3] if d[0] == "sp" else d[1] if d[0] in ("nd", "scipy") else None
    if isinstance(x, tuple) and x and x[0] == "zeros":
        return len(x[1])
    n = 0
    while isinstance(x, list):
        n += 1
        x = x[0] if x else None
    return n


def _order_cases(T, rng, tier):
    """part 5: ufunc.outer against the broadcasting spellings (call, operator, namespace) and NumPy; reflected
    calls and ufunc.reduce of non-commutative ufuncs against NumPy"""
    nptab = dict(T["numpy"])
    nsd = dict(T["namespace"])
    ns_of = {e[1]: n for n, e in T["namespace"] if e[0] == "ufunc"}
    stem_of = {u: st for st, u in _operator_spec().items()}
    binary = sorted({k[1] for n, k in T["numpy"] if k[0] == "ufunc" and not k[2] and k[3] == 2 and k[4] == 1
                     and "." not in n and n == k[1]})
    ocases, ometa = [], []
    for u in binary:
        nonc = u in NONCOMMUTATIVE
        if tier == "quick" and not nonc and u not in ("add", "multiply", "maximum"):
            continue
        small = u in ("power", "left_shift", "right_shift", "ldexp")
        lo, hi = (0, 3) if small else (-3, 4)
        dt = "float64" if u in ("arctan2", "copysign", "logaddexp", "logaddexp2", "hypot", "nextafter", "fmax", "fmin",
                                "float_power", "heaviside") else "int64"
        for fmt in _formats(tier):
            cls = CLS_OF[fmt[0]]

            def spell(args):
                calls = [(("ufunc", u, "__call__"), args, {})]
                st = stem_of.get(u)
                if st is not None and any(a[0] in ("sp", "expand") and (a[0] == "sp" or a[1][0] == "sp") for a in args):
                    a_sp = args[0][0] == "sp" or (args[0][0] == "expand" and args[0][1][0] == "sp")
                    if a_sp or st not in ("lt", "le", "gt", "ge", "eq", "ne"):
                        calls.append((("operator", st, "L" if a_sp else "R"), args, {}))
                if u in ns_of:
                    calls.append((("namespace", ns_of[u]), args, {}))
                return calls
            x1 = _sp(rng, fmt, (3,), 0, dt, lo, hi)
            y1 = _sp(rng, fmt, (2,), 0, dt, lo, hi)
            x2 = _sp(rng, fmt, (2, 3), 0, dt, lo, hi)
            nd1 = ("nd", _rand_dense(rng, (2,), 0, lo, hi), dt)
            pairs = [(x1, y1, "sparse_sparse"), (x2, y1, "sparse2d_sparse"), (x1, nd1, "sparse_ndarray"),
                     (nd1, x1, "ndarray_sparse")]
            if tier != "quick":
                pairs.append((x1, _sp(rng, fmt, (3,), 2, dt, lo, hi), "sparse_sparse_fill2"))
            for a, b, tag in pairs:
                if tier == "quick" and tag == "sparse2d_sparse" and not nonc:
                    continue
                ae = ("expand", a, _ndim(b))
                calls = [(("ufunc", u, "outer"), [a, b], {})] + spell([ae, b])
                ocases.append({"calls": calls, "ref": (u, "outer", [a, b], {})})
                ometa.append((cls, u, "outer", tag, fmt))
            if nonc:
                # reflected / mixed plain calls against NumPy
                for a, b, tag in [(("py", 2), x2, "scalar_sparse"), (x2, ("py", 2), "sparse_scalar"),
                                  (("nd", _rand_dense(rng, (2, 3), 0, lo, hi), dt), x2, "ndarray_sparse"),
                                  (x2, ("nd", _rand_dense(rng, (2, 3), 0, lo, hi), dt), "sparse_ndarray"),
                                  (x2, _sp(rng, fmt, (2, 3), 0, dt, lo, hi), "sparse_sparse")]:
                    ocases.append({"calls": spell([a, b]), "ref": (u, "__call__", [a, b], {})})
                    ometa.append((cls, u, "__call__", tag, fmt))
                # ufunc.reduce against the method spelling x.reduce(np.u, axis=...) and NumPy
                for ax in (0, 1):
                    calls = [(("ufunc", u, "reduce"), [x2], {"axis": ("py", ax)}),
                             (("method", "reduce"), [x2, ("ufuncobj", u)], {"axis": ("py", ax)})]
                    ocases.append({"calls": calls, "ref": (u, "reduce", [x2], {"axis": ("py", ax)})})
                    ometa.append((cls, u, "reduce", "axis%d" % ax, fmt))
    return ocases, ometa


def _product_cases(T, rng, tier):
    """products (matmul, dot, tensordot, kron, outer): every spelling against each other AND against NumPy on the dense
    operands (shape, dtype, values), with operands of unequal rank, all-1 batch extents and zero-length extents"""
    nsnames = {n for n, e in T["namespace"]}
    pc, pm = [], []

    def dn(shape):
        return ("nd", _rand_dense(rng, shape, 0), "int64")
    MAT = [((3, 4, 5), (1, 1, 5, 6), "a3_b4_unit_batch"), ((1, 1, 3, 4), (4, 2), "a4_unit_batch_b2"),
           ((2, 1, 3, 4), (1, 2, 4, 2), "batch_broadcast"), ((2, 3, 4), (1, 4, 2), "b_unit_batch_same_rank"),
           ((2, 3), (3,), "matrix_vector"), ((3,), (3, 2), "vector_matrix"), ((2, 2, 3), (3,), "stack_vector"),
           ((2, 0), (0, 3), "zero_inner"), ((0, 3), (3, 2), "zero_rows"), ((2, 3, 0), (2, 0, 4), "batched_zero_inner")]
    DOT = [((2, 3), (3, 2), "2d_2d"), ((2, 3), (3,), "2d_1d"), ((2, 3, 4), (4,), "3d_1d"), ((3,), (3,), "1d_1d"),
           ((2, 3, 4), (2, 4, 3), "3d_3d"), ((1, 1, 3, 4), (4, 2), "unit_batch"), ((2, 0), (0, 3), "zero_inner")]
    TD = [((2, 3, 4), (4, 2), 1, "axes1"), ((2, 3, 4), (3, 4, 5), 2, "axes2"), ((2, 3), (4,), 0, "axes0_unequal_rank"),
          ((1, 1, 3), (3, 1), 1, "unit_extents"), ((2, 0), (0, 3), 1, "zero_inner")]
    KR = [((2, 3), (3, 2), "2d_2d"), ((2,), (2, 3), "1d_2d"), ((1, 1, 2), (2, 2), "3d_unit_2d"), ((2, 0), (3, 2), "zero_extent")]
    OUT = [((3,), (2,), "1d_1d"), ((2, 3), (2,), "2d_1d"), ((1, 3), (1, 1, 2), "unit_extents")]
    for fmt in _formats(tier):
        cls = CLS_OF[fmt[0]]

        def add(label, tag, calls, ref):
            pc.append({"calls": calls, "ref": ref})
            pm.append((cls, label, "product", tag, fmt))

        def positions(sa, sb):
            a, b = _sp(rng, fmt, sa, 0), _sp(rng, fmt, sb, 0)
            return [(a, b, "sparse_sparse"), (a, dn(sb), "sparse_ndarray"), (dn(sa), b, "ndarray_sparse")]
        for sa, sb, tag in MAT:
            for a, b, pos in positions(sa, sb):
                if tier == "quick" and pos != "sparse_sparse" and "zero" in tag:
                    continue
                calls = [(("ufunc", "matmul", "__call__"), [a, b], {}), (("namespace", "matmul"), [a, b], {}),
                         (("operator", "matmul", "L" if a[0] == "sp" else "R"), [a, b], {})]
                add("matmul", tag + "/" + pos, calls, ("matmul", "__call__", [a, b], {}))
        for sa, sb, tag in DOT:
            for a, b, pos in positions(sa, sb):
                if pos != "sparse_sparse" and "zero" in tag:
                    continue          # sparse.dot(sparse, ndarray with a zero extent) is C18's subject (watchdog)
                calls = [(("numpy_function", "dot"), [a, b], {}), (("namespace", "dot"), [a, b], {})]
                if a[0] == "sp" and fmt[0] != "dok":      # DOK has no .dot (part 1 reports that under its own clause)
                    calls.append((("method", "dot"), [a, b], {}))
                add("dot", tag + "/" + pos, calls, ("dot", "__call__", [a, b], {}))
        for sa, sb, ax, tag in TD:
            for a, b, pos in positions(sa, sb):
                if pos != "sparse_sparse" and "zero" in tag:
                    continue
                kw = {"axes": ("py", ax)}
                calls = [(("numpy_function", "tensordot"), [a, b], kw), (("namespace", "tensordot"), [a, b], kw)]
                add("tensordot", tag + "/" + pos, calls, ("tensordot", "__call__", [a, b], kw))
        for sa, sb, tag in KR:
            a, b = _sp(rng, fmt, sa, 0), _sp(rng, fmt, sb, 0)
            calls = [(("numpy_function", "kron"), [a, b], {}), (("namespace", "kron"), [a, b], {})]
            add("kron", tag + "/sparse_sparse", calls, ("kron", "__call__", [a, b], {}))
        for sa, sb, tag in OUT:
            a, b = _sp(rng, fmt, sa, 0), _sp(rng, fmt, sb, 0)
            calls = [(("numpy_function", "outer"), [a, b], {}), (("namespace", "outer"), [a, b], {})]
            add("outer", tag + "/sparse_sparse", calls, ("outer", "__call__", [a, b], {}))
    return pc, pm


def _operator_spec():
    return {"lt": "less", "le": "less_equal", "eq": "equal", "ne": "not_equal", "gt": "greater", "ge": "greater_equal",
            "add": "add", "sub": "subtract", "mul": "multiply", "truediv": "divide", "floordiv": "floor_divide",
            "mod": "remainder", "pow": "power", "lshift": "left_shift", "rshift": "right_shift",
            "and": "bitwise_and", "xor": "bitwise_xor", "or": "bitwise_or"}


SUBNS_SAMPLED = ("fft.", "ma.", "char.")


def _subns_args(rng, fmt):
    """operands on which the sub-namespace function and the top-level function of the same name DIFFER"""
    ca = fmt[1]
    if ca is not None and (max(ca) >= 2 or len(ca) >= 2):
        ca = None          # GCXS cannot compress all axes of a 2-d array (same rule as _sp)
    neg = ("sp", fmt[0], ca, [[-4.0, 0.0, 9.0], [0.0, -1.0, 0.0]], 0, "float64")
    x23, y23 = _sp(rng, fmt, (2, 3), 0, "float64"), _sp(rng, fmt, (2, 3), 0, "float64")
    # explicit values: every lane has overlapping non-zeros, so a wrong conjugation changes the result
    xc23 = ("sp", fmt[0], ca, [[1.0, 2.0, 0.0], [0.0, -3.0, 4.0]], 0, "complex128")
    yc23 = ("sp", fmt[0], ca, [[2.0, 0.0, 1.0], [5.0, 1.0, -2.0]], 0, "complex128")
    x23 = ("sp", fmt[0], ca, [[3.0, 1.0, 0.0], [0.0, 2.0, 5.0]], 0, "float64")
    return {
        "linalg.diagonal": [[_sp(rng, fmt, (2, 2, 3), 0, "float64")], [_sp(rng, fmt, (3, 3, 2), 0, "float64")]],
        "linalg.outer": [[x23, y23]],                                   # NumPy demands 1-d operands
        "linalg.matmul": [[x23, _sp(rng, fmt, (3, 2), 0, "float64")]],
        "linalg.vecdot": [[x23, y23], [xc23, x23], [x23, xc23], [xc23, yc23]],
        # complex operands against NumPy on the dense operands: conjugation of the FIRST operand only (seeded C17-m6)
        "vecdot": [[xc23, x23], [x23, xc23], [xc23, yc23]],
        "linalg.matrix_transpose": [[x23]],
        "linalg.trace": [[_sp(rng, fmt, (3, 3), 0, "float64")]],
        "linalg.cross": [[x23, y23]],
        "linalg.norm": [[_sp(rng, fmt, (3, 3), 0, "float64")]],
        "linalg.cholesky": [[_sp(rng, fmt, (3, 3), 0, "float64")]],
        "emath.sqrt": [[neg]], "emath.log": [[neg]], "emath.power": [[neg, ("py", 0.5)]],
        "fft.fft": [[_sp(rng, fmt, (4,), 0, "float64")]],
    }


def _sweep_cases(T, rng, tier):
    """part 4: every public NumPy function/ufunc (sub-namespaces linalg, fft, emath, ma, char included) on 1..3 sparse
    arguments; for the sub-namespace functions that have a same-named top-level function additionally the operands
    on which the two differ, compared with NumPy on the dense operands"""
    nptab = T["numpy"]
    nsnames = {n for n, e in T["namespace"]}
    wcases, wmeta = [], []
    names = [n for n, k in nptab if k[0] in ("function", "ufunc", "nodispatch")]
    kind_of = dict(nptab)
    fmts = _formats(tier) if tier != "quick" else [("coo", None), ("gcxs", (1,)), ("dok", None)]
    for n in names:
        k = kind_of[n]
        sampled_out = tier == "quick" and n.startswith(SUBNS_SAMPLED) and rng.random() >= 0.25
        for fmt in fmts:
            reach = k[0] == "ufunc" or (k[0] == "function" and (k[1] in nsnames or k[1] in T["attrs"][CLS_OF[fmt[0]]]))
            if sampled_out and not (k[0] == "function" and k[1] in nsnames):
                continue
            od = _sp(rng, fmt, (3, 3), 0, "float64")
            for nargs in (1, 2, 3):
                if tier == "quick" and fmt[0] != "coo":
                    # quick tier: the other formats get one argument, and only the names that can reach
                    # format-specific code (namespace / type attribute) plus a seeded 15% sample of the rest
                    if nargs > 1 or not (reach or rng.random() < 0.15):
                        continue
                if k[0] == "ufunc" and nargs > k[3]:
                    continue          # further positionals of a ufunc are `out` arguments
                wcases.append((n, [od] * nargs, False))
                wmeta.append((CLS_OF[fmt[0]], n, nargs, fmt))
    for fmt in fmts:
        for n, arglists in _subns_args(rng, fmt).items():
            if n not in kind_of:
                continue
            for ads in arglists:
                wcases.append((n, ads, True))
                wmeta.append((CLS_OF[fmt[0]], n, len(ads), fmt))
    return wcases, wmeta


def campaign(build, tier, seed, report, budget=1):
    rng = random.Random(seed)
    sg, T, table_err = _tables()
    viol = []
    cov = report["coverage"]
    tags = {}
    if table_err:
        report["notes"].append("dispatch tables could not be extracted from this tree (" + table_err[:200] +
                               "); the campaign ran with the committed reference tables")
    notes = report["notes"]
    wrappers = {e[1]["name"]: e[1] for _n, e in T["namespace"] if e[0] == "wrapper"}
    nptab = T["numpy"]
    reps = (1 if tier == "quick" else 3) * budget

    # ---------------------------------------------------------------- part 1
    cases, meta = [], []
    for label, sps in T["op_classes"]:
        # the wrapper (if any) whose renames apply to the method spelling of this class
        wrapper_of = {}
        for s in sps:
            if s[0] == "namespace" and s[1] in wrappers and wrappers[s[1]]["target"][0] == "method":
                wrapper_of[wrappers[s[1]]["target"][1]] = wrappers[s[1]]
        fmts = _formats(tier)
        is_binary_ufunc = any(s[0] == "operator" and s[1] not in ("neg", "pos", "abs", "invert", "matmul") for s in sps) \
            or (any(s[0] == "ufunc" and s[2] == "__call__" and dict(nptab).get(s[1], (0, 0, 0, 1))[3] == 2 for s in sps)
                and label not in ("matmul", "vecdot"))
        for fi, fmt in enumerate(fmts):
            for _rep in range(reps):
                for args, kwargs, tag in templates(label, sps, nptab, rng, fmt, tier):
                    if tier == "quick" and (is_binary_ufunc or tag in ("unary_1d", "unary_float")) and tag != "sparse_sparse" \
                            and sum(map(ord, label + tag)) % len(fmts) != fi:
                        continue          # quick tier: every operand position once per operation, formats rotated
                    calls = []
                    for s in sps:
                        ap = applicable(s, args, kwargs, wrapper_of)
                        if ap is not None:
                            calls.append((s, ap[0], ap[1]))
                    if len(calls) < 2:
                        continue
                    cases.append({"calls": calls})
                    unary = len(args) == 1 and not kwargs
                    meta.append((label, fmt, tag, unary, calls))
    import time
    timing = {}
    scases, smeta = _shape_cases(T, wrappers, rng, tier)
    wcases, wmeta = _sweep_cases(T, rng, tier)
    ocases, ometa = _order_cases(T, rng, tier)
    pcases, pmeta = _product_cases(T, rng, tier)
    ocases, ometa = ocases + pcases, ometa + pmeta
    t0 = time.time()
    keys = [("a", m[0]) for m in meta] + [("s", m[1]) for m in smeta] + [("w", i // 40) for i in range(len(wcases))] + \
        [("o", m[1], m[4][0]) for m in ometa]
    allres, nb, nredo = run_bundled([("agree", c) for c in cases] + [("agree", c) for c in scases] +
                                    [("sweep", c) for c in wcases] + [("order", c) for c in ocases], keys, WORKERS, 90.0)
    timing["impl"] = round(time.time() - t0, 1)
    timing["bundles"] = nb
    timing["cases_rerun_individually"] = nredo
    res = allres[:len(cases)]
    sres = allres[len(cases):len(cases) + len(scases)]
    wres = allres[len(cases) + len(scases):len(cases) + len(scases) + len(wcases)]
    ores = allres[len(cases) + len(scases) + len(wcases):]
    lits = []
    for (label, fmt, tag, unary, calls), r in zip(meta, res, strict=True):
        outs = r.get("out") if isinstance(r, dict) else None
        if outs is None:
            kind = "hang" if r.get("hang") else "otherexc"
            outs = [(kind, "harness:" + json.dumps(r)[:80])] * len(calls)
            r["out"] = outs
        ids, cids = {}, {}
        obs = []
        for (sp, _a, _k), (kind, can) in zip(calls, outs, strict=True):
            i = ids.setdefault(can, len(ids))
            j = cids.setdefault(content_of(can), len(cids))
            obs.append(vpair(cspell(sp), vpair(vZ(i), vZ(j)), vZ(K.get(kind, 19))))
        lits.append(vpair(q(CLS_OF[fmt[0]]), q(label), vbool(unary), "[" + "; ".join(obs) + "]"))
        t = f"{CLS_OF[fmt[0]]}/{'agree' if len(ids) == 1 else 'type_differs' if len(cids) == 1 else 'differ'}/{tag.split('_')[0]}"
        tags[t] = tags.get(t, 0) + 1
    t0 = time.time()
    bad = build.judge("c17_agree", IMPORTS, "agree_case", "judge_agree", lits)
    timing["agree_coq"] = round(time.time() - t0, 1)
    for i, code in bad:
        label, fmt, tag, unary, calls = meta[i]
        clause, kind = AGREE_CLAUSE[code]
        outs = res[i]["out"]
        viol.append({"property": "C17", "op": label, "kind": kind, "clause": clause, "format": CLS_OF[fmt[0]],
                     "judge_code": code, "variant": tag, "what": AGREE_WHAT.get(code, ""),
                     "case": {"format": fmt, "calls": [(_show_call(*c)) for c in calls]},
                     "impl": [(o[0], o[1][:160]) for o in outs],
                     "replay_py": _replay(calls)})
    n_agree = len(cases)
    distinct_agree = len({(m[0], m[1], m[2]) for m in meta})

    # ---------------------------------------------------------------- part 2 + 3: call shapes of the wrappers
    slits = []
    for (cls, wn, npos, ks, mks, via_np, fmt), r in zip(smeta, sres, strict=True):
        outs = r.get("out") or [("hang", "h1"), ("hang", "h2")]
        r["out"] = outs
        same = outs[0][1] == outs[1][1]
        slits.append(vpair(q(cls), q(wn), vZ(npos), vlist(ks, q), vlist(mks, q), vbool(same),
                           vZ(K.get(outs[0][0], 19)), vZ(K.get(outs[1][0], 19)), vbool(via_np)))
        t = f"shape/{'np' if via_np else 'ns'}/{'same' if same else 'differ'}"
        tags[t] = tags.get(t, 0) + 1
    sbad = build.judge("c17_shape", IMPORTS, "shape_case", "judge_shape", slits)
    SH = {1: (None, "representation"), 2: (None, "representation"), 3: (None, "value"),
          5: ("np_positional_argument_rejected_by_keyword_only_wrapper", "value"),
          6: ("np_keyword_unknown_to_wrapper", "value"), 9: (None, "representation")}
    for i, code in sbad:
        cls, wn, npos, ks, mks, via_np, fmt = smeta[i]
        clause, kind = SH[code]
        viol.append({"property": "C17", "op": wn, "kind": kind, "clause": clause, "format": cls, "judge_code": code,
                     "variant": "np_call_shape" if via_np else "wrapper_keywords",
                     "case": {"format": fmt, "calls": [_show_call(*c) for c in scases[i]["calls"]]},
                     "impl": [(o[0], o[1][:160]) for o in sres[i]["out"]],
                     "replay_py": _replay(scases[i]["calls"])})

    # ---------------------------------------------------------------- part 4: sweep over NumPy's public callables
    wlits = []
    kinds_hist = {}
    for (cls, n, nargs, fmt), r in zip(wmeta, wres, strict=True):
        kind = r.get("kind") or ("hang" if r.get("hang") else "otherexc")
        r["kind"] = kind
        kinds_hist[kind] = kinds_hist.get(kind, 0) + 1
        wlits.append(vpair(q(cls), q(n), vbool(nargs == 1), vZ(K.get(kind, 19)), vbool(r.get("np_ok", True))))
    wbad = build.judge("c17_sweep", IMPORTS, "sweep_case", "judge_sweep", wlits)
    SW = {1: (None, "value"), 2: ("numpy_function_silently_densifies", "value"), 3: (None, "representation"),
          4: (None, "value")}
    SWW = {1: "the dispatch rule says this NumPy function is NOT implemented (absent from the sparse namespace under the "
              "same sub-module path and from the type) but the call did not raise TypeError: another function answered",
           2: "silently densified", 3: "NumPy found no implementation although the model resolves the name",
           4: "the result differs from NumPy's on the densified operands"}
    for i, code in wbad:
        cls, n, nargs, fmt = wmeta[i]
        clause, kind = SW[code]
        call = _show_call(("numpy_function", n), wcases[i][1], {})
        dcall = call.replace("sparse.COO.from_numpy(", "(").replace("sparse.GCXS.from_numpy(", "(")
        viol.append({"property": "C17", "op": "np." + n, "kind": kind, "clause": clause, "format": cls, "judge_code": code,
                     "variant": f"sweep_{nargs}_args", "what": SWW.get(code, ""),
                     "case": {"name": n, "nargs": nargs, "format": fmt, "call": call},
                     "impl": wres[i],
                     "replay_py": "import numpy as np, sparse\ntry:\n    r = %s; print(type(r).__name__, r.todense() if hasattr(r, 'todense') else r)"
                                  "\nexcept Exception as e: print('raises', type(e).__name__)" % call})
    for kk, vv in sorted(kinds_hist.items()):
        tags["sweep/" + kk] = vv
    # python results of the sweep that are plain ndarrays without densification (index/value arrays by design)
    nd_by_design = sorted({wmeta[i][1] for i, r in enumerate(wres) if r.get("kind") == "ndarray"})
    if nd_by_design:
        notes.append("numpy functions returning an ndarray WITHOUT calling todense/maybe_densify (index or value "
                     "arrays by design): " + ", ".join(nd_by_design))
    hangs = sorted({(wmeta[i][1], wmeta[i][2]) for i, r in enumerate(wres) if r.get("kind") == "hang"})
    if hangs:
        notes.append("sweep calls killed by the watchdog: " + ", ".join(f"{a}/{b}" for a, b in hangs))

    # ---------------------------------------------------------------- part 5: operand order (outer / reflected / reduce)
    olits = []
    for (cls, u, m, tag, fmt), r, c in zip(ometa, ores, ocases, strict=True):
        outs = r.get("out") if isinstance(r, dict) else None
        if outs is None:
            outs = [("hang" if r.get("hang") else "otherexc", "harness:" + json.dumps(r)[:80])] * len(c["calls"])
            r["out"], r["np_ok"] = outs, [True] * len(outs)
        ids = {}
        obs = []
        for (kind, can), good in zip(outs, r["np_ok"], strict=True):
            i = ids.setdefault(can, len(ids))
            obs.append(vpair(vZ(i), vZ(K.get(kind, 19)), vbool(good)))
        olits.append(vpair(q(cls), q(u), q(m), "[" + "; ".join(obs) + "]"))
        t = f"order/{m}/{'agree' if len(ids) == 1 else 'differ'}/{'np_ok' if all(r['np_ok']) else 'np_differs'}"
        tags[t] = tags.get(t, 0) + 1
    obad = build.judge("c17_order", IMPORTS, "order_case", "judge_order", olits)
    red_np = [(ometa[i][0], ometa[i][1], _show_call(*ocases[i]["calls"][0])) for i, r in enumerate(ores)
              if ometa[i][2] == "reduce" and not all(r["np_ok"])]
    if red_np:
        notes.append("outside C17 (value of a reduction, C03): %d ufunc.reduce cases of non-associative ufuncs agree between "
                     "np.u.reduce(x) and x.reduce(np.u) but differ from NumPy on the densified operand, e.g. %s"
                     % (len(red_np), red_np[0][2][:200]))
    OC = {1: ("ufunc_{m}_disagrees_with_broadcasting_spelling", "value"), 2: ("ufunc_{m}_differs_from_numpy", "value"),
          7: (None, "representation")}
    for i, code in obad:
        cls, u, m, tag, fmt = ometa[i]
        clause, kind = OC[code]
        if m == "product":
            clause = None          # spellings of a product disagree (1) / agree but differ from NumPy on the dense operands (2)
        viol.append({"property": "C17", "op": u + "." + m, "kind": kind,
                     "clause": None if clause is None else clause.format(m=m.strip("_")), "format": cls,
                     "judge_code": code, "variant": tag,
                     "what": {1: "the spellings disagree", 2: "the spellings agree with each other but not with NumPy on the "
                              "densified operands (shape, dtype or values)", 7: "outcome kind contradicts the model"}.get(code, ""),
                     "case": {"format": fmt, "calls": [_show_call(*c) for c in ocases[i]["calls"]]},
                     "impl": [(o[0], o[1][:160], g) for o, g in zip(ores[i]["out"], ores[i]["np_ok"], strict=True)],
                     "replay_py": _replay(ocases[i]["calls"])})

    cov["evaluations"] = n_agree + len(scases) + len(wcases) + len(ocases)
    cov["distinct_nontrivial"] = distinct_agree + len({(m[0], m[1], m[2], tuple(m[3]), m[5]) for m in smeta}) + \
        len({(m[0], m[1], m[2]) for m in wmeta}) + len({(m[0], m[1], m[2], m[3]) for m in ometa})
    cov["rule"] = ("part 1: every generated operation class (>1 spelling) x formats x argument templates incl. operand "
                   "positions, all applicable spellings per case; part 2/3: every method-targeting wrapper x keyword "
                   "subsets and NumPy call shapes; part 4: every numpy.__all__ (+linalg, fft in the thorough tier) "
                   "function/ufunc x 1..3 sparse arguments x formats; part 5: binary ufuncs (every non-commutative one) x formats x "
                   "operand positions: ufunc.outer vs the broadcasting call/operator/namespace spellings, reflected calls, "
                   "ufunc.reduce vs x.reduce, each against NumPy on the densified operands; distinct = distinct (operation, format, template) "
                   "/ (class, wrapper, shape) / (class, name, arity)")
    cov["parts"] = {"order_cases": len(ocases), "agree_cases": n_agree, "op_classes": len(T["op_classes"]), "shape_cases": len(scases),
                    "sweep_cases": len(wcases), "spelling_calls": sum(len(c["calls"]) for c in cases)}
    cov["timing_s"] = timing
    cov["differential_only"] = ["two-algorithm operations (COO/GCXS isnan, isinf, mT vs matrix_transpose): agreement "
                                "observed, not proved", "NumPy protocol dispatch order", "dtype/float results of leaves"]
    cov["samples"] = [dict(case=[_show_call(*c) for c in cases[i]["calls"]], impl=[o[0] for o in res[i]["out"]])
                      for i in (0, len(cases) // 2, len(cases) - 1)] if cases else []
    cov["branch_tags"] = dict(sorted(tags.items()))
    return viol


def replay(path):
    v = json.load(open(path))
    print(json.dumps({k: v[k] for k in v if k != "replay_py"}, indent=1)[:3000])
    if "replay_py" in v:
        import subprocess
        p = subprocess.run([vlib.PY, "-c", v["replay_py"]], env=vlib.env_clean(), capture_output=True, text=True)
        print("\n".join(l for l in p.stdout.splitlines() if "conda" not in l), p.stderr[-800:])
    return 0
