"""C10 — searching, sorting and set functions agree with NumPy.

Campaign:
  * kernel level: the jitted `_sort_coo` and `_compute_minmax_args` are called on raw arrays and their
    exact output is compared (inside Coq) with Model/SortSearch.v `sort_coo` / `minmax_args`;
  * API level: sparse.sort / argmax / argmin / unique_values / unique_counts / nonzero / argwhere /
    where(cond) on COO (GCXS and DOK where the function accepts them); the raw result is compared
    inside Coq with the model's exact representation AND with the NumPy meaning (Spec/NpSort.v) of
    the operation on the densified input.  Where they differ the failed domain clause is reported.
Integer data only: NaN ordering and complex values are not modelled."""
import itertools
import json
import random
import time

import vlib
from vlib import vZ, vbool, vlist, vopt, vpair

LEVEL = "proof"
TRUSTED_BASE = [
    "Coq 8.16.1 kernel + vm_compute (case evaluation and the concrete _refuted witnesses); no native_compute",
    "axioms: none (Print Assumptions: Closed under the global context for every C10 theorem)",
    "Model/SortSearch.v is a hand transcription of _sort_coo, sort, _compute_minmax_args, _arg_minmax_common, "
    "unique_values, unique_counts, COO.nonzero, argwhere, where(cond); it is tied to the source (a) by "
    "tools/sitegen/sortsearch.py, which regenerates the normalised text of every line of these functions into "
    "Gen/S_sortsearch.v on every run, Props/C10.v proving it equal to the pinned text of Model/SortSearchSrc.v "
    "(any edit of these functions breaks the theorems kernel_sources_pinned / wrapper_sources_pinned), and (b) by the "
    "correspondence run of this file (kernel level on the compiled kernels, API level on every public function)",
    "Spec/NpSort.v as a description of numpy.sort/argmax/argmin/unique_values/unique_counts/nonzero/argwhere "
    "(and of the Array-API `descending` flag), cross-checked against NumPy on every generated case",
    "wrapper-level equality model = NumPy meaning is PROVED for sort (any ndim >= 1, any valid axis: sort_nd) and for "
    "argmax/argmin (any ndim >= 2 with an axis: argminmax_nd; 1-d: argminmax_1d; axis=None: argminmax_axis_none; "
    "empty reduced axis rejected: argminmax_empty_rejected), stated pointwise on index tuples (den); the plumbing steps "
    "use agent-c08's generic remapping theorems of Proofs/ShapeOpsL.v (imported read-only)",
    "Spec-as-proved = Spec-as-judged: sort_dense and argminmax_dense state res_dense (wrapper) = np_sort_axis / "
    "np_argbest_axis (todense x) for the very functions of Spec/NpSort.v that Corr/C10Judge.v evaluates (every axis "
    "argument, errors included), using agent-c19's Proofs/ShapeNth.v",
    "argwhere(sort(x, axis, descending)) is run as an order-dependent observer of the raw sort result, and every sparse "
    "result must be in canonical form (sarr_wfb), so a sort that returns unsorted coordinates with sorted=True yields "
    "a concrete failing input",
    "correspondence harness tools/props/c10.py, tools/vlib.py, Corr/C10Judge.v, Corr/SArr.v",
]
ASSUMPTIONS = [
    "integer element values (int64); NaN ordering, complex data and dtype promotion are not modelled",
    "np.sort/np.argsort on the short integer arrays involved are deterministic (ties between equal integers are "
    "indistinguishable in the values; np.argsort in unique_counts only sees distinct values)",
    "nonzero/argwhere/where(cond) on an array with a non-zero fill value raise ValueError by design "
    "(check_zero_fill_value); the Spec used by the judge expects exactly this rejection",
    "GCXS/DOK operands are converted by asformat(COO); that conversion is property C05's subject",
]

IMPORTS = "From Verif Require Import Py Shape COO GCXS SArr NpSort SortSearch C10Judge."
IDX_DTYPES = ["uint8", "uint16", "uint32", "uint64", "int8", "int16", "int32"]
VALUES = list(range(-3, 6))
FILLS = [-4, 0, 2, 6]
CLAUSES = {}      # no domain clause is left (the unpruned-input findings were repaired in round 7)


# ------------------------------------------------------------------ implementation side (workers)
def impl_sortk(case):
    import numpy as np
    from sparse.numba_backend._coo.common import _sort_coo
    gc, sc, data, fill, ln, desc = case
    coords = np.array([gc, sc], dtype=np.intp).reshape(2, len(gc))
    nc, nd = _sort_coo(coords, np.array(data, dtype=np.int64), np.int64(fill), int(ln), bool(desc))
    return {"gc": [int(v) for v in nc[0]], "ri": [int(v) for v in nc[1]], "data": [int(v) for v in nd]}


def impl_minmaxk(case):
    import numpy as np
    from sparse.numba_backend._coo.common import _compute_minmax_args
    rc, ic, data, rsize, fill, maxm = case[:6]
    coords = np.array([rc, ic], dtype=np.dtype(case[6]) if len(case) > 6 else np.intp).reshape(2, len(rc))
    ri, rd = _compute_minmax_args(coords, np.array(data, dtype=np.int64), int(rsize), np.int64(fill), bool(maxm))
    return {"ri": [int(v) for v in ri], "rd": [int(v) for v in rd]}


def _run_op(sparse, np, x, op):
    name = op[0]
    if name == "sort":
        return vlib.plain(sparse.sort(x, axis=op[1], descending=op[2]))
    if name == "arg":
        f = sparse.argmax if op[1] else sparse.argmin
        return vlib.plain(f(x, axis=op[2], keepdims=op[3]))
    if name == "T":
        return vlib.plain(x.T)
    if name == "unique_values":
        r = sparse.unique_values(x)
        return {"k": "list", "l": [vlib.val_token(v) for v in np.asarray(r).reshape(-1)]}
    if name == "unique_counts":
        r = sparse.unique_counts(x)
        return {"k": "pair", "a": [vlib.val_token(v) for v in r.values], "b": [vlib.val_token(v) for v in r.counts]}
    if name == "nonzero":
        r = sparse.nonzero(x)
        return {"k": "cols", "cols": [[int(v) for v in c] for c in r]}
    if name == "where":
        r = sparse.where(x)
        return {"k": "cols", "cols": [[int(v) for v in c] for c in r]}
    if name in ("argwhere", "sort_argwhere"):
        if name == "sort_argwhere":
            x = sparse.sort(x, axis=op[1], descending=op[2])
        r = np.asarray(sparse.argwhere(x))
        return {"k": "idx", "rows": [[int(v) for v in row] for row in r.reshape(-1, x.ndim)] if r.ndim == 2 else None,
                "shape": list(r.shape)}
    raise ValueError(name)


def impl_api(case):
    """case = (array spec, [op, ...]) -> one plain result per op.  With spec["cache"] the ops run, in order,
    on ONE cache-enabled operand (a history); otherwise every op gets a fresh operand."""
    import numpy as np
    import sparse
    spec, ops = case
    out = []
    shared = None
    if spec.get("cache"):
        shared = vlib.build_array(spec, idx_dtype=spec.get("idx_dtype"))
        shared.enable_caching()
    for op in ops:
        try:
            x = shared if shared is not None else vlib.build_array(spec, idx_dtype=spec.get("idx_dtype"))
            out.append(_run_op(sparse, np, x, op))
        except Exception as ex:  # noqa: BLE001
            out.append(vlib.plain(ex))
    return out


def impl_api_multi(cases):
    """several (spec, ops) batches in one worker call: all arrays of one index dtype, so that the kernels are
    compiled for that dtype once, not once per worker"""
    return [impl_api(c) for c in cases]


def impl_any(case):
    kind, c = case
    return {"api": impl_api, "api_multi": impl_api_multi, "sortk": impl_sortk, "minmaxk": impl_minmaxk}[kind](c)


# ------------------------------------------------------------------ generators
def gen_sortk(rng, n):
    cases = []
    for _ in range(n):
        L = rng.choice([1, 2, 3, 4, 5])
        R = rng.choice([1, 2, 3, 4])
        fill = rng.choice(FILLS + [rng.choice(VALUES)])
        pool = rng.sample(VALUES + ([fill] if rng.random() < 0.3 else []), rng.choice([1, 2, 3, 5]))
        gc, sc, data = [], [], []
        for r in range(R):
            kind = rng.choice(["empty", "partial", "partial", "full"])
            pos = [] if kind == "empty" else list(range(L)) if kind == "full" else [j for j in range(L) if rng.random() < 0.5]
            for j in pos:
                gc.append(r)
                sc.append(j)
                data.append(rng.choice(pool))
        if rng.random() < 0.1 and len(gc) >= 3:          # runs of a repeated group (never produced by COO, kernel only)
            gc = [g % 2 for g in gc]
        cases.append((gc, sc, data, fill, L, rng.random() < 0.5))
    cases.append(([], [], [], 0, 3, False))
    cases.append(([0, 0, 0], [0, 1, 2], [2, 2, 2], 2, 3, True))
    return cases


def gen_minmaxk(rng, n):
    cases = []
    for _ in range(n):
        N = rng.choice([1, 2, 3, 4, 5])
        M = rng.choice([1, 2, 3, 4])
        fill = rng.choice(FILLS + [rng.choice(VALUES)])
        pool = rng.sample(VALUES + ([fill] if rng.random() < 0.3 else []), rng.choice([1, 2, 3, 5]))
        ent = []
        for k in range(M):
            kind = rng.choice(["empty", "partial", "partial", "full", "prefix"])
            pos = ([] if kind == "empty" else list(range(N)) if kind == "full" else
                   list(range(rng.randint(0, N))) if kind == "prefix" else [i for i in range(N) if rng.random() < 0.5])
            for i in pos:
                ent.append((i, k, rng.choice(pool)))
        ent.sort()
        if rng.random() < 0.1:
            rng.shuffle(ent)                           # unsorted storage order (kernel only)
        cases.append(([e[0] for e in ent], [e[1] for e in ent], [e[2] for e in ent], N, fill, rng.random() < 0.5))
    cases.append(([], [], [], 0, 0, True))
    # every coordinate dtype, with lines whose stored elements all equal the fill value (finding cd7a310: the
    # first-gap search started from -1 stored in the coordinate dtype)
    for k, dt in enumerate(IDX_DTYPES):
        for maxm in (True, False):
            cases.append(([0, 0, 1, 2], [0, 1, 1, 1], [7, 7, 7, 7], 4, 7, maxm, dt))
            cases.append(([0, 1, 2], [0, 0, 0], [3, 3, 3 - 2 * k % 2], 5, 3, maxm, dt))
            c = cases[rng.randrange(0, n)]
            cases.append(tuple(c[:6]) + (dt,))
    return cases


def gen_spec(rng, shape, fill, pattern, unpruned, fmt="coo"):
    shape = list(shape)
    nd = len(shape)
    allidx = list(itertools.product(*[range(d) for d in shape]))
    if pattern == "empty":
        pos = []
    elif pattern == "full":
        pos = allidx
    elif pattern == "lines":                      # every line along the last axis is empty, partial or full
        pos = []
        L = shape[-1] if nd else 1
        for head in itertools.product(*[range(d) for d in shape[:-1]]):
            kind = rng.choice(["empty", "partial", "full", "prefix"])
            js = ([] if kind == "empty" else list(range(L)) if kind == "full" else
                  list(range(rng.randint(0, L))) if kind == "prefix" else [j for j in range(L) if rng.random() < 0.5])
            pos += [tuple(head) + (j,) for j in js]
    else:
        p = {"sparse": 0.25, "half": 0.6}[pattern]
        pos = [ix for ix in allidx if rng.random() < p]
    pool = [v for v in VALUES if v != fill]
    pool = rng.sample(pool, rng.choice([1, 2, 3, 5, len(pool)]))
    if unpruned:
        pool = pool[:2] + [fill]
    data = [rng.choice(pool) for _ in pos]
    if unpruned and pos and fill not in data:
        data[rng.randrange(len(data))] = fill
    caxes = None
    if fmt == "gcxs" and nd >= 2:
        caxes = sorted(rng.sample(range(nd), rng.randint(1, nd - 1)))
    return {"shape": shape, "coords": [list(p) for p in pos], "data": data, "fill": fill, "format": fmt, "caxes": caxes}


def ops_for(spec, fmt, with_oob):
    nd = len(spec["shape"])
    ops = []
    axes = list(range(-nd, nd))
    for ax in axes:
        for desc in (False, True):
            ops.append(("sort", ax, desc))
    for maxm in (True, False):
        for ax in [None] + axes:
            for kd in (False, True):
                ops.append(("arg", maxm, ax, kd))
    ops.append(("unique_values",))
    ops.append(("unique_counts",))
    ops.append(("where",))
    if fmt == "coo":
        ops.append(("nonzero",))
        ops.append(("argwhere",))
        # an order-dependent observer of the raw sort result (the constructor is told sorted=True)
        for ax in (axes if spec["fill"] == 0 else axes[-1:]):
            for desc in (False, True):
                ops.append(("sort_argwhere", ax, desc))
    if with_oob:
        ops += [("sort", nd, False), ("sort", -nd - 1, True), ("arg", True, nd, False), ("arg", False, -nd - 1, True)]
    return ops


DIRECTED = [
    # regression inputs of the repaired findings D10, D17, D18 (a recurrence is a NEW violation) and the unpruned witnesses
    ({"shape": [6], "coords": [[1], [2], [3], [5]], "data": [-3, -2, 1, 1], "fill": 0}, [("unique_counts",), ("unique_values",)]),
    ({"shape": [1], "coords": [[0]], "data": [5], "fill": 0}, [("sort", -1, False), ("sort", 0, True)]),
    ({"shape": [0], "coords": [], "data": [], "fill": 0}, [("sort", -1, False)]),
    ({"shape": [2, 0], "coords": [], "data": [], "fill": 0}, [("sort", -1, False), ("sort", 0, False)]),
    ({"shape": [3], "coords": [[1]], "data": [4], "fill": 0}, [("arg", True, -1, False), ("arg", True, 0, False)]),
    ({"shape": [2, 1, 3], "coords": [[0, 0, 0], [0, 0, 2], [1, 0, 1]], "data": [1, 2, 5], "fill": 0},
     [("arg", True, 0, False), ("arg", True, -2, True), ("arg", True, -1, True)]),
    ({"shape": [0, 3], "coords": [], "data": [], "fill": 0}, [("arg", True, None, False), ("arg", True, 0, False)]),
    ({"shape": [3], "coords": [[0]], "data": [0], "fill": 0}, [("arg", False, 0, False), ("unique_values",), ("nonzero",)]),
]


def gen_api(rng, tier):
    ext = [0, 1, 2, 3, 4]
    shapes1 = [(a,) for a in ext]
    shapes2 = list(itertools.product(ext, ext))
    shapes3 = list(itertools.product(ext, ext, ext))
    if tier == "quick":
        shapes3 = rng.sample([s for s in shapes3 if 0 not in s], 20) + rng.sample([s for s in shapes3 if 0 in s], 6)
        per = {1: 10, 2: 5, 3: 2}
        per_unpruned = {1: 4, 2: 2, 3: 1}
        shapes4 = []
    else:
        shapes4 = rng.sample(list(itertools.product([1, 2, 3], repeat=4)), 40) + [(2, 0, 1, 3), (1, 1, 1, 1)]
        per = {1: 60, 2: 30, 3: 10, 4: 3}
        per_unpruned = {1: 12, 2: 6, 3: 3, 4: 1}
    patterns = ["lines", "lines", "half", "sparse", "full", "empty"]
    arrays = []
    for sh in shapes1 + shapes2 + shapes3 + shapes4:
        if 0 in sh:                                # nothing can be stored: one array per shape is enough
            arrays.append((gen_spec(rng, sh, rng.choice(FILLS), "empty", False), "coo"))
            continue
        for i in range(per[len(sh)]):
            fill = FILLS[i % len(FILLS)] if i < 4 else rng.choice(FILLS)
            pat = patterns[i % len(patterns)] if i < 6 else rng.choice(patterns)
            arrays.append((gen_spec(rng, sh, fill, pat, False), "coo"))
        # inputs built on purpose with stored values equal to the fill value (ties with the fill)
        for i in range(per_unpruned[len(sh)]):
            arrays.append((gen_spec(rng, sh, rng.choice(FILLS), rng.choice(["lines", "half", "full"]), True), "coo"))
    # every index dtype (uint8/16/32/64, int8/16/32) with stored values equal to the fill value: lines that are
    # entirely fill-equal, partly fill-equal, and ordinary ones (finding cd7a310 needs an unsigned dtype and a
    # line whose stored elements all equal the fill value)
    dt_shapes = [(3,), (4,), (2, 3), (3, 2), (4, 4), (2, 2, 3)]
    reps = 1 if tier == "quick" else 4
    for dt in IDX_DTYPES:
        for sh in dt_shapes:
            for _r in range(reps):
                fill = rng.choice(FILLS)
                spec = gen_spec(rng, sh, fill, rng.choice(["lines", "half", "full"]), True)
                spec["idx_dtype"] = dt
                arrays.append((spec, "coo"))
                allfill = gen_spec(rng, sh, fill, rng.choice(["lines", "half"]), True)
                allfill["data"] = [fill if rng.random() < 0.8 else v for v in allfill["data"]]
                allfill["idx_dtype"] = dt
                arrays.append((allfill, "coo"))
    # other formats (pruned inputs only)
    extra = rng.sample(shapes1[1:] + shapes2 + shapes3 + shapes4, 24 if tier == "quick" else 120)
    for sh in extra:
        fmt = rng.choice(["gcxs", "dok"])
        arrays.append((gen_spec(rng, sh, rng.choice(FILLS), rng.choice(patterns), False, fmt), fmt))
    cases = []
    # histories on ONE cache-enabled operand: sort along a non-last axis, then the observers that share the
    # transposition memo with it (argmax/argmin along the last axis, x.T), then sort again
    hist_arrays = [sp for sp, fmt in arrays if fmt == "coo" and len(sp["shape"]) in (2, 3) and 0 not in sp["shape"]
                   and len(sp["coords"]) >= 2]
    if tier == "quick":
        hist_arrays = [sp for sp in hist_arrays if len(sp["shape"]) == 2] + \
                      [sp for sp in hist_arrays if len(sp["shape"]) == 3][::4]
    for sp in hist_arrays:
        nd = len(sp["shape"])
        h = dict(sp)
        h["cache"] = True
        ops = []
        for a0 in range(nd - 1):
            ops.append(("sort", a0, rng.random() < 0.5))
            ops += [("arg", True, -1, False), ("arg", False, nd - 1, rng.random() < 0.5), ("T",)]
        ops += [("sort", nd - 1, False), ("sort", 0 - nd, True), ("arg", rng.random() < 0.5, nd - 1, True),
                ("arg", True, None, False), ("T",), ("sort", 0, False), ("unique_values",)]
        cases.append((h, ops))
    for k, (spec, fmt) in enumerate(arrays):
        cases.append((spec, ops_for(spec, fmt, with_oob=(k % 9 == 0))))
    for spec, ops in DIRECTED:
        s = dict(spec)
        s.update({"format": "coo", "caxes": None})
        cases.append((s, ops))
    return cases


# ------------------------------------------------------------------ literals
def op_lit(op):
    if op[0] == "sort":
        return f"(OpSort {vZ(op[1])} {vbool(op[2])})"
    if op[0] == "arg":
        return f"(OpArg {vbool(op[1])} {vopt(op[2])} {vbool(op[3])})"
    if op[0] == "sort_argwhere":
        return f"(OpSortArgwhere {vZ(op[1])} {vbool(op[2])})"
    if op[0] == "T":
        return "OpT"
    return {"unique_values": "OpUniqueValues", "unique_counts": "OpUniqueCounts", "nonzero": "OpNonzero",
            "argwhere": "OpArgwhere", "where": "OpWhere"}[op[0]]


def res_lit(p):
    k = p.get("k") if isinstance(p, dict) else None
    if k == "list":
        return f"(RList {vlist(p['l'])})"
    if k == "pair":
        return f"(RPair {vlist(p['a'])} {vlist(p['b'])})"
    if k == "cols":
        return f"(RCols {vlist(p['cols'], vlist)})"
    if k == "idx":
        if p["rows"] is None:
            return "(RArr SOther)"
        return f"(RIdx {vlist(p['rows'], vlist)})"
    return f"(RArr {vlib.sarr_lit(p)})"


def op_py(op):
    if op[0] == "sort":
        e = f"np.sort(d, axis={op[1]})"
        return f"sparse.sort(x, axis={op[1]}, descending={op[2]})", (f"np.flip({e}, axis={op[1]})" if op[2] else e)
    if op[0] == "arg":
        f = "argmax" if op[1] else "argmin"
        return f"sparse.{f}(x, axis={op[2]}, keepdims={op[3]})", f"np.{f}(d, axis={op[2]}, keepdims={op[3]})"
    if op[0] == "where":
        return "sparse.where(x)", "np.where(d)"
    if op[0] == "T":
        return "x.T", "d.T"
    if op[0] == "sort_argwhere":
        e = f"np.sort(d, axis={op[1]})"
        return (f"sparse.argwhere(sparse.sort(x, axis={op[1]}, descending={op[2]}))",
                f"np.argwhere({f'np.flip({e}, axis={op[1]})' if op[2] else e})")
    return f"sparse.{op[0]}(x)", f"np.{op[0]}(d)"


def replay_line(spec, op, hist=None):
    n, nd = len(spec["coords"]), len(spec["shape"])
    s, d = op_py(op)
    lines = [
        "import numpy as np, sparse",
        f"x = sparse.COO(np.array({spec['coords']}, dtype='{spec.get('idx_dtype') or 'intp'}').reshape({n}, {nd}).T, "
        f"np.array({spec['data']}, dtype=np.int64), shape={tuple(spec['shape'])}, "
        f"fill_value=np.int64({spec['fill']}), sorted=True, has_duplicates=False)",
    ]
    if spec.get("format", "coo") != "coo":
        lines.append(f"x = sparse.{ {'gcxs': 'GCXS', 'dok': 'DOK'}[spec['format']] }.from_coo(x)")
    lines.append("d = x.todense() if isinstance(x, sparse.COO) else x.asformat('coo').todense()")
    if hist is not None:
        lines.append("x.enable_caching()   # the history below runs on this ONE cache-enabled operand")
        for h in hist:
            lines.append(f"_ = {op_py(h)[0]}")
    lines += [
        "def show(tag, f):",
        "    try:",
        "        r = f()",
        "        print(tag, r.todense() if hasattr(r, 'todense') else r, getattr(r, 'shape', ''))",
        "        if hasattr(r, 'coords'): print(tag, 'raw coords', r.coords.tolist(), 'data', r.data.tolist())",
        "    except Exception as e:",
        "        print(tag, 'raised', repr(e))",
        f"show('sparse:', lambda: {s})",
        f"show('numpy :', lambda: {d})",
    ]
    return "\n".join(lines)


# ------------------------------------------------------------------ tags
def tags_of(spec, op):
    t = [op[0]]
    data, fill = spec["data"], spec["fill"]
    if not data:
        t.append("fill:nostored")
    elif fill in data:
        t.append("fill:tie")
    elif fill < min(data):
        t.append("fill:below")
    elif fill > max(data):
        t.append("fill:above")
    else:
        t.append("fill:between")
        if sum(1 for v in data if v < fill) >= 2 and sum(1 for v in data if v > fill) >= 2:
            t.append("fill:both_sides_ge2")
    shape = spec["shape"]
    nd = len(shape)
    ax = None
    if op[0] in ("sort", "sort_argwhere"):
        ax = op[1]
    elif op[0] == "arg":
        ax = op[2]
    if isinstance(ax, int) and -nd <= ax < nd:
        a = ax % nd
        L = shape[a]
        cnt = {}
        for c in spec["coords"]:
            key = tuple(c[:a] + c[a + 1:])
            cnt[key] = cnt.get(key, 0) + 1
        nlines = 1
        for i, d in enumerate(shape):
            if i != a:
                nlines *= d
        kinds = set()
        if nlines > len(cnt):
            kinds.add("empty")
        for v in cnt.values():
            kinds.add("full" if v == L else "partial")
        for kd in sorted(kinds):
            t.append("line:" + kd)
        t.append("axis:neg" if ax < 0 else "axis:pos")
        if L <= 1:
            t.append(f"axis_len:{L}")
    elif op[0] == "arg":
        t.append("axis:None")
    if op[0] == "arg":
        t.append("keepdims" if op[3] else "nokeepdims")
    if 0 in shape:
        t.append("zero_size")
    return t


# ------------------------------------------------------------------ campaign
def campaign(build, tier, seed, report, budget=1):
    rng = random.Random(seed)
    viol = []
    nk = (300 if tier == "quick" else 3000) * budget
    tags = {}

    def tag(*ts):
        for t in ts:
            tags[t] = tags.get(t, 0) + 1

    # ---- kernel level
    sk = gen_sortk(rng, nk)
    mk = gen_minmaxk(rng, nk)
    api = gen_api(rng, tier)
    # one worker pool for everything (each worker pays the import and the JIT compilation once)
    plain = [c for c in api if not c[0].get("idx_dtype")]
    groups = {}
    for c in api:
        if c[0].get("idx_dtype"):
            groups.setdefault(c[0]["idx_dtype"], []).append(c)
    gkeys = sorted(groups)
    api = plain + [c for k in gkeys for c in groups[k]]
    mk_plain = [c for c in mk if len(c) <= 6]
    mk_dt = sorted((c for c in mk if len(c) > 6), key=lambda c: c[6])
    mk = mk_plain + mk_dt
    allc = ([("api_multi", groups[k]) for k in gkeys] + [("api", c) for c in plain] +
            [("sortk", c) for c in sk] + [("minmaxk", c) for c in mk])
    t_impl = time.time()
    rall = vlib.run_impl("props.c10", "impl_any", allc, workers=6, per_case_timeout=120.0)
    t_impl = time.time() - t_impl
    t_judge = time.time()
    ng = len(gkeys)
    rgroups = []
    for k, r in zip(gkeys, rall[:ng], strict=True):
        rgroups += r if isinstance(r, list) and len(r) == len(groups[k]) else [r] * len(groups[k])
    rapi = rall[ng:ng + len(plain)] + rgroups
    rsk = rall[ng + len(plain):ng + len(plain) + len(sk)]
    rmk = rall[ng + len(plain) + len(sk):]

    lits = []
    for c, r in zip(sk, rsk, strict=True):
        out = "None" if "ri" not in r else f"(Some {vpair(vlist(r['ri']), vlist(r['data']))})"
        lits.append(vpair(vlist(c[0]), vlist(c[1]), vlist(c[2]), vZ(c[3]), vZ(c[4]), vbool(c[5]), out))
        tag("kernel:_sort_coo")
    bad = build.judge("c10_sortk", IMPORTS, "sortk_case", "judge_sortk", lits)
    for i, code in bad:
        c = sk[i]
        viol.append({"property": "C10", "op": "_sort_coo", "kind": "representation", "clause": None, "code": code,
                     "case": dict(group_coords=c[0], sort_coords=c[1], data=c[2], fill=c[3], sort_axis_len=c[4], descending=c[5]),
                     "impl": rsk[i],
                     "replay_py": "import numpy as np; from sparse.numba_backend._coo.common import _sort_coo; "
                                  f"print(_sort_coo(np.array([{c[0]},{c[1]}],dtype=np.intp).reshape(2,{len(c[0])}), "
                                  f"np.array({c[2]},dtype=np.int64), np.int64({c[3]}), {c[4]}, {c[5]}))"})
    lits = []
    for c, r in zip(mk, rmk, strict=True):
        out = "None" if "ri" not in r else f"(Some {vpair(vlist(r['ri']), vlist(r['rd']))})"
        lits.append(vpair(vlist(c[0]), vlist(c[1]), vlist(c[2]), vZ(c[3]), vZ(c[4]), vbool(c[5]), out))
        tag("kernel:_compute_minmax_args")
        if len(c) > 6:
            tag("kernel_idx_dtype:" + c[6])
    bad = build.judge("c10_minmaxk", IMPORTS, "minmaxk_case", "judge_minmaxk", lits)
    for i, code in bad:
        c = mk[i]
        viol.append({"property": "C10", "op": "_compute_minmax_args", "kind": "representation", "clause": None, "code": code,
                     "case": dict(reduce_coords=c[0], index_coords=c[1], data=c[2], reduce_size=c[3], fill=c[4], max_mode=c[5],
                                  idx_dtype=(c[6] if len(c) > 6 else "intp")),
                     "impl": rmk[i],
                     "replay_py": "import numpy as np; from sparse.numba_backend._coo.common import _compute_minmax_args; "
                                  f"print(_compute_minmax_args(np.array([{c[0]},{c[1]}],dtype='{c[6] if len(c) > 6 else 'intp'}').reshape(2,{len(c[0])}), "
                                  f"np.array({c[2]},dtype=np.int64), {c[3]}, np.int64({c[4]}), {c[5]}))"})

    # ---- API level
    flat = []      # (spec, op, plain result)
    for (spec, ops), res in zip(api, rapi, strict=True):
        if not isinstance(res, list):          # hang / crash of the whole batch
            res = [res] * len(ops)
        for j, (op, r) in enumerate(zip(ops, res, strict=True)):
            flat.append((spec, op, r, list(ops[:j]) if spec.get("cache") else None))
    lits = []
    for spec, op, r, _h in flat:
        lits.append(vpair(vlib.spec_coo_lit(spec), op_lit(op), res_lit(r)))
        tag(*tags_of(spec, op))
        tag("format:" + spec.get("format", "coo"))
        if _h is not None:
            tag("history:cache_enabled")
        if spec.get("idx_dtype"):
            tag("idx_dtype:" + spec["idx_dtype"])
        if spec["coords"] and spec["fill"] in spec["data"]:
            tag("stored_equals_fill")
    bad = build.judge("c10_api", IMPORTS, "api_case", "judge_api", lits, chunk=400)
    codes = {}
    for i, code in bad:
        spec, op, r, hist = flat[i]
        codes[code] = codes.get(code, 0) + 1
        opname = ("argmax" if op[1] else "argmin") if op[0] == "arg" else "transpose" if op[0] == "T" else op[0]
        if code == 1:
            kind, clause = "representation", None
        elif code == 3:
            kind, clause = "value", "result_not_canonical"
        else:
            kind, clause = "value", None
        v = {"property": "C10", "op": opname, "kind": kind, "clause": clause, "code": code,
             "format": spec.get("format", "coo"),
             "case": dict(array=spec, op=list(op)), "impl": r, "replay_py": replay_line(spec, op, hist)}
        if hist is not None:
            v["history"] = [list(h) for h in hist]
            v["case"]["history_on_cache_enabled_operand"] = [list(h) for h in hist]
        viol.append(v)
        tag("verdict:" + (clause or kind))

    # report the most readable witness of each class first: no zero extents, about six elements
    def nice(v):
        first = 0 if v.get("kind") == "value" else 1        # concrete failing inputs first
        sh = v["case"].get("array", {}).get("shape")
        if sh is None:
            return (first, 0, 0, 0, 0)
        size = 1
        for d in sh:
            size *= d
        return (first, 1, 0 in sh, len(v.get("history") or []), abs(size - 6))
    viol.sort(key=nice)

    cov = report["coverage"]
    cov["phase_seconds"] = {"implementation": round(t_impl, 1), "coq_judges": round(time.time() - t_judge, 1)}
    cov["evaluations"] = len(sk) + len(mk) + len(flat)
    cov["kernel_cases"] = {"_sort_coo": len(sk), "_compute_minmax_args": len(mk)}
    cov["api_cases"] = len(flat)
    cov["distinct_nontrivial"] = len({vlib.digest((s["shape"], s["coords"], s["data"], s["fill"], s.get("format"), s.get("idx_dtype"), list(op), h))
                                      for s, op, _r, h in flat if s["coords"]}) + \
        len({vlib.digest(c) for c in sk if c[0]}) + len({vlib.digest(c) for c in mk if c[0]})
    cov["rule"] = ("kernel: seeded random canonical 2-d inputs (rows empty/partial/prefix/full, value pools of 1-5 values "
                   "so ties occur, fills in {-4,0,2,6} or equal to a stored value, both directions/modes) plus a few "
                   "non-canonical runs; API: every 1-d and 2-d shape and a seeded sample of 3-d shapes over extents "
                   "{0,1,2,3,4}, several arrays per shape (fill below/between/above/tied, line patterns), and on each array "
                   "EVERY axis (negative too) x direction for sort, axis None/each/negative x keepdims x max/min, "
                   "unique_values, unique_counts, nonzero, argwhere, where; distinct = distinct (array, op) with nnz > 0")
    cov["differential_only"] = ["NaN ordering, complex data, dtype promotion are not covered (integer data only)"]
    cov["verdict_codes"] = {str(k): v for k, v in sorted(codes.items())}
    pick = [0, len(flat) // 3, 2 * len(flat) // 3, len(flat) - 1]
    cov["samples"] = [dict(array=flat[i][0], op=list(flat[i][1]), impl=flat[i][2], history=flat[i][3]) for i in pick] + \
                     [dict(kernel="_sort_coo", case=sk[0], impl=rsk[0]), dict(kernel="_compute_minmax_args", case=mk[0], impl=rmk[0])]
    cov["branch_tags"] = dict(sorted(tags.items()))
    return viol


def replay(path):
    v = json.load(open(path))
    print(json.dumps(v, indent=1)[:3000])
    if "replay_py" in v:
        import subprocess
        p = subprocess.run([vlib.PY, "-c", v["replay_py"]], env=vlib.env_clean(), capture_output=True, text=True, timeout=300)
        print(p.stdout, p.stderr[-500:])
    return 0
