"""C03 — reductions.  Correspondence campaign.

 API level   : sum / prod / min / max / any / all and np.<ufunc>.reduce (add, multiply, minimum, maximum,
               logical_or, logical_and, bitwise_or, bitwise_and, bitwise_xor) on COO and GCXS (every
               compressed-axes choice), integer data, every ordered axis subset of <=4-d shapes (plus
               negative spellings, None, (), ints, out-of-range and repeated axes), keepdims both, fills
               0 / nonzero, patterns forcing absent / deficient / complete groups, length-0/1 axes,
               narrow index dtypes.  The implementation's raw result is compared INSIDE Coq
               (Corr/C03Judge.v) with the model's representation (Model/Reduce.v, Z instance built from
               the generated fragments) and with Spec/NpReduce.v on the dense input; the Spec itself is
               compared with NumPy's answer on every case.
 kernel level: _grouped_reduce / _calc_counts_invidx on raw arrays (captured from the API runs and
               generated directly, incl. int8/uint8 groups with lengths around 127/255) vs the model.
 differential only (no Coq): mean / var / std / nanmean and sum / prod / any / all / min / max for every DATA dtype
               (bool, uint8, int8, int16, int32, int64, float32, float64) on COO and GCXS, partial and full
               reductions: values (exact rationals and NumPy) and RESULT DTYPE; nan-reductions on float32/64
               data with NaN; dtype= requests; +-inf fills.  The dtype-promotion decision of mean / var is
               additionally generated from the source (S_reduce.v: s_mean_dtype, s_var_dtype) and proved
               (Props: mean_dtype_promotion, var_dtype_promotion)."""
import itertools
import json
import math
import random
from fractions import Fraction

import vlib
from vlib import vZ, vlist, vpair

LEVEL = "proof"
TRUSTED_BASE = [
    "Coq 8.16.1 kernel + vm_compute (case evaluation); no native_compute",
    "axioms: none (Print Assumptions: Closed under the global context for every C03 theorem)",
    "tools/py2v.py fragment translator and tools/sitegen/reduce.py (statement ranges of SparseArray.reduce, "
    "the masked-assignment rewriting rule data[m] = f(data[m], e[m]) -> if m: data = f(data, e), inlining of a branch-local abbreviation, 49 source pins); "
    "Lib/PyReduce.v as the meaning of NumPy ufuncs on Python ints",
    "Spec/NpReduce.v as a description of numpy ufunc.reduce (cross-checked against NumPy on every generated case)",
    "Model/Reduce.v hand transcription of COO._reduce_calc/_reduce_return, _calc_counts_invidx, reduceat, "
    "COO.transpose/reshape (tied by API-level and kernel-level correspondence); GCXS: decision structure "
    "transcribed, grouped reduction modelled by the COO core on the re-sorted entries; Model/ReduceGcxs.v transcribes the "
    "index-pointer arithmetic of GCXS._reduce_calc (proved equal to the COO core through Model/Convert.v's "
    "change_compressed_axes; compared with GCXS._reduce_calc called directly, kernel level)",
    "Model/ReduceExt.v: mean/var/nanreduce as compositions over the reduce pipeline; element-wise steps by dense meaning",
    "correspondence harness tools/props/c03.py, tools/vlib.py (monkeypatches _grouped_reduce in the worker to "
    "record its raw arguments)",
]
ASSUMPTIONS = [
    "element values are unbounded integers: dtype promotion, casting (dtype=), float rounding and overflow of "
    "narrow data integers are not modelled (differential only; float16 accumulation excluded)",
    "mean/var/std and the nan-reductions are checked differentially only",
]

UNPROVED = [
    "std: var_den covers the variance; the final np.sqrt is not rational and is not modelled (differential only)",
    "float rounding / accumulation order / dtype casting of every reduction (differential only); the dtype-promotion "
    "DECISION of mean/var is proved (mean_dtype_promotion, var_dtype_promotion)",
    "mean_den / var_den / nanreduce_den: the element-wise steps (true_divide by the count, self - arrmean, x*x, "
    "where(isnan, identity, x)) are modelled by their dense meaning in canonical pruned form (unique by "
    "COOP.canonical_unique); that elemwise returns this is C01/C06, tied here by the differential campaign only",
    "mean_den / var_den for a zero reduced count (NumPy: nan) are outside exact arithmetic; var_den excludes 0-d input",
    "nanmax / nanmin (x.reduce(np.fmax / np.fmin)) and nanmean: reduce_den holds for any associative-commutative op, but "
    "no instance for fmax/fmin over a value type with a NaN token is given; nanmean is differential only",
    "GCXS: gcxs_recompress_is_coo_calc(_any) ties change_compressed_axes + the index-pointer arithmetic to the COO core "
    "for every well-formed GCXS array of ndim >= 2 (the _any form discharges the from_coo-image hypothesis through C05's "
    "surjectivity theorem); gcxs_reduce_den is stated for the COO-core model of that path.  GCXS._reduce_return (1-d GCXS, then GCXS.reshape to the kept "
    "extents) and the flatten() of the full-reduction path are modelled through COO reshape (dense-equivalent), "
    "tied by API-level correspondence and C05/C08",
    "gcxs_ok (distinct in-range entries) is a hypothesis of the GCXS theorems, checked per case (gcxs_okb); its "
    "derivation from gcxs_wfb is C05's",
]

UF = {"add": 0, "multiply": 1, "minimum": 2, "maximum": 3, "logical_or": 4, "logical_and": 5,
      "bitwise_or": 6, "bitwise_and": 7, "bitwise_xor": 8}
METHOD = {"add": "sum", "multiply": "prod", "minimum": "min", "maximum": "max", "logical_or": "any",
          "logical_and": "all"}
NARROW = {"int8": (8, True), "uint8": (8, False), "int16": (16, True), "uint16": (16, False),
          "int32": (32, True), "uint32": (32, False)}

# ------------------------------------------------------------------ worker side
_state = {"patched": False, "calls": []}


def _patch():
    if _state["patched"]:
        return
    from sparse.numba_backend._coo import core
    orig = core._grouped_reduce

    def wrapped(x, groups, method, **kwargs):
        import numpy as np
        rec = {"gdtype": str(groups.dtype), "n": int(len(groups))}
        small = len(groups) <= 40 and all(v is None for v in kwargs.values()) and x.dtype.kind in "iub" \
            and method.__name__ in UF
        if small:
            rec.update(groups=[int(g) for g in groups], data=[vlib.val_token(v) for v in x], uf=method.__name__)
        try:
            r = orig(x, groups, method, **kwargs)
        except IndexError:
            if small:
                rec["out"] = None
            _state["calls"].append(rec)
            raise
        if small:
            rec["out"] = [[int(v) for v in r[1]], [int(v) for v in r[2]], [vlib.val_token(v) for v in r[0]]]
        _state["calls"].append(rec)
        return r
    core._grouped_reduce = wrapped
    _state["patched"] = True


def _exc_plain(ex):
    for cls in (ValueError, IndexError, TypeError, ZeroDivisionError, NotImplementedError, OverflowError, RuntimeError):
        if isinstance(ex, cls):
            return {"k": "exc", "exc": cls.__name__, "cls": type(ex).__name__, "msg": str(ex)[:160]}
    return {"k": "exc", "exc": "OtherError", "cls": type(ex).__name__, "msg": str(ex)[:160]}


def _axis_py(axis):
    return tuple(axis) if isinstance(axis, list) else axis


def _call(sparse, np, x, uf, spelling, axis, keepdims, extra=None):
    ufunc = getattr(np, uf)
    kw = dict(extra or {})
    if spelling == "method":
        return getattr(x, METHOD[uf])(axis=axis, keepdims=keepdims, **kw)
    if spelling == "func":
        return getattr(sparse, METHOD[uf])(x, axis=axis, keepdims=keepdims, **kw)
    if spelling == "npfunc":
        return getattr(np, METHOD[uf])(x, axis=axis, keepdims=keepdims, **kw)
    if spelling == "ufunc":
        return ufunc.reduce(x, axis=axis, keepdims=keepdims, **kw)
    if spelling == "reduce":
        return x.reduce(ufunc, axis=axis, keepdims=keepdims, **kw)
    raise ValueError(spelling)


def _derive(sparse, x, dv):
    k = dv["op"]
    if k == "transpose":
        return x.transpose(tuple(dv["perm"]))
    if k == "moveaxis":
        return sparse.moveaxis(x, dv["src"], dv["dst"])
    if k == "reshape":
        return x.reshape(tuple(dv["shape"]))
    if k == "reduce":
        y = x.sum(axis=dv["axis"], keepdims=True)
        y.enable_caching()
        return y
    if k == "transpose2":      # two hops: the second transposition can hit the cache of the first result
        return x.transpose(tuple(dv["perm"])).transpose(tuple(dv["perm2"]))
    raise ValueError(k)


def _derive_src(dv):
    k = dv["op"]
    if k == "transpose":
        return f"x.transpose({tuple(dv['perm'])!r})"
    if k == "moveaxis":
        return f"sparse.moveaxis(x,{dv['src']},{dv['dst']})"
    if k == "reshape":
        return f"x.reshape({tuple(dv['shape'])!r})"
    if k == "reduce":
        return f"x.sum(axis={dv['axis']},keepdims=True)"
    return f"x.transpose({tuple(dv['perm'])!r}).transpose({tuple(dv['perm2'])!r})"


def derived_shape(shape, dv):
    k = dv["op"]
    if k == "transpose":
        return [shape[a] for a in dv["perm"]]
    if k == "transpose2":
        s1 = [shape[a] for a in dv["perm"]]
        return [s1[a] for a in dv["perm2"]]
    if k == "moveaxis":
        l = list(shape)
        v = l.pop(dv["src"] % len(shape))
        l.insert(dv["dst"] % len(shape), v)
        return l
    if k == "reshape":
        return list(dv["shape"])
    l = list(shape)
    l[dv["axis"]] = 1
    return l


def derived_cases(tier, rng):
    """operands "however produced": COO arrays with caching enabled that result from a transpose (all
    permutations of 3 axes, 3- and 4-cycles of 4), moveaxis, reshape or a keepdims reduction, then reduced over
    every ordered axis subset (the reduction's internal transpose/reshape goes through the cache)."""
    cases = []
    ufs = ["add", "maximum", "multiply", "minimum", "logical_or", "bitwise_xor"]
    k = 0
    recipes = []
    for perm in itertools.permutations(range(3)):
        if list(perm) != [0, 1, 2]:
            recipes.append(([2, 3, 2], {"op": "transpose", "perm": list(perm)}))
            recipes.append(([3, 2, 1], {"op": "transpose", "perm": list(perm)}))
    for perm in ([1, 2, 3, 0], [3, 0, 1, 2], [1, 2, 0, 3], [0, 2, 3, 1], [2, 3, 0, 1], [1, 0, 3, 2]):
        recipes.append(([2, 3, 2, 2], {"op": "transpose", "perm": perm}))
    recipes += [([2, 3, 2], {"op": "moveaxis", "src": 0, "dst": -1}), ([2, 3, 2], {"op": "moveaxis", "src": -1, "dst": 0}),
                ([2, 3, 2, 2], {"op": "moveaxis", "src": 1, "dst": 3}),
                ([2, 3, 2], {"op": "reshape", "shape": [6, 2]}), ([2, 3, 2], {"op": "reshape", "shape": [2, 6]}),
                ([2, 3, 2], {"op": "reshape", "shape": [3, 2, 2]}), ([4, 3], {"op": "reshape", "shape": [2, 2, 3]}),
                ([2, 3, 2], {"op": "reduce", "axis": 0}), ([2, 3, 2], {"op": "reduce", "axis": 1}),
                ([2, 3, 2], {"op": "reduce", "axis": 2}),
                ([2, 3, 2], {"op": "transpose2", "perm": [1, 2, 0], "perm2": [1, 2, 0]}),
                ([2, 3, 2], {"op": "transpose2", "perm": [2, 0, 1], "perm2": [1, 2, 0]})]
    for shape, dv in recipes:
        nd = len(derived_shape(shape, dv))
        axs = axis_args(nd, rng, tier)
        if nd == 4 and tier == "quick":
            axs = rng.sample(axs, 40)
        for axis in axs:
            for keepdims in ((False, True) if tier != "quick" else (rng.random() < 0.5,)):
                uf = ufs[k % len(ufs)]
                k += 1
                fill = rng.choice(FILLS[uf])
                spec = vlib.gen_array_spec(rng, shape=shape, fills=(fill,), formats=("coo",), values=VALUES[uf],
                                           density=rng.choice([0.3, 0.6, 1.0]))
                cases.append({"spec": spec, "uf": uf, "spelling": rng.choice(SPELLINGS[uf in METHOD]), "axis": axis,
                              "keepdims": keepdims, "stream": "derived", "derive": dv})
    return cases


def impl_reduce(case):
    import warnings

    import numpy as np
    import sparse
    warnings.filterwarnings("ignore")
    _patch()
    _state["calls"] = []
    spec = case["spec"]
    x = vlib.build_array(spec, dtype=case.get("dtype", "int64"), idx_dtype=case.get("idx_dtype"))
    axis = _axis_py(case["axis"])
    res = {}
    dv = case.get("derive")
    if dv:
        # the operand is the result of an earlier operation on a cache-enabled array
        x.enable_caching()
        x = _derive(sparse, x, dv)
        res["inp"] = vlib.plain(x)
    if spec["format"] == "gcxs":
        res["inp"] = vlib.plain(x)
    try:
        r = _call(sparse, np, x, case["uf"], case["spelling"], axis, case["keepdims"])
        res["out"] = vlib.plain(r)
    except Exception as ex:  # noqa: BLE001
        res["out"] = _exc_plain(ex)
    # kernel level, GCXS: call _reduce_calc directly (re-compression path) to see the index-pointer arithmetic
    if spec["format"] == "gcxs" and isinstance(axis, tuple) and len(axis) > 0 and x.ndim >= 2:
        nd = x.ndim
        if all(isinstance(a, int) and -nd <= a < nd for a in axis):
            nax = tuple(a + nd if a < 0 else a for a in axis)
            if len(set(nax)) == len(nax) and len(nax) < nd:
                try:
                    oc = x._reduce_calc(getattr(np, case["uf"]), nax, case["keepdims"])
                    if len(oc) == 5 and oc[0].dtype.kind in "iub":
                        res["ip"] = {"x": vlib.plain(oc[4][0]), "data": [vlib.val_token(v) for v in oc[0]],
                                     "counts": [int(v) for v in oc[1]], "rowids": [int(v) for v in oc[4][2]],
                                     "ncols": int(oc[3])}
                except Exception as ex:  # noqa: BLE001
                    res["ip"] = {"exc": type(ex).__name__}
    d = vlib.spec_dense(spec, dtype=case.get("dtype", "int64")) if not dv else x.todense()
    try:
        nr = getattr(np, case["uf"]).reduce(d, axis=axis, keepdims=case["keepdims"])
        res["np"] = vlib.plain(nr if isinstance(nr, np.ndarray) else np.asarray(nr)[()])
    except Exception as ex:  # noqa: BLE001
        res["np"] = _exc_plain(ex)
    res["calls"] = _state["calls"]
    return res


def impl_kernel(case):
    """direct call of _grouped_reduce(data, groups, ufunc) on raw arrays"""
    import numpy as np
    from sparse.numba_backend._coo.core import _grouped_reduce
    groups = np.array(case["groups"], dtype=case["gdtype"])
    data = np.array(case["data"], dtype="int64")
    try:
        r, inv, cnt = _grouped_reduce(data, groups, getattr(np, case["uf"]))
        return {"out": [[int(v) for v in inv], [int(v) for v in cnt], [vlib.val_token(v) for v in r]]}
    except IndexError:
        return {"out": None}


def impl_diff(case):
    """differential-only sub-campaign: returns a list of mismatch descriptions (empty = agree)"""
    import warnings

    import numpy as np
    import sparse
    warnings.filterwarnings("ignore")
    spec = case["spec"]
    kind = case["kind"]
    axis = _axis_py(case["axis"])
    kd = case["keepdims"]
    bad = []
    clause = None

    def dense_of(r):
        return r.todense() if hasattr(r, "todense") else np.asarray(r)

    def same(a, b, exact=True):
        a, b = np.asarray(a), np.asarray(b)
        if a.shape != b.shape:
            return False
        if exact:
            return bool(np.array_equal(a, b, equal_nan=True))
        narrow = any(str(t.dtype) in ("float32", "float16", "complex64") for t in (a, b))
        return bool(np.allclose(a, b, rtol=1e-4 if narrow else 1e-10, atol=1e-6 if narrow else 1e-12, equal_nan=True))

    try:
        if kind in ("mean", "var", "std", "nanmean"):
            in_dt = case.get("in_dtype", "int64")
            x = vlib.build_array(spec, dtype=in_dt)
            d = vlib.spec_dense(spec, dtype=in_dt)
            kw = {"ddof": case["ddof"]} if kind in ("var", "std") and case.get("ddof") else {}
            if kind == "nanmean":      # NaN-free input: delegates to mean for non-float data
                r = sparse.nanmean(x, axis=axis, keepdims=kd)
            elif case["spelling"] == "method":
                r = getattr(x, kind)(axis=axis, keepdims=kd, **kw)
            elif case["spelling"] == "npfunc":
                r = getattr(np, kind)(x, axis=axis, keepdims=kd, **kw)
            else:
                r = getattr(sparse, kind)(x, axis=axis, keepdims=kd, **({"correction": kw["ddof"]} if kw else {}))
            e = getattr(np, kind)(d, axis=axis, keepdims=kd, **kw)
            rd = dense_of(r)
            narrow = in_dt in ("float32", "float16")
            if str(rd.dtype) != str(np.asarray(e).dtype):
                bad.append(f"dtype {rd.dtype} vs numpy {np.asarray(e).dtype}")
            if not same(rd, e, exact=(kind in ("mean", "nanmean") and not narrow)):
                bad.append(f"values {rd.tolist()} vs numpy {np.asarray(e).tolist()}")
            kind = "mean" if kind == "nanmean" else kind
            # exact rationals
            ax = tuple(range(d.ndim)) if axis is None else ((axis,) if isinstance(axis, int) else axis)
            ax = tuple(a % d.ndim for a in ax) if d.ndim else ()
            n = math.prod(d.shape[a] for a in ax)
            if n - (case.get("ddof") or 0) > 0 and d.size:
                moved = np.moveaxis(d, ax, tuple(range(d.ndim - len(ax), d.ndim))).reshape(-1, n) if ax else d.reshape(-1, 1)
                exp = []
                for row in moved.tolist():
                    mu = sum(Fraction(t) for t in row) / n
                    if kind == "mean":
                        exp.append(float(mu))
                    else:
                        v = sum((Fraction(t) - mu) ** 2 for t in row) / (n - (case.get("ddof") or 0))
                        exp.append(float(v) if kind == "var" else math.sqrt(v))
                if not same(np.asarray(rd, dtype=rd.dtype if rd.dtype.kind == "f" else float).reshape(-1), np.array(exp),
                            exact=(kind == "mean" and not narrow)):
                    bad.append(f"values {np.asarray(rd).reshape(-1).tolist()} vs exact rationals {exp}")
        elif kind == "nan":
            fn = case["fn"]
            fdt = case.get("in_dtype", "float64")
            d = vlib.spec_dense(spec).astype(fdt)
            for pos in case["nanpos"]:
                d[tuple(pos)] = np.nan
            fill = np.dtype(fdt).type(spec["fill"])
            x = sparse.COO.from_numpy(d, fill_value=fill)
            if spec["format"] == "gcxs":
                x = sparse.GCXS.from_coo(x)
            r = getattr(sparse, fn)(x, axis=axis, keepdims=kd)
            e = getattr(np, fn)(d, axis=axis, keepdims=kd)
            rd = np.asarray(dense_of(r))
            vals_ok = same(rd, e, exact=(fn not in ("nanmean",) and fdt == "float64"))
            if str(rd.dtype) != str(np.asarray(e).dtype):
                bad.append(f"dtype {rd.dtype} vs numpy {np.asarray(e).dtype}")
            if not vals_ok:
                bad.append(f"values {rd.tolist()} vs numpy {np.asarray(e).tolist()}")
        elif kind == "inffill":
            fill = float(case["fillv"])
            d = np.full(tuple(spec["shape"]), fill, dtype="float64")
            for c, v in zip(spec["coords"], spec["data"], strict=True):
                d[tuple(c)] = v
            x = sparse.COO.from_numpy(d, fill_value=fill)
            if spec["format"] == "gcxs":
                x = sparse.GCXS.from_coo(x)
            r = _call(sparse, np, x, case["uf"], case["spelling"], axis, kd)
            e = getattr(np, case["uf"]).reduce(d, axis=axis, keepdims=kd)
            if not same(dense_of(r), e, exact=True):
                bad.append(f"values {np.asarray(dense_of(r)).tolist()} vs numpy {np.asarray(e).tolist()}")
        elif kind == "dtype":
            x = vlib.build_array(spec, dtype=case["in_dtype"])
            d = vlib.spec_dense(spec, dtype=case["in_dtype"])
            kw = {} if case["req"] is None else {"dtype": case["req"]}
            r = _call(sparse, np, x, case["uf"], case["spelling"], axis, kd, kw)
            e = getattr(np, case["uf"]).reduce(d, axis=axis, keepdims=kd, **kw)
            rd = dense_of(r)
            if str(rd.dtype) != str(np.asarray(e).dtype):
                bad.append(f"dtype {rd.dtype} vs numpy {np.asarray(e).dtype}")
            if not same(rd, e, exact=np.asarray(e).dtype.kind in "iub"):
                bad.append(f"values {rd.tolist()} vs numpy {np.asarray(e).tolist()}")
    except Exception as ex:  # noqa: BLE001
        try:
            # an exception is a mismatch unless NumPy raises too
            raise_np = False
            if kind in ("mean", "var", "std", "nanmean"):
                getattr(np, "mean" if kind == "nanmean" else kind)(vlib.spec_dense(spec, dtype=case.get("in_dtype", "int64")),
                                                                    axis=axis, keepdims=kd)
            elif kind == "dtype":
                getattr(np, case["uf"]).reduce(vlib.spec_dense(spec, dtype=case["in_dtype"]), axis=axis, keepdims=kd)
            elif kind == "inffill":
                getattr(np, case["uf"]).reduce(vlib.spec_dense(spec).astype("float64"), axis=axis, keepdims=kd)
        except Exception:  # noqa: BLE001
            raise_np = True
        if not raise_np:
            bad.append(f"raised {type(ex).__name__}: {str(ex)[:120]}")
    return {"bad": bad, "clause": clause}


def impl_any(case):
    """one worker entry point for the three streams (the Numba JIT warm-up is paid once per worker)"""
    k = case["stream_kind"]
    if k == "api":
        return impl_reduce(case)
    if k == "kernel":
        return impl_kernel(case)
    return impl_diff(case)


# ------------------------------------------------------------------ generators
def axis_args(ndim, rng, tier):
    """every ordered subset of the axes (each also in a spelling with negative entries), None, ints"""
    out = [None]
    for k in range(0, ndim + 1):
        for t in itertools.permutations(range(ndim), k):
            out.append(list(t))
            if k:
                neg = [a - ndim if rng.random() < 0.5 else a for a in t]
                if neg == list(t):
                    neg[rng.randrange(k)] -= ndim
                out.append(neg)
    for a in range(-ndim, ndim):
        out.append(a)
    return out


def bad_axis_args(ndim, rng):
    if ndim == 0:
        # NumPy's ufunc.reduce tolerates axis 0 / -1 on a 0-d array (legacy); not part of the property
        return [1, -2, [1]]
    out = [ndim, -ndim - 1, [ndim], [0, ndim] if ndim else [0]]
    if ndim >= 1:
        out += [[0, 0], [0, -ndim]]
    if ndim >= 2:
        out += [[1, 0, 1], [0, 1, 1 - ndim]]
    return out


def norm_axes(axis, ndim):
    if axis is None:
        return list(range(ndim))
    l = [axis] if isinstance(axis, int) else list(axis)
    return [a + ndim if a < 0 else a for a in l]


def structured_spec(rng, shape, axes, fill, fmt, values):
    """pattern chosen per output row: absent / deficient / complete"""
    ndim = len(shape)
    kept = [a for a in range(ndim) if a not in axes]
    rows = {}
    for ix in itertools.product(*[range(d) for d in shape]):
        rows.setdefault(tuple(ix[a] for a in kept), []).append(ix)
    pos = []
    for _k, cells in sorted(rows.items()):
        kind = rng.choice(["absent", "deficient", "complete", "deficient"])
        if kind == "complete":
            pos += cells
        elif kind == "deficient":
            n = rng.randint(1, max(1, len(cells) - 1))
            pos += rng.sample(cells, min(n, len(cells)))
    pos.sort()
    vals = [v for v in values if v != fill]
    spec = {"shape": list(shape), "coords": [list(p) for p in pos], "data": [rng.choice(vals) for _ in pos],
            "fill": fill, "format": fmt, "caxes": None}
    if fmt == "gcxs" and ndim >= 2:
        k = rng.randint(1, ndim - 1)
        spec["caxes"] = sorted(rng.sample(range(ndim), k))
    return spec


def directed_wrap_cases():
    """seed-independent regression cases (both tiers) for the repaired defect `narrow_int_fill_correction_wraps`
    (round 6, 5ade83d): sums / products / means of narrow-integer arrays whose fill correction fill * n_cols or
    fill ** n_cols does not fit the data dtype.  Untagged: a recurrence is a new violation."""
    out = []
    for dt in ("int8", "uint8", "int16"):
        for fmt in ("coo", "gcxs"):
            for axis in (None, [2, 1, 0]):
                out.append({"kind": "dtype", "uf": "multiply", "in_dtype": dt, "req": None,
                            "spec": {"shape": [2, 3, 2], "coords": [], "data": [], "fill": 3, "format": fmt, "caxes": None},
                            "axis": axis, "keepdims": False, "spelling": "method"})
        out.append({"kind": "dtype", "uf": "multiply", "in_dtype": dt, "req": None,
                    "spec": {"shape": [2, 12], "coords": [[0, 0]], "data": [5], "fill": 3, "format": "coo", "caxes": None},
                    "axis": 1, "keepdims": False, "spelling": "ufunc"})
    for dt in ("int8", "uint8"):
        out.append({"kind": "dtype", "uf": "add", "in_dtype": dt, "req": None,
                    "spec": {"shape": [2, 90], "coords": [[0, 0]], "data": [5], "fill": 3, "format": "coo", "caxes": None},
                    "axis": -1, "keepdims": True, "spelling": "func"})
        out.append({"kind": "mean", "in_dtype": dt, "ddof": 0,
                    "spec": {"shape": [2, 90], "coords": [[0, 0]], "data": [5], "fill": 3, "format": "coo", "caxes": None},
                    "axis": 1, "keepdims": False, "spelling": "method"})
    return out


def group_kinds(spec, axis):
    ndim = len(spec["shape"])
    try:
        axes = [a for a in norm_axes(axis, ndim) if 0 <= a < ndim]
    except TypeError:
        return {}
    kept = [a for a in range(ndim) if a not in axes]
    ncols = math.prod(spec["shape"][a] for a in set(axes))
    nrows = math.prod(spec["shape"][a] for a in kept)
    cnt = {}
    for c in spec["coords"]:
        k = tuple(c[a] for a in kept)
        cnt[k] = cnt.get(k, 0) + 1
    out = {"complete": 0, "deficient": 0, "absent": nrows - len(cnt)}
    for v in cnt.values():
        out["complete" if v == ncols else "deficient"] += 1
    return out


VALUES = {"add": (-3, -2, -1, 1, 2, 3, 4, 5), "multiply": (-2, -1, 1, 2, 3), "minimum": (-3, -2, -1, 1, 2, 3, 4, 5),
          "maximum": (-3, -2, -1, 1, 2, 3, 4, 5), "logical_or": (0, 1, 2, -1), "logical_and": (0, 1, 2, -1),
          "bitwise_or": (0, 1, 2, 3, 5, -1, -4), "bitwise_and": (0, 1, 3, 6, 7, -1, -2), "bitwise_xor": (1, 2, 3, 5, -1)}
FILLS = {"add": (0, 0, 3, -1), "multiply": (0, 1, 2, -1), "minimum": (0, 3, -1), "maximum": (0, 3, -1),
         "logical_or": (0, 1, 0, 3), "logical_and": (0, 1, 1, 3), "bitwise_or": (0, 3, -1), "bitwise_and": (0, 3, -1),
         "bitwise_xor": (0, 0, 3)}
SPELLINGS = {True: ["method", "func", "ufunc", "npfunc", "reduce"], False: ["ufunc", "reduce"]}


def api_cases(tier, rng):
    cases = []
    rounds = 3 if tier == "quick" else 40
    ufs = list(UF)
    k = 0
    for ndim in range(0, 5):
        axs = axis_args(ndim, rng, tier)
        for axis in axs:
            for keepdims in (False, True):
                for _r in range(rounds if ndim >= 2 else rounds * 3):
                    uf = ufs[k % len(ufs)]
                    k += 1
                    ext = (0, 1, 2, 3) if ndim <= 3 else (0, 1, 2, 2, 3)
                    shape = [rng.choice(ext) if rng.random() < 0.35 else rng.choice((2, 3)) for _ in range(ndim)]
                    axes = [a for a in norm_axes(axis, ndim)]
                    ncols = math.prod(shape[a] for a in axes)
                    if uf == "multiply" and ncols > 30:
                        uf = "add"
                    fill = rng.choice(FILLS[uf])
                    fmt = "gcxs" if (ndim >= 1 and rng.random() < 0.45) else "coo"
                    if rng.random() < 0.6:
                        spec = structured_spec(rng, shape, axes, fill, fmt, VALUES[uf])
                    else:
                        spec = vlib.gen_array_spec(rng, shape=shape, fills=(fill,), formats=(fmt,), values=VALUES[uf])
                    cases.append({"spec": spec, "uf": uf, "spelling": rng.choice(SPELLINGS[uf in METHOD]),
                                  "axis": axis, "keepdims": keepdims, "stream": "valid"})
        # malformed stream: out-of-range and repeated axes
        for axis in bad_axis_args(ndim, rng):
            for fmt in ("coo", "gcxs"):
                if fmt == "gcxs" and ndim == 0:
                    continue
                shape = [rng.choice((1, 2, 3)) for _ in range(ndim)]
                uf = rng.choice(["add", "maximum", "logical_or"])
                spec = vlib.gen_array_spec(rng, shape=shape, fills=(0,), formats=(fmt,), values=VALUES[uf])
                cases.append({"spec": spec, "uf": uf, "spelling": rng.choice(SPELLINGS[True]), "axis": axis,
                              "keepdims": rng.random() < 0.5, "stream": "malformed"})
    # every compressed-axes choice of GCXS on 3-d / 4-d arrays
    for ndim in (2, 3, 4):
        for kk in range(1, ndim):
            for caxes in itertools.combinations(range(ndim), kk):
                for _ in range(2 if tier == "quick" else 8):
                    shape = [rng.choice((1, 2, 3)) for _ in range(ndim)]
                    uf = rng.choice(ufs)
                    fill = rng.choice(FILLS[uf])
                    axis = rng.choice(axis_args(ndim, rng, tier))
                    if uf == "multiply" and math.prod(shape) > 30:
                        uf = "add"
                    spec = vlib.gen_array_spec(rng, shape=shape, fills=(fill,), formats=("gcxs",), values=VALUES[uf])
                    spec["caxes"] = list(caxes)
                    cases.append({"spec": spec, "uf": uf, "spelling": rng.choice(SPELLINGS[uf in METHOD]),
                                  "axis": axis, "keepdims": rng.random() < 0.5, "stream": "valid"})
    # narrow index dtypes, nnz around 127 / 255
    shapes = [(3, 200), (2, 127), (2, 128), (1, 255), (1, 256), (256,), (255,), (3, 64), (2, 64), (4, 50), (5, 60),
              (2, 2, 70), (130, 2)]
    for shape in shapes:
        for idt in ("int8", "uint8"):
            lim = 127 if idt == "int8" else 255
            if max(shape) - 1 > lim:
                continue
            for uf, fill in (("add", 0), ("add", 3), ("maximum", 0), ("minimum", 0)):
                for axis in ([len(shape) - 1], None, 0, [0], -1):
                    if tier == "quick" and rng.random() < 0.5:
                        continue
                    dens = rng.choice([1.0, 1.0, 0.9])
                    spec = vlib.gen_array_spec(rng, shape=list(shape), fills=(fill,), formats=("coo",), density=dens,
                                               values=(1, 2) if uf == "add" else (1, 2, 3))
                    cases.append({"spec": spec, "uf": uf, "spelling": "method", "axis": axis, "keepdims": False,
                                  "idx_dtype": idt, "stream": "narrow"})
    return cases


def kernel_cases(tier, rng):
    cases = []
    n = 150 if tier == "quick" else 4000
    for _ in range(n):
        gd = rng.choice(["int64", "int64", "int8", "uint8", "int16", "uint8"])
        L = rng.choice([0, 1, 2, 3, 5, 8, 13]) if gd in ("int64", "int16") else rng.choice([0, 1, 5, 126, 127, 128, 129, 200, 254, 255, 256, 257, 300])
        lim = {"int64": 10 ** 6, "int8": 127, "uint8": 255, "int16": 32767}[gd]
        ngroups = rng.randint(1, 6)
        gvals = sorted(rng.sample(range(0, min(lim, 40) + 1), min(ngroups, min(lim, 40) + 1)))
        groups = sorted(rng.choice(gvals) for _ in range(L))
        data = [rng.choice((-3, -1, 0, 1, 2, 4)) for _ in range(L)]
        cases.append({"groups": groups, "data": data, "gdtype": gd, "uf": rng.choice(list(UF))})
    return cases


DTYPES = ["bool", "uint8", "int8", "int16", "int32", "int64", "float32", "float64"]
DT_VALUES = {"bool": ((0, 1), (0, 1)), "uint8": ((1, 2, 3, 200), (0, 3)), "int8": ((-3, -1, 1, 2, 5), (0, 3, -1)),
             "int16": ((-300, -1, 1, 2, 500), (0, 3, -1)), "int32": ((-3, -1, 1, 2, 5), (0, 3, -1)),
             "int64": ((-3, -1, 1, 2, 5), (0, 3, -1)), "float32": ((-3, -1, 1, 2, 5), (0, 3, -1)),
             "float64": ((-3, -1, 1, 2, 5), (0, 3, -1))}


def dtype_spec(rng, shape, dt, fmt, density=None):
    vals, fills = DT_VALUES[dt]
    return vlib.gen_array_spec(rng, shape=shape, fills=(rng.choice(fills),), formats=(fmt,), values=vals, density=density)


def dtype_matrix_cases(tier, rng):
    """every data dtype x format x function on fixed small shapes, partial and full reductions: the result
    VALUES and the RESULT DTYPE must be NumPy's (dtype promotion of mean/var/std, sum/prod/any/all/min/max)"""
    cases = []
    shapes = [[3], [2, 3], [2, 3, 2]] if tier == "quick" else [[3], [1], [2, 3], [3, 1], [2, 3, 2], [2, 1, 3]]
    for dt in DTYPES:
        for fmt in ("coo", "gcxs"):
            for shape in shapes:
                nd = len(shape)
                axes = [None, 0, -1] + ([list(range(nd))[::-1], [nd - 1, 0][:nd]] if nd >= 2 else [])
                for axis in axes:
                    for kd in (False, True):
                        for fn in ("mean", "var", "std", "nanmean"):
                            if tier == "quick" and fn in ("var", "std") and rng.random() < 0.5:
                                continue
                            spl = rng.choice(("method", "func", "npfunc"))
                            # np.var(x, ddof=...) is not routed (sparse.var takes `correction`): a call-path matter (C17)
                            ddof = rng.choice((0, 0, 1)) if fn in ("var", "std") and spl != "npfunc" else 0
                            cases.append({"kind": fn, "in_dtype": dt, "spec": dtype_spec(rng, shape, dt, fmt),
                                          "axis": axis, "keepdims": kd, "ddof": ddof, "spelling": spl})
                        for uf in ("add", "multiply", "logical_or", "logical_and", "maximum", "minimum"):
                            if tier == "quick" and rng.random() < 0.5:
                                continue
                            vals_small = dt in ("uint8", "int8") and uf == "multiply"
                            sp = dtype_spec(rng, shape, dt, fmt)
                            if vals_small:
                                sp["data"] = [1 if v not in (0, 1) else v for v in sp["data"]]
                                sp["fill"] = 1 if sp["fill"] not in (0, 1) else sp["fill"]
                                sp["data"] = [2 if v == sp["fill"] else v for v in sp["data"]]
                            if uf.startswith("logical") and sp["fill"] not in (0, 1):
                                # any/all are expressible sparsely only for a fill that is its own truth value
                                sp["fill"] = 0
                                sp["data"] = [1 if v == 0 else v for v in sp["data"]]
                            cases.append({"kind": "dtype", "uf": uf, "in_dtype": dt, "req": None, "spec": sp, "axis": axis,
                                          "keepdims": kd, "spelling": rng.choice(SPELLINGS[True])})
    return cases


def diff_cases(tier, rng):
    cases = directed_wrap_cases() + dtype_matrix_cases(tier, rng)
    n = 1 if tier == "quick" else 8
    for ndim in range(0, 4):
        for axis in axis_args(ndim, rng, tier):
            for kd in (False, True):
                for _ in range(n):
                    shape = [rng.choice((1, 2, 3)) for _ in range(ndim)]
                    fmt = "gcxs" if ndim >= 1 and rng.random() < 0.4 else "coo"
                    mdt = rng.choice(DTYPES)
                    spec = dtype_spec(rng, shape, mdt, fmt)
                    kind = rng.choice(["mean", "var", "std"])
                    cases.append({"kind": kind, "in_dtype": mdt, "spec": spec, "axis": axis, "keepdims": kd,
                                  "ddof": rng.choice((0, 0, 1)) if kind != "mean" else 0,
                                  "spelling": rng.choice(("method", "func"))})
                    # nan-reductions (float data with NaN): zero fill as the code demands for nansum of NaN-free fill
                    spec2 = vlib.gen_array_spec(rng, shape=shape, fills=(0,), formats=(fmt,))
                    allpos = [list(p) for p in itertools.product(*[range(d) for d in shape])]
                    nanpos = [p for p in allpos if rng.random() < 0.25]
                    cases.append({"kind": "nan", "fn": rng.choice(["nansum", "nanprod", "nanmax", "nanmin", "nanmean"]),
                                  "in_dtype": rng.choice(["float64", "float64", "float32"]),
                                  "spec": spec2, "nanpos": nanpos, "axis": axis, "keepdims": kd})
                    uf = rng.choice(["add", "multiply", "maximum", "minimum"])
                    in_dt = rng.choice(DTYPES)
                    req = rng.choice([None, None, "float64", "int64", "float32", "int32"]) if uf in ("add", "multiply") else None
                    vals = (1, 2, 3) if in_dt != "bool" else (1,)
                    spec3 = vlib.gen_array_spec(rng, shape=shape, fills=(0,), formats=(fmt,), values=vals)
                    cases.append({"kind": "dtype", "uf": uf, "in_dtype": in_dt, "req": req, "spec": spec3, "axis": axis,
                                  "keepdims": kd, "spelling": rng.choice(SPELLINGS[True])})
                    # non-finite fill values (complete groups must not be "corrected")
                    uf4 = rng.choice(["add", "multiply", "maximum", "minimum"])
                    spec4 = vlib.gen_array_spec(rng, shape=shape, fills=(0,), formats=(fmt,), values=(1, 2, 3),
                                                density=rng.choice([0.5, 1.0, 1.0]))
                    cases.append({"kind": "inffill", "uf": uf4, "fillv": rng.choice(["inf", "-inf"]), "spec": spec4,
                                  "axis": axis, "keepdims": kd, "spelling": rng.choice(SPELLINGS[True])})
    return cases


# ------------------------------------------------------------------ Coq literals
def axis_lit(axis):
    if axis is None:
        return "AxNone"
    if isinstance(axis, int):
        return f"(AxInt {vZ(axis)})"
    return f"(AxTuple {vlist(axis)})"


def w_lit(gd):
    if gd in NARROW:
        b, s = NARROW[gd]
        return f"(Some ({b}, {vlib.vbool(s)}))"
    return "None"


def replay_line(c):
    sp = c["spec"]
    fmt = sp["format"]
    ax = _axis_py(c["axis"])
    mk = (f"import numpy as np, sparse; d=np.full({tuple(sp['shape'])!r},{sp['fill']},dtype='int64'); "
          + "".join(f"d[{tuple(p)!r}]={v}; " for p, v in zip(sp["coords"][:60], sp["data"][:60], strict=True))
          + f"x=sparse.COO.from_numpy(d,fill_value=np.int64({sp['fill']})); ")
    if c.get("idx_dtype"):
        mk += f"x=sparse.COO(x.coords.astype('{c['idx_dtype']}'),x.data,shape=x.shape,fill_value=x.fill_value); "
    if c.get("derive"):
        mk += f"x.enable_caching(); x={_derive_src(c['derive'])}; d=x.todense(); "
    if fmt == "gcxs":
        ca = sp.get("caxes")
        mk += "x=sparse.GCXS.from_coo(x" + (f",compressed_axes={tuple(ca)!r}" if ca is not None and len(sp['shape']) >= 2 else "") + "); "
    call = {"method": f"x.{METHOD.get(c['uf'], 'sum')}(axis={ax!r},keepdims={c['keepdims']})",
            "func": f"sparse.{METHOD.get(c['uf'], 'sum')}(x,axis={ax!r},keepdims={c['keepdims']})",
            "npfunc": f"np.{METHOD.get(c['uf'], 'sum')}(x,axis={ax!r},keepdims={c['keepdims']})",
            "ufunc": f"np.{c['uf']}.reduce(x,axis={ax!r},keepdims={c['keepdims']})",
            "reduce": f"x.reduce(np.{c['uf']},axis={ax!r},keepdims={c['keepdims']})"}[c["spelling"]]
    return (mk + f"\ntry: r={call}; print('sparse:', r.todense() if hasattr(r,'todense') else r)\n"
            f"except Exception as e: print('sparse raised', type(e).__name__, e)\n"
            f"try: print('numpy :', np.{c['uf']}.reduce(d,axis={ax!r},keepdims={c['keepdims']}))\n"
            f"except Exception as e: print('numpy raised', type(e).__name__, e)")


def diff_replay_line(c, name):
    sp = c["spec"]
    ax = _axis_py(c["axis"])
    fill = c.get("fillv", sp["fill"])
    mk = (f"import numpy as np, sparse; d=np.full({tuple(sp['shape'])!r},float('{fill}'),dtype='float64'); "
          + "".join(f"d[{tuple(p)!r}]={v}; " for p, v in zip(sp["coords"][:60], sp["data"][:60], strict=True))
          + "".join(f"d[{tuple(p)!r}]=np.nan; " for p in c.get("nanpos", []))
          + f"x=sparse.COO.from_numpy(d,fill_value=float('{fill}')); ")
    if c["kind"] in ("mean", "var", "std", "nanmean", "dtype") or (c["kind"] == "nan" and c.get("in_dtype")):
        dt = c.get("in_dtype", "int64")
        mk += f"d=d.astype('{dt}'); x=sparse.COO.from_numpy(d,fill_value=d.dtype.type({sp['fill']})); "
    if sp["format"] == "gcxs":
        mk += "x=sparse.GCXS.from_coo(x); "
    kw = f"axis={ax!r},keepdims={c['keepdims']}"
    if c["kind"] in ("mean", "var", "std"):
        kw2 = kw + (f",ddof={c['ddof']}" if c.get("ddof") else "")
        call, ref = f"x.{c['kind']}({kw2})", f"np.{c['kind']}(d,{kw2})"
    elif c["kind"] == "nanmean":
        call, ref = f"sparse.nanmean(x,{kw})", f"np.nanmean(d,{kw})"
    elif c["kind"] == "nan":
        call, ref = f"sparse.{c['fn']}(x,{kw})", f"np.{c['fn']}(d,{kw})"
    else:
        kw2 = kw + (f",dtype='{c['req']}'" if c.get("req") else "")
        call, ref = f"np.{c['uf']}.reduce(x,{kw2})", f"np.{c['uf']}.reduce(d,{kw2})"
    return (mk + f"\ntry: r={call}; r=r.todense() if hasattr(r,'todense') else np.asarray(r); print('sparse:', r.dtype, r.tolist())\n"
            f"except Exception as e: print('sparse raised', type(e).__name__, e)\n"
            f"try: e_=np.asarray({ref}); print('numpy :', e_.dtype, e_.tolist())\nexcept Exception as e: print('numpy raised', type(e).__name__, e)")


# ------------------------------------------------------------------ campaign
def campaign(build, tier, seed, report, budget=1):
    import time
    rng = random.Random(seed)
    viol = []
    cov = report["coverage"]
    tags = {}
    t0 = time.time()
    timing = {}

    def tag(k, n=1):
        tags[k] = tags.get(k, 0) + n

    # ---- API level
    cases = api_cases(tier, rng) + derived_cases(tier, rng)
    if budget > 1:
        cases += api_cases(tier, random.Random(seed + 1))
    kc = kernel_cases(tier, rng)
    dc = diff_cases(tier, rng)
    for c in cases:
        c["stream_kind"] = "api"
    for c in kc:
        c["stream_kind"] = "kernel"
    for c in dc:
        c["stream_kind"] = "diff"
    allres = vlib.run_impl("props.c03", "impl_any", cases + kc + dc, workers=6, per_case_timeout=60.0)
    res = allres[:len(cases)]
    kres = allres[len(cases):len(cases) + len(kc)]
    dres = allres[len(cases) + len(kc):]
    timing["impl_all"] = round(time.time() - t0, 1)
    lits, kern = [], []
    iplits, ipinfo = [], []
    for c, r in zip(cases, res, strict=True):
        ip = r.get("ip") if isinstance(r, dict) else None
        if ip and "x" in ip:
            iplits.append(vpair(vZ(UF[c["uf"]]), vlib.sarr_lit(ip["x"]),
                                vpair(vlist(ip["data"]), vlist(ip["counts"]), vlist(ip["rowids"]), vZ(ip["ncols"]))))
            ipinfo.append((c, ip))
        out = r.get("out") if isinstance(r, dict) and "out" in r else r
        sp = c["spec"]
        inp = vlib.sarr_lit(r["inp"]) if isinstance(r, dict) and r.get("inp") else f"(SCoo {vlib.spec_coo_lit(sp)})"
        gd = None
        for call in (r.get("calls") or []) if isinstance(r, dict) else []:
            gd = call["gdtype"]
            if "groups" in call:
                kern.append(call)
        if sp["format"] != "coo":
            gd = None
        npout = r.get("np") if isinstance(r, dict) and "np" in r else {"k": "other"}
        lits.append(vpair(vZ(UF[c["uf"]]), inp, axis_lit(c["axis"]), vlib.vbool(c["keepdims"]),
                          vlib.sarr_lit(out), vlib.sarr_lit(npout)))
        # python-side tags
        ndim = len(sp["shape"])
        tag(f"fmt/{sp['format']}")
        tag(f"ndim/{ndim}")
        tag(f"uf/{c['uf']}")
        tag(f"spelling/{c['spelling']}")
        tag(f"stream/{c['stream']}")
        tag("keepdims/" + str(c["keepdims"]))
        tag("fill/" + ("zero" if sp["fill"] == 0 else "nonzero"))
        tag("axis/" + ("None" if c["axis"] is None else "int" if isinstance(c["axis"], int) else
                       "empty" if not c["axis"] else "tuple_neg" if any(a < 0 for a in c["axis"]) else "tuple"))
        if 0 in sp["shape"]:
            tag("extent/zero")
        if 1 in sp["shape"]:
            tag("extent/one")
        if c.get("derive"):
            tag("derived/" + c["derive"]["op"])
        if c["stream"] not in ("malformed", "derived"):
            for kname, v in group_kinds(sp, c["axis"]).items():
                if v:
                    tag("groups/" + kname, v)
        outk = out.get("k") if isinstance(out, dict) else "hang"
        tag("impl/" + (out.get("exc") if outk == "exc" else str(outk)))
    imp = "From Verif Require Import Py PyExt PyReduce Shape COO GCXS SArr NpReduce Reduce C03Judge."
    # one pass: verdict code in the last two digits, branch tag above
    both = build.judge("c03_api", imp, "rcase", "fun c => 1000000 + 100 * (tag_reduce c + 1) + judge_reduce c", lits,
                       chunk=120, timeout=600)
    timing["coq_api"] = round(time.time() - t0, 1)
    assert len(both) == len(lits), (len(both), len(lits))
    bad = [(i, v % 100) for i, v in both if v % 100]
    pathn = {0: "coo", 1: "gcxs_flatten", 2: "gcxs_recompress"}
    for _i, v in both:
        t = (v - 1000000) // 100 - 1
        if t < 0:
            tag("model/bad_input")
            continue
        tag(f"model/path={pathn.get(t // 10)}/{'super' if t % 10 else 'plain'}")
    for i, code in bad:
        c, r = cases[i], res[i]
        kind = {1: "representation", 9: "representation", 10: "representation"}.get(code, "value")
        what = {1: "implementation agrees with the Spec but not with the model's representation",
                2: "implementation differs from NumPy semantics inside the proved domain",
                6: "result is not in canonical / pruned form",
                8: "inadmissible reduction did not raise ValueError",
                9: "malformed input literal (generator / constructor)",
                10: "Spec/NpReduce.v differs from NumPy"}.get(code, "implementation differs from NumPy semantics (outside the proved domain)")
        viol.append({"property": "C03", "op": "reduce", "ufunc": c["uf"], "kind": kind, "clause": None,
                     "format": c["spec"]["format"], "code": code, "what": what, "case": c,
                     "impl": r.get("out") if isinstance(r, dict) else r,
                     "numpy": r.get("np") if isinstance(r, dict) else None, "replay_py": replay_line(c)})

    # ---- kernel level
    klits, kinfo = [], []
    for c, r in zip(kc, kres, strict=True):
        if "out" not in r:
            continue
        kinfo.append(("direct", c, r["out"]))
    seen = set()
    for call in kern:
        key = (call["gdtype"], tuple(call["groups"]), tuple(call["data"]), call["uf"])
        if key in seen:
            continue
        seen.add(key)
        kinfo.append(("captured", {"groups": call["groups"], "data": call["data"], "gdtype": call["gdtype"],
                                   "uf": call["uf"]}, call["out"]))
    for _src, c, out in kinfo:
        o = "None" if out is None else f"(Some ({vlist(out[0])}, {vlist(out[1])}, {vlist(out[2])}))"
        klits.append(vpair(vlist(c["groups"]), vlist(c["data"]), vZ(UF[c["uf"]]), o))
    kbad = build.judge("c03_kernel", imp, "kcase", "judge_kernel", klits, chunk=300, timeout=600)
    for i, code in kbad:
        src, c, out = kinfo[i]
        viol.append({"property": "C03", "op": "kernel:_grouped_reduce", "kind": "representation", "clause": None,
                     "code": code, "what": {1: "_calc_counts_invidx differs from the model", 2: "reduceat differs from the model",
                                            3: "exception behaviour differs"}[code],
                     "case": c, "impl": out, "source": src,
                     "replay_py": f"import numpy as np; from sparse.numba_backend._coo.core import _grouped_reduce; "
                                  f"print(_grouped_reduce(np.array({c['data']},dtype='int64'), np.array({c['groups']},dtype='{c['gdtype']}'), np.{c['uf']}))"})
    ipbad = build.judge("c03_ip", imp, "ipcase", "judge_ip", iplits, chunk=300, timeout=600)
    for i, code in ipbad:
        c, ip = ipinfo[i]
        viol.append({"property": "C03", "op": "kernel:GCXS._reduce_calc", "kind": "representation", "clause": None,
                     "code": code, "what": "the index-pointer arithmetic of GCXS._reduce_calc differs from Model/ReduceGcxs.v",
                     "case": c, "impl": ip, "replay_py": replay_line(c)})
    tag("kernel/gcxs_reduce_calc", len(iplits))
    cov["kernel_gcxs_cases"] = len(iplits)
    tag("kernel/direct", sum(1 for k in kinfo if k[0] == "direct"))
    tag("kernel/captured", sum(1 for k in kinfo if k[0] == "captured"))
    tag("kernel/narrow_dtype", sum(1 for k in kinfo if k[1]["gdtype"] in NARROW))

    timing["kernel"] = round(time.time() - t0, 1)
    # ---- differential only
    dcount = {}
    for c, r in zip(dc, dres, strict=True):
        name = c["kind"] if c["kind"] != "nan" else c["fn"]
        if "in_dtype" in c:
            tag(f"diff_dtype/{c['in_dtype']}/{name if c['kind'] != 'dtype' else c['uf']}")
        if c["kind"] == "inffill":
            name = "inf_fill:" + c["uf"]
        dcount[name] = dcount.get(name, 0) + 1
        badl = r.get("bad") if isinstance(r, dict) and "bad" in r else [f"harness: {r}"]
        if badl:
            ax = _axis_py(c["axis"])
            viol.append({"property": "C03", "op": "reduce_differential", "function": name, "kind": "value",
                         "clause": (r.get("clause") if isinstance(r, dict) else None),
                         "in_dtype": c.get("in_dtype"),
                         "format": c["spec"]["format"], "what": "; ".join(badl)[:400], "case": c, "impl": badl,
                         "replay_py": diff_replay_line(c, name)})

    distinct = len({json.dumps([c["spec"]["shape"], c["spec"]["coords"], c["spec"]["data"], c["spec"]["fill"], c["spec"]["format"],
                                c["spec"].get("caxes"), c["uf"], c["axis"], c["keepdims"], c.get("idx_dtype")]) for c in cases
                    if c["spec"]["coords"]})
    timing["diff"] = round(time.time() - t0, 1)
    cov["timing_cumulative_s"] = timing
    cov["unproved_statements"] = UNPROVED
    cov["evaluations"] = len(cases) + len(klits) + len(dc)
    cov["distinct_nontrivial"] = distinct
    cov["api_cases"] = len(cases)
    cov["kernel_cases"] = len(klits)
    cov["differential_only"] = {"cases": len(dc), "by_function": dcount,
                                "note": "mean/var/std/nanmean and sum/prod/any/all/min/max over all data dtypes (values and result "
                                        "dtype vs NumPy, exact rationals for mean/var/std); nan-reductions on float32/64 data with "
                                        "NaN; dtype= requests; inf fills; compared in Python, not in Coq"}
    cov["rule"] = ("exhaustive over ordered axis subsets (and negative spellings, None, ints) of 0..4-d shapes x keepdims, "
                   "with seeded choice of ufunc, spelling, format (COO/GCXS, every compressed-axes subset in a separate sweep), "
                   "fill, extents {0,1,2,3} and a row-structured pattern (absent/deficient/complete groups); a malformed-axis "
                   "stream; narrow index dtypes; distinct = distinct (array, ufunc, axis, keepdims, idx dtype) with nnz > 0")
    cov["samples"] = [dict(case=cases[i], impl=res[i].get("out") if isinstance(res[i], dict) else res[i])
                      for i in (0, len(cases) // 3, 2 * len(cases) // 3, len(cases) - 1)]
    cov["branch_tags"] = dict(sorted(tags.items()))
    return viol


def replay(path):
    v = json.load(open(path))
    print(json.dumps({k: v[k] for k in v if k != "replay_py"}, indent=1, default=str)[:3000])
    if "replay_py" in v:
        import subprocess
        p = subprocess.run([vlib.PY, "-c", v["replay_py"]], env=vlib.env_clean(), capture_output=True, text=True,
                           timeout=120)
        print(p.stdout, p.stderr[-500:])
    return 0
