"""C11 — operations never modify their operands; caching is unobservable.

Campaign part 1 (cache): random call histories (transpose / .T / reshape / tocsr / tocsc / dot, on the
cache-enabled root AND on the cache-enabled objects it returned) executed on a cache-enabled COO and
on a twin without caching.  The Coq judge (Corr/C11Judge.v) runs Model/Cache.v — instantiated with
the protocol shape and maxlen regenerated from the AST (Gen/S_cache.v) — on the same history and
compares: exception class and result shape of every call, WHICH earlier call returned the identical
object (`is`), the keys left in every object's deques and its _csr/_csc memo, and that every cached
result equals the uncached twin's (shape, fill, coords, data / indptr, indices, data).

The histories also contain copies of cache-enabled arrays — COO(x) (shares x's memo), COO(x, fill_value=v)
(a fresh memo: the site whose absence was the defect repaired by d7a2c41; inherits _csr/_csc behind the
fill-value guard), x.copy() / x.copy(deep=False) (through __setstate__: no cache), astype(copy=False) /
asformat("coo") (return self) — and directed scenarios around them.

Campaign part 1b (free-form twins): sequences over a much wider operation set (sort, argmax/argmin, reductions,
out= updates followed by enable_caching(), element-wise, indexing, conversions, copies ...) executed on a
cache-enabled array and on a twin without caching with identical decisions; every step's outcome (exception
class or value digest) must agree.  No model prediction there: it is the property itself, judged in Coq.

Campaign part 2 (operands): a broad list of public operations x formats (COO, GCXS with various
compressed axes, DOK) x random small operands, including operands that share buffers with each other
(x and x.T, reshape/squeeze views, GCXS 2-d transposes, COO built on caller-owned arrays).  Every
operand's buffers (bytes), shape, dtype, fill value and array flags are digested before and after the
call; the digests are compared inside Coq.
"""
import hashlib
import json
import os
import random

import vlib
from vlib import vZ, vbool, vlist, vopt, vpair

LEVEL = "proof"
TRUSTED_BASE = [
    "Coq 8.16.1 kernel + vm_compute (obligation over the generated summary table, protocol-shape tests, case "
    "evaluation); no native_compute",
    "axioms: none (Print Assumptions: Closed under the global context for every C11 theorem)",
    "tools/sitegen/alias.py: (a) the extractor of the memo protocol of COO.transpose/reshape/tocsr/tocsc/"
    "enable_caching (structural match of lookup loop, store call, key expressions, dependency closure of the stored "
    "result); (b) the intraprocedural binding analysis producing the effect summaries, INCLUDING its classification "
    "tables of NumPy/builtin calls, methods and attributes as fresh / view / unknown->alias, the rule that advanced "
    "indexing copies, that item assignment into a value not known to be a Python container copies values, and the "
    "rule that the operations are the functions of numba_backend.__all__ plus the public/dunder methods of "
    "SparseArray subclasses (other functions are helpers whose parameter writes are re-emitted at call sites). "
    "Writes performed inside package functions OUTSIDE the five anchored files (e.g. _umath.elemwise) are not "
    "propagated to their callers (counted in the report); they are covered by the operand-snapshot campaign only",
    "Model/Cache.v as a transcription of the memo code (deque semantics of collections.deque(maxlen), attribute "
    "memo of tocsr/tocsc, the copy constructor sharing or resetting the cache cell as the generated copy site says, "
    "copy()/deepcopy going through __setstate__ which disables caching); the pre-lookup phases of transpose/reshape in Corr/C11Judge.v (axis normalisation, -1 "
    "inference) are validated by correspondence only",
    "cache_transparent's hypothesis mk_csr (refill v f) = mk_csr v: COO._tocsr builds the scipy matrix from coords "
    "and data only (validated by the copy-with-fill histories: an inherited _csr/_csc is served only behind "
    "check_zero_fill_value)",
    "the theorem cache_transparent assumes the memoised computations are pure functions of the receiver's value "
    "and of the key (nobody mutates a cached object: part 2 of this property, and the docstring of enable_caching)",
    "correspondence harness tools/props/c11.py, tools/vlib.py; equality of results is equality of the bytes of "
    "shape/dtype/fill/coords/data (integer-valued data)",
]
ASSUMPTIONS = [
    "DOK item assignment and explicit out= targets are exempt by the property's own wording",
    "memo fields (_cache, _csr, _csc) are not part of an operand's observable value",
    "cached scipy matrices are shared objects: a caller mutating a returned csr/csc (or a returned COO's arrays) "
    "defeats the memo, as enable_caching documents",
]

EXC_CODE = {"ValueError": 1, "AxisError": 1, "NotImplementedError": 2, "OverflowError": 3}


def run_guarded(fn, cases, workers, per_case_timeout, batch=120):
    """vlib.run_impl in batches, each under a deadline: a worker that dies between taking a case and
    announcing it (segfault in a nopython kernel) would otherwise block the pool for ever.  Cases of a
    batch that does not return are reported as {'lost': True}."""
    import threading
    out = []
    for k in range(0, len(cases), batch):
        chunk = cases[k:k + batch]
        box = {}

        def work(chunk=chunk, box=box):
            box["res"] = vlib.run_impl("props.c11", fn, chunk, workers=workers, per_case_timeout=per_case_timeout)
        th = threading.Thread(target=work, daemon=True)
        th.start()
        th.join(900.0 + 3.0 * len(chunk))      # generous: a loaded machine must not look like a lost batch
        out.extend(box.get("res") or [{"lost": True} for _ in chunk])
    return out


# ====================================================================== part 1: histories
def _digest(*parts):
    h = hashlib.sha256()
    for p in parts:
        h.update(repr(p).encode() if not isinstance(p, (bytes, bytearray)) else bytes(p))
        h.update(b"|")
    return int.from_bytes(h.digest()[:7], "big")


def _value_id(o):
    import numpy as np
    import scipy.sparse as ss
    import sparse
    if isinstance(o, sparse.COO):
        return _digest("coo", tuple(int(s) for s in o.shape), str(o.dtype), np.asarray(o.fill_value).tobytes(),
                       np.ascontiguousarray(o.coords.astype(np.int64)).tobytes(),
                       np.ascontiguousarray(o.data).tobytes())
    if isinstance(o, sparse.GCXS):
        return _digest("gcxs", tuple(o.shape), str(o.dtype), np.asarray(o.fill_value).tobytes(), o.compressed_axes,
                       np.ascontiguousarray(o.indices.astype(np.int64)).tobytes(),
                       np.ascontiguousarray(o.indptr.astype(np.int64)).tobytes(), np.ascontiguousarray(o.data).tobytes())
    if ss.issparse(o):
        return _digest(o.format, tuple(o.shape), str(o.dtype), np.ascontiguousarray(o.indptr.astype(np.int64)).tobytes(),
                       np.ascontiguousarray(o.indices.astype(np.int64)).tobytes(),
                       np.ascontiguousarray(o.data).tobytes())
    a = np.asarray(o)
    return _digest("nd", a.shape, str(a.dtype), np.ascontiguousarray(a).tobytes())


def _mk_root(case, cache):
    import numpy as np
    import sparse
    rng = np.random.default_rng(case["seed"])
    shape = tuple(case["shape"])
    size = int(np.prod(shape)) if shape else 1
    dense = np.zeros(size, dtype=np.int64) + case["fill"]
    k = min(size, case["nnz"])
    if k:
        pos = rng.choice(size, size=k, replace=False)
        dense[pos] = rng.integers(1, 9, size=k) + (10 if case["fill"] else 0)
        if case.get("neg"):
            dense[pos] = -dense[pos]
    x = sparse.COO.from_numpy(dense.reshape(shape), fill_value=case["fill"])
    if cache:
        x.enable_caching()
    return x


def _operand(shape, sparse_fmt, seed):
    import numpy as np
    import sparse
    rng = np.random.default_rng(seed)
    a = rng.integers(0, 3, size=tuple(shape)).astype(np.int64)
    return sparse.COO.from_numpy(a) if sparse_fmt else a


def _run_history(case, cache):
    import numpy as np
    import sparse
    x = _mk_root(case, cache)
    res = []        # per user-level op: ("ok", obj) | ("exc", name) | ("skip",)
    for op in case["uops"]:
        kind, tgt = op[0], op[1]
        if tgt < 0:
            t = x
        else:
            r = res[tgt]
            if r[0] != "ok":
                res.append(("skip",))
                continue
            t = r[1]
        try:
            if kind == "tr":
                o = t.transpose(None if op[2] is None else tuple(op[2]))
            elif kind == "T":
                o = t.T
            elif kind == "rs":
                o = t.reshape(tuple(op[2])) if op[3] == "C" else t.reshape(tuple(op[2]), order=op[3])
            elif kind == "csr":
                o = t.tocsr()
            elif kind == "csc":
                o = t.tocsc()
            elif kind == "cp":            # the copy constructor, with or without a new fill value
                o = sparse.COO(t) if op[2] is None else sparse.COO(t, fill_value=op[2])
            elif kind == "shcp":
                o = t.copy(deep=False)
            elif kind == "dcp":
                o = t.copy()
            elif kind == "same_astype":
                o = t.astype(t.dtype, copy=False)
            elif kind == "same_asformat":
                o = t.asformat("coo")
            elif kind in ("dotl", "dotr"):
                # tensordot first calls t.transpose(..).reshape(..) — through t's memo.  Make the same calls
                # here first (the ones inside dot are then hits, or recomputations without caching) and never
                # feed a nopython kernel an array that is not the planned one: a wrong object coming out of the
                # memo would make the kernel read out of bounds.
                sh = op[5]
                b = _operand(op[2], op[3], op[4])
                if not (len(sh) == 1 and b.ndim == 1):
                    if kind == "dotl":
                        pre, want = t.reshape((-1, sh[-1])), [_prod(sh[:-1]), sh[-1]]
                    elif len(sh) <= 2:
                        pre, want = t.reshape((sh[0], -1)), [sh[0], _prod(sh[1:])]
                    else:
                        n = len(sh)
                        pre = t.transpose([n - 2] + [a for a in range(n) if a != n - 2]).reshape((sh[n - 2], -1))
                        want = [sh[n - 2], _prod(sh) // sh[n - 2]]
                    ok = ([int(d) for d in t.shape] == sh and [int(d) for d in pre.shape] == want
                          and pre.coords.shape == (2, pre.nnz) and pre.data.shape == (pre.nnz,)
                          and (pre.nnz == 0 or (pre.coords.max(axis=1) < np.array(want)).all()))
                    if not ok:
                        raise RuntimeError("the memo returned an array that is not the planned one")
                o = sparse.dot(t, b) if kind == "dotl" else sparse.dot(b, t)
            else:
                raise AssertionError(kind)
            res.append(("ok", o))
        except Exception as ex:  # noqa: BLE001
            res.append(("exc", type(ex).__name__))
    return x, res


def impl_hist(case):
    import sparse
    out = {}
    for mode, cache in (("c", True), ("u", False)):
        x, res = _run_history(case, cache)
        obs = []
        for i, r in enumerate(res):
            if r[0] == "skip":
                obs.append([-1, [], 0, 0])
            elif r[0] == "exc":
                obs.append([EXC_CODE.get(r[1], 9), [], 0, 0, r[1]])
            else:
                o = r[1]
                if o is x:
                    ident = -1
                else:
                    ident = next(j for j in range(i + 1) if res[j][0] == "ok" and res[j][1] is o)
                obs.append([0, [int(s) for s in getattr(o, "shape", ())], ident, _value_id(o)])
        out[mode] = obs
        if cache:
            fins = []
            seen = set()
            objs = [(-1, x)] + [(i, r[1]) for i, r in enumerate(res) if r[0] == "ok"]
            for i, o in objs:
                if id(o) in seen or not isinstance(o, sparse.COO) or case["uops"][i][0].startswith("dot") if i >= 0 else False:
                    continue
                seen.add(id(o))
                if o._cache is None:
                    fins.append([i, False, [], [], hasattr(o, "_csr"), hasattr(o, "_csc")])
                    continue
                fins.append([i, True, [[int(a) for a in k] for k, _v in o._cache["transpose"]],
                             [[int(a) for a in k] for k, _v in o._cache["reshape"]],
                             hasattr(o, "_csr"), hasattr(o, "_csc")])
            out["fins"] = fins
    return out


# ---- generator (parent process): tracks predicted shapes so that most calls are valid
def _prod(xs):
    p = 1
    for v in xs:
        p *= v
    return p


def _pred_transpose(shape, axes):
    nd = len(shape)
    ax = list(range(nd))[::-1] if axes is None else list(axes)
    norm = []
    for a in ax:
        a2 = a + nd if a < 0 else a
        if a2 >= nd or a2 < 0:
            return None
        norm.append(a2)
    if len(set(norm)) < len(norm) or len(norm) != nd:
        return None
    return [shape[a] for a in norm]


def _pred_reshape(shape, arg, order):
    if order not in ("C", None):
        return None
    if list(arg) == list(shape):
        return list(shape)
    size = _prod(shape)
    sh = list(arg)
    if any(d == -1 for d in sh):
        p = _prod([d for d in sh if d != -1])
        if p == 0 or size % p != 0:
            return None
        extra = size // p
        sh = [d if d != -1 else extra for d in sh]
    if size != _prod(sh):
        return None
    return sh


def _factorizations(n, rng):
    """a random shape of 1..3 extents with product n"""
    if n == 0:
        k = rng.randint(1, 3)
        sh = [rng.choice([1, 2, 3]) for _ in range(k)]
        sh[rng.randrange(k)] = 0
        return sh
    k = rng.randint(1, 3)
    sh = []
    rest = n
    for _ in range(k - 1):
        divs = [d for d in range(1, rest + 1) if rest % d == 0]
        d = rng.choice(divs)
        sh.append(d)
        rest //= d
    sh.append(rest)
    rng.shuffle(sh)
    return sh


class HistoryBuilder:
    """builds a user-level history and its expansion into model calls (a dot expands into the hidden
    transpose/reshape calls tensordot makes), tracking the predicted shape and fill value of every COO object"""

    def __init__(self, shape, fill, seed, nnz):
        self.case = {"shape": list(shape), "fill": fill, "seed": seed, "nnz": nnz, "uops": []}
        self.targets = [(-1, -1, list(shape), fill)]      # (user index, expanded index, shape, fill) of COO objects
        self.xops, self.u2x, self.tags = [], [], {}

    def tag(self, t):
        self.tags[t] = self.tags.get(t, 0) + 1

    def _visible(self, uop, xop, out_shape, fill, kind):
        ui = len(self.case["uops"])
        self.case["uops"].append(uop)
        self.xops.append(xop)
        self.u2x.append(len(self.xops) - 1)
        self.tag(kind)
        if out_shape is not None:
            self.targets.append((ui, len(self.xops) - 1, list(out_shape), fill))
            return len(self.targets) - 1
        self.tag("error-or-matrix")
        return None

    # every method takes the index (into self.targets) of the object the call is made on
    def transpose(self, ti, axes):
        tu, tx, sh, fl = self.targets[ti]
        return self._visible(["tr", tu, axes], [tx, 0, axes, True, True], _pred_transpose(sh, axes), fl, "tr")

    def T(self, ti):
        tu, tx, sh, fl = self.targets[ti]
        return self._visible(["T", tu], [tx, 0, None, True, True], _pred_transpose(sh, None), fl, "T")

    def reshape(self, ti, arg, order="C"):
        tu, tx, sh, fl = self.targets[ti]
        return self._visible(["rs", tu, list(arg), order], [tx, 1, list(arg), order == "C", True],
                             _pred_reshape(sh, arg, order), fl, "rs")

    def tocsr(self, ti):
        tu, tx, sh, fl = self.targets[ti]
        return self._visible(["csr", tu], [tx, 2, None, True, True], None, fl, "csr")

    def tocsc(self, ti):
        tu, tx, sh, fl = self.targets[ti]
        return self._visible(["csc", tu], [tx, 3, None, True, True], None, fl, "csc")

    def copy(self, ti, fill=None):
        tu, tx, sh, fl = self.targets[ti]
        return self._visible(["cp", tu, fill], [tx, 4, None if fill is None else [fill], True, True], sh,
                             fl if fill is None else fill, "COO(x)" if fill is None else "COO(x, fill_value=v)")

    def shallow(self, ti):
        tu, tx, sh, fl = self.targets[ti]
        return self._visible(["shcp", tu], [tx, 5, None, True, True], sh, fl, "x.copy(deep=False)")

    def deep(self, ti):
        tu, tx, sh, fl = self.targets[ti]
        return self._visible(["dcp", tu], [tx, 5, None, True, True], sh, fl, "x.copy()")

    def same(self, ti, how):
        tu, tx, sh, fl = self.targets[ti]
        return self._visible(["same_" + how, tu], [tx, 6, None, True, True], sh, fl, "return-self " + how)

    def dot_ok(self, ti):
        _tu, _tx, sh, fl = self.targets[ti]
        return fl == 0 and 0 not in sh and len(sh) >= 1

    def dotl(self, ti, bshape, bsparse, seed):
        # tensordot(a=t, b): t.transpose(identity) is `return self`; then t.reshape((-1, N2)) goes through
        # t's reshape memo — unless both are 1-d (no reshape at all)
        tu, tx, sh, _fl = self.targets[ti]
        self.case["uops"].append(["dotl", tu, list(bshape), bsparse, seed, list(sh)])
        self.u2x.append(None)
        if not (len(sh) == 1 and len(bshape) == 1):
            self.xops.append([tx, 1, [-1, sh[-1]], True, False])
            self.tag("dot-hidden-reshape")
        self.tag("dotl")

    def dotr(self, ti, ashape, asparse, seed):
        # tensordot(a, b=t): t.transpose([axis] + rest) (identity for ndim <= 2), then .reshape((K, -1)) on
        # what that returned — for ndim >= 3 a derived object with its own memo
        tu, tx, sh, _fl = self.targets[ti]
        nd = len(sh)
        k = sh[-2] if nd >= 2 else sh[0]
        self.case["uops"].append(["dotr", tu, list(ashape), asparse, seed, list(sh)])
        self.u2x.append(None)
        if nd <= 2:
            self.xops.append([tx, 1, [k, -1], True, False])
            self.tag("dot-hidden-reshape")
        else:
            self.xops.append([tx, 0, [nd - 2] + [a for a in range(nd) if a != nd - 2], True, False])
            self.xops.append([len(self.xops) - 1, 1, [k, -1], True, False])
            self.tag("dot-hidden-transpose")
        self.tag("dotr")

    def result(self):
        return self.case, self.xops, self.u2x, self.tags


def gen_history(rng, maxlen):
    nd = rng.choice([1, 2, 2, 2, 2, 3, 3, 3, 4])
    shape = [rng.choice([1, 2, 2, 3, 3, 4, 5]) for _ in range(nd)]
    if rng.random() < 0.06:
        shape[rng.randrange(nd)] = 0
    fill = 0 if rng.random() < 0.85 else 3
    n = rng.randint(max(1, maxlen // 3), maxlen)
    hb = HistoryBuilder(shape, fill, rng.randrange(1 << 30), rng.choice([0, 1, 3, 6, 10]))
    pools = {}
    live = [0]          # indices into hb.targets that the generator still uses
    for _ in range(n):
        ti = rng.choice(live[1:]) if (len(live) > 1 and rng.random() < 0.4) else 0
        _tu, _tx, tshape, _tfill = hb.targets[ti]
        nd_t = len(tshape)
        kind = rng.choices(["tr", "T", "rs", "csr", "csc", "dotl", "dotr", "cp", "cpfill", "shcp", "dcp", "same"],
                           [26, 7, 26, 8, 8, 6, 6, 4, 6, 2, 4, 2])[0]
        if kind in ("dotl", "dotr") and not hb.dot_ok(ti):
            kind = "rs"
        pool = pools.setdefault((ti, kind), [])
        if rng.random() < 0.35:              # re-use an argument first used on ANOTHER object of the same rank/size
            pool = pools.setdefault(("rank", nd_t, _prod(tshape), kind), pool) or pool
        new = None
        if kind == "tr":
            if pool and rng.random() < 0.6:
                axes = rng.choice(pool)
            else:
                r = rng.random()
                if r < 0.08:
                    axes = None
                else:
                    axes = list(range(nd_t))
                    rng.shuffle(axes)
                    axes = [a - nd_t if rng.random() < 0.3 else a for a in axes]
                    if r > 0.93 and nd_t:
                        bad = rng.choice(["dup", "len", "oob"])
                        if bad == "dup":
                            axes[0] = axes[-1]
                        elif bad == "len":
                            axes = axes[:-1]
                        else:
                            axes[0] = nd_t
                pool.append(axes)
                pools.setdefault(("rank", nd_t, _prod(tshape), kind), []).append(axes)
            new = hb.transpose(ti, axes)
        elif kind == "T":
            new = hb.T(ti)
        elif kind == "rs":
            if pool and rng.random() < 0.6:
                arg, order = rng.choice(pool)
            else:
                arg = _factorizations(_prod(tshape), rng)
                r = rng.random()
                if r < 0.25 and arg:
                    arg[rng.randrange(len(arg))] = -1
                    if r < 0.02 and len(arg) > 1:
                        arg[rng.randrange(len(arg))] = -1        # possibly two -1: ValueError
                elif r > 0.95:
                    arg[0] = arg[0] + 1
                order = "F" if rng.random() < 0.03 else "C"
                pool.append((arg, order))
                pools.setdefault(("rank", nd_t, _prod(tshape), kind), []).append((arg, order))
            new = hb.reshape(ti, arg, order)
        elif kind == "csr":
            hb.tocsr(ti)
        elif kind == "csc":
            hb.tocsc(ti)
        elif kind == "cp":
            new = hb.copy(ti)
        elif kind == "cpfill":
            new = hb.copy(ti, rng.choice([0, 0, 5, 7, 3]))
        elif kind == "shcp":
            new = hb.shallow(ti)
        elif kind == "dcp":
            new = hb.deep(ti)
        elif kind == "same":
            new = hb.same(ti, rng.choice(["astype", "asformat"]))
        elif kind == "dotl":
            n2 = tshape[-1]
            hb.dotl(ti, [n2] if rng.random() < 0.3 else [n2, rng.choice([1, 2])], rng.random() < 0.4, rng.randrange(1 << 30))
        else:
            k = tshape[-2] if nd_t >= 2 else tshape[0]
            ashape = [rng.choice([1, 2]), k] if (nd_t == 1 or rng.random() < 0.7) else [k]
            hb.dotr(ti, ashape, rng.random() < 0.4, rng.randrange(1 << 30))
        if new is not None:
            live.append(new)
            if len(live) > 12:
                live.pop(1 + rng.randrange(len(live) - 1))
    return hb.result()


def scenario_histories():
    """directed histories: the interplay of copies with the memo (the defect repaired by d7a2c41: a copy with
    another fill value answered from the original's memo), inherited _csr/_csc attributes behind the fill-value
    guard, shared memo of plain copies with evictions through the copy, deep copies"""
    out = []
    for shape, perm, rs in (([2, 3], [1, 0], [3, 2]), ([2, 3, 2], [2, 0, 1], [4, 3]), ([4], None, [2, 2]),
                            ([3, 3], [-1, 0], [9])):
        for fill0, fill1 in ((0, 7), (0, 0), (3, 0), (3, 5)):
            hb = HistoryBuilder(shape, fill0, 12345 + len(out), 4)
            hb.T(0)
            hb.transpose(0, perm)
            hb.reshape(0, rs)
            y = hb.copy(0, fill1)            # must not see the three memoised results
            hb.T(y)
            hb.transpose(y, perm)
            hb.reshape(y, rs)
            z = hb.copy(0)                   # shares the memo
            hb.T(z)
            hb.reshape(z, rs)
            hb.reshape(z, [-1])
            hb.reshape(0, [-1])              # answered by what z stored
            w = hb.copy(y, fill0)
            hb.T(w)
            hb.T(0)
            out.append(hb.result())
    for fill1 in (5, 0, 7):                  # inherited _csr/_csc: the guard must still speak for the copy
        hb = HistoryBuilder([3, 2], 0, 777 + fill1, 4)
        hb.tocsr(0)
        hb.tocsc(0)
        y = hb.copy(0, fill1)
        hb.tocsc(y)
        hb.tocsr(y)
        hb.T(y)
        z = hb.copy(y, 0)
        hb.tocsc(z)
        hb.tocsr(z)
        d = hb.deep(0)
        hb.tocsc(d)
        hb.tocsr(d)
        out.append(hb.result())
    for shape in ([2, 3, 4], [2, 1, 3, 2], [3, 2]):       # the same (non-involutive) permutation again on the result
        nd = len(shape)
        for p in ([1, 2, 0], [2, 0, 1], [1, 0, 2], [3, 0, 1, 2], [1, 0], [2, 3, 0, 1]):
            if len(p) != nd:
                continue
            hb = HistoryBuilder(shape, 0, 9000 + len(out), 6)
            y = hb.transpose(0, p)
            z = hb.transpose(y, p)
            hb.transpose(z, p)
            hb.transpose(y, [p.index(i) for i in range(nd)])      # the inverse: equals the root's value
            hb.T(y)
            hb.T(z)
            r1 = hb.reshape(0, [-1])
            hb.reshape(r1, shape)
            hb.reshape(r1, [-1])
            if hb.dot_ok(y):
                hb.dotr(y, [2, hb.targets[y][2][-2]], False, 5)
            hb.transpose(0, p)
            out.append(hb.result())
    for shape in ([2, 3], [2, 2, 3]):        # plain / shallow / deep copies and evictions through a sharer
        hb = HistoryBuilder(shape, 0, 4242 + len(shape), 5)
        nd = len(shape)
        perms = [list(p) for p in __import__("itertools").permutations(range(nd))][1:5]
        y = hb.copy(0)
        s2 = hb.shallow(0)
        for p in perms:
            hb.transpose(y, p)
        for p in perms:
            hb.transpose(0, p)
        d = hb.deep(0)
        for p in perms:
            hb.transpose(d, p)
        hb.T(s2)
        hb.same(d, "astype")
        hb.same(y, "asformat")
        if hb.dot_ok(y):
            hb.dotl(y, [shape[-1], 2], False, 99)
            hb.dotr(d, [2, shape[-2]], True, 98)
        hb.reshape(0, [-1, shape[-1]])
        out.append(hb.result())
    return out


def hist_literal(case, xops, u2x, r):
    """Coq literal of type hist_case"""
    n = len(xops)
    oc = [[0, [], 0, 0] for _ in range(n)]
    ou = [[0, [], 0, 0] for _ in range(n)]
    dots = []
    for ui, op in enumerate(case["uops"]):
        c, u = r["c"][ui], r["u"][ui]
        if op[0].startswith("dot"):
            dots.append((c[3] if c[0] == 0 else -c[0] - 1, u[3] if u[0] == 0 else -u[0] - 1))
            continue
        xi = u2x[ui]
        for dst, o in ((oc, c), (ou, u)):
            ident = o[2]
            if o[0] == 0 and ident >= 0:
                ident = u2x[ident]
            dst[xi] = [o[0], o[1], ident, o[3]]
    fins = [(-1 if f[0] < 0 else u2x[f[0]], f[1], f[2], f[3], f[4], f[5]) for f in r["fins"]]

    def hop(x):
        return vpair(vZ(x[0]), vZ(x[1]), vopt(x[2], vlist), vbool(x[3]), vbool(x[4]))

    def ob(o):
        return vpair(vZ(o[0]), vlist(o[1]), vZ(o[2]), vZ(o[3]))

    def fn(f):
        return vpair(vZ(f[0]), vbool(f[1]), vlist(f[2], vlist), vlist(f[3], vlist), vbool(f[4]), vbool(f[5]))
    bad_fin = []
    fins_ok = fins
    lit = vpair(vlist(case["shape"]), vZ(case["fill"]),
                "[" + "; ".join(hop(x) for x in xops) + "]",
                "[" + "; ".join(ob(o) for o in oc) + "]",
                "[" + "; ".join(ob(o) for o in ou) + "]",
                "[" + "; ".join(fn(f) for f in fins_ok) + "]",
                "[" + "; ".join(vpair(vZ(a), vZ(b)) for a, b in dots) + "]")
    return lit, bad_fin


HIST_CODES = {
    1: ("representation", "cached call: exception class / outcome differs from the model"),
    2: ("representation", "cached call: result shape differs from the model"),
    3: ("representation", "cached call: identity pattern (which earlier call returned the identical object) differs "
                          "from the model's hits/misses/evictions"),
    4: ("representation", "final deque keys or _csr/_csc memo differ from the model"),
    5: ("value", "a call on the cache-enabled array returned a value different from the same call without caching"),
    6: ("representation", "uncached call: exception class / outcome differs from the model"),
    7: ("representation", "uncached call: identity pattern differs from the model (only `return self` shares objects)"),
    8: ("representation", "uncached call: result shape differs from the model"),
    10: ("representation", "malformed case"),
}


def campaign_hist(build, tier, seed, report, budget):
    rng = random.Random(seed * 7919 + 11)
    ncases, maxlen = (140, 30) if tier == "quick" else (400, 200)
    ncases *= budget
    cases, aux = [], []
    tags = {}
    gens = [lambda sc=sc: sc for sc in scenario_histories()]
    for k in range(ncases):
        ml = maxlen if k % 4 else max(6, maxlen // 5)
        gens.append(lambda ml=ml: gen_history(rng, ml))
    for g in gens:
        case, xops, u2x, tg = g()
        cases.append(case)
        aux.append((xops, u2x))
        for t, v in tg.items():
            tags[t] = tags.get(t, 0) + v
    res = run_guarded("impl_hist", cases, 12, 60.0, batch=250)
    lits, idx, viol = [], [], []
    hits = evict = selfret = excs = nested = 0
    for i, (case, (xops, u2x), r) in enumerate(zip(cases, aux, res, strict=True)):
        if "c" not in r:
            viol.append({"property": "C11", "op": "history", "kind": "representation", "clause": None,
                         "case": case, "impl": r, "what": "history runner failed (hang/crash/exception)",
                         "replay_py": _replay_line("impl_hist", case)})
            continue
        lit, bad_fin = hist_literal(case, xops, u2x, r)
        if bad_fin:
            viol.append({"property": "C11", "op": "history", "kind": "representation", "clause": None, "case": case,
                         "impl": r, "what": "an object returned by a cache-enabled array has caching disabled",
                         "replay_py": _replay_line("impl_hist", case)})
        lits.append(lit)
        idx.append(i)
        for ui, o in enumerate(r["c"]):
            if o[0] == 0 and not case["uops"][ui][0].startswith("dot"):
                if o[2] == -1:
                    selfret += 1
                elif o[2] != ui:
                    hits += 1
            elif o[0] > 0:
                excs += 1
            if case["uops"][ui][1] >= 0:
                nested += 1
        evict += sum(1 for f in r["fins"] if len(f[2]) >= 3 or len(f[3]) >= 3)
    bad = build.judge("c11_hist", "From Verif Require Import C11Judge.", "hist_case", "judge_hist", lits, chunk=40)
    for k, code in bad:
        i = idx[k]
        kind, what = HIST_CODES.get(code, ("representation", f"code {code}"))
        viol.append({"property": "C11", "op": "cache-history", "kind": kind, "clause": None, "code": code, "what": what,
                     "case": cases[i], "impl": res[i], "replay_py": _replay_line("impl_hist", cases[i])})
    cov = report["coverage"]
    cov["hist_cases"] = len(cases)
    cov["hist_calls"] = sum(len(c["uops"]) for c in cases)
    cov["hist_max_len"] = max(len(c["uops"]) for c in cases)
    tags.update({"cache-hit (identical object returned)": hits, "return-self": selfret, "exception": excs,
                 "call on a derived (nested) cache-enabled object": nested, "objects with a full deque at the end": evict})
    return viol, tags, [dict(case=cases[j], impl=res[j]) for j in (0, len(cases) // 2)]


# ====================================================================== part 1b: free-form twin sequences
# Sequences over a much wider operation set than the memo model covers (sort, argmax/argmin, reductions, out=
# updates, element-wise, indexing, conversions, copies, ...), executed on a cache-enabled array and on a twin
# without caching, with the SAME decisions (one PRNG seeded per case, choices depend only on the target's
# shape).  No model prediction: every step's outcome (exception class or value digest) of the cached run must
# equal the uncached run's — that is the property.  Judged in Coq as a history without model calls.
FREE_PREFIXES = [
    # (name, steps); a step is (operation name, target selector): "root" or "last" (the latest COO produced)
    ("sort-then-reuse", [("sort_ax0", "root"), ("T", "root"), ("argmax_last", "root"), ("moveaxis0", "root"),
                         ("sort_ax0_desc", "root"), ("T", "root"), ("argmin_last", "root")]),
    ("memo-then-out-update", [("csr", "root"), ("csc", "root"), ("T", "root"), ("neg_out", "root"), ("csr", "root"),
                              ("csc", "root"), ("T", "root"), ("sum", "root")]),
    # out= hands the target the attributes of an uncached result; the user switches caching on again
    ("memo-out-update-recache", [("csr", "root"), ("csc", "root"), ("mul2_out", "root"), ("recache", "root"),
                                 ("csr", "root"), ("csc", "root"), ("T", "root"), ("neg_out", "root"),
                                 ("recache", "root"), ("csc", "root"), ("csr", "root"), ("flat", "root")]),
    ("csr-only-out-update-recache", [("csr", "root"), ("add_self_out", "root"), ("recache", "root"), ("csc", "root"),
                                     ("csr", "root"), ("T", "root")]),
    ("copy-with-fill-after-csc", [("csr", "root"), ("csc", "root"), ("cpfill5", "root"), ("csc", "last"),
                                  ("csr", "last"), ("T", "last"), ("unique", "last")]),
    ("copy-with-fill-after-T", [("T", "root"), ("flat", "root"), ("cpfill7", "root"), ("T", "last"),
                                ("flat", "last"), ("sum_ax0", "last"), ("unique", "last")]),
    ("argmax-then-T", [("argmax_ax0", "root"), ("T", "root"), ("sort_ax0", "root"), ("argmax_ax0", "root"),
                       ("mul2_out", "root"), ("T", "root"), ("argmax_ax0", "root")]),
]


def _free_ops():
    import numpy as np
    import sparse

    def perm(t, r):
        p = list(range(t.ndim))
        r.shuffle(p)
        return t.transpose(p)

    def resh(t, r):
        sh = _factorizations(int(t.size), r)
        if sh and r.random() < 0.3:
            sh[r.randrange(len(sh))] = -1
        return t.reshape(tuple(sh))

    def dotd(t, r):
        b = np.arange(t.shape[-1] * 2, dtype=np.int64).reshape(t.shape[-1], 2) % 3
        return sparse.dot(t, b)
    ax = lambda t, r: r.randrange(t.ndim) if t.ndim else None       # noqa: E731
    return {
        "T": lambda t, r: t.T, "perm": perm, "reshape": resh, "flat": lambda t, r: t.reshape(-1),
        "csr": lambda t, r: t.tocsr(), "csc": lambda t, r: t.tocsc(),
        "cp": lambda t, r: sparse.COO(t), "cpfill5": lambda t, r: sparse.COO(t, fill_value=5),
        "cpfill7": lambda t, r: sparse.COO(t, fill_value=7), "cpfill0": lambda t, r: sparse.COO(t, fill_value=0),
        "shcp": lambda t, r: t.copy(deep=False), "dcp": lambda t, r: t.copy(),
        "astype_same": lambda t, r: t.astype(t.dtype, copy=False), "astype_f": lambda t, r: t.astype(np.float64),
        "asformat": lambda t, r: t.asformat("coo"), "gcxs": lambda t, r: t.asformat("gcxs").tocoo(),
        "sort_ax0": lambda t, r: sparse.sort(t, axis=0), "sort_ax0_desc": lambda t, r: sparse.sort(t, axis=0, descending=True),
        "sort_last": lambda t, r: sparse.sort(t), "sort_any": lambda t, r: sparse.sort(t, axis=ax(t, r), descending=r.random() < 0.5),
        "argmax_ax0": lambda t, r: sparse.argmax(t, axis=0), "argmax_last": lambda t, r: sparse.argmax(t, axis=-1),
        "argmin_last": lambda t, r: sparse.argmin(t, axis=-1), "argmax_any": lambda t, r: sparse.argmax(t, axis=ax(t, r)),
        "argmin_any": lambda t, r: sparse.argmin(t, axis=ax(t, r)), "argmax_flat": lambda t, r: sparse.argmax(t),
        "sum": lambda t, r: t.sum(), "sum_ax0": lambda t, r: t.sum(axis=0), "max_any": lambda t, r: t.max(axis=ax(t, r)),
        "min_last": lambda t, r: t.min(axis=-1), "prod_ax0": lambda t, r: t.prod(axis=0), "mean": lambda t, r: t.mean(axis=ax(t, r)),
        "unique": lambda t, r: sparse.unique_values(t), "unique_counts": lambda t, r: tuple(sparse.unique_counts(t)),
        "nonzero": lambda t, r: t.nonzero(), "todense": lambda t, r: t.todense(),
        "neg_out": lambda t, r: np.negative(t, out=t), "mul2_out": lambda t, r: np.multiply(t, 2, out=t),
        "add_self_out": lambda t, r: np.add(t, t, out=t),
        "add_self": lambda t, r: t + t, "mul3": lambda t, r: t * 3, "gt1": lambda t, r: t > 1,
        "idx0": lambda t, r: t[0], "idx_rev": lambda t, r: t[::-1], "idx_none": lambda t, r: t[None],
        "squeeze": lambda t, r: t[None].squeeze(0), "swap": lambda t, r: t.swapaxes(0, -1),
        "moveaxis0": lambda t, r: sparse.moveaxis(t, 0, -1), "roll": lambda t, r: sparse.roll(t, 1, axis=0),
        "flip": lambda t, r: sparse.flip(t, axis=0), "dot_dense": dotd, "kron": lambda t, r: sparse.kron(t, t),
        "concat": lambda t, r: sparse.concatenate([t, t], axis=0), "stack": lambda t, r: sparse.stack([t, t]),
        "triu": lambda t, r: sparse.triu(t), "diag": lambda t, r: sparse.diagonal(t),
        "bcast": lambda t, r: sparse.broadcast_to(t, (2,) + tuple(t.shape)),
        # enable_caching() on the cache-enabled run only (the twin never caches): must change no later result
        "recache": None,
    }


def _free_value(o):
    import sparse
    if isinstance(o, (tuple, list)):
        return _digest("seq", [_free_value(e) for e in o])
    if isinstance(o, sparse.DOK):
        return _value_id(o.asformat("coo"))
    try:
        return _value_id(o)
    except Exception:  # noqa: BLE001
        return _digest("repr", repr(o))


def impl_free(case):
    """both runs of one free-form sequence -> per step (operation, target index, status or value digest)"""
    import numpy as np
    import sparse
    ops = _free_ops()
    names = sorted(ops)
    out = {}
    for mode, cache in (("c", True), ("u", False)):
        r = random.Random(case["seed"])
        x = _mk_root(case, cache)
        pool = [x]
        rec = []
        script = list(case.get("prefix", []))
        for _step in range(case["n"]):
            if script:
                name, sel = script.pop(0)
                ti = 0 if sel == "root" else len(pool) - 1
            else:
                ti = 0 if (len(pool) == 1 or r.random() < 0.5) else r.randrange(len(pool))
                name = names[r.randrange(len(names))]
            if name in ("neg_out", "mul2_out", "add_self_out"):
                # an explicit out= update is applied to the root only: an object that came out of a memo is shared
                # with that memo, and updating it in place is the misuse enable_caching() documents (ASSUMPTIONS)
                ti = 0
            t = pool[ti]
            try:
                with np.errstate(all="ignore"):
                    if name == "recache":
                        o = t.enable_caching() if cache else None
                    else:
                        o = ops[name](t, r)
                rec.append([name, ti, 0, _free_value(o)])
                if isinstance(o, sparse.COO) and o is not t and 1 <= o.ndim <= 4 and o.size <= 400:
                    pool.append(o)
                    if len(pool) > 8:
                        pool.pop(1 + r.randrange(len(pool) - 2))
            except Exception as ex:  # noqa: BLE001
                rec.append([name, ti, EXC_CODE.get(type(ex).__name__, 9), 0, type(ex).__name__])
        out[mode] = rec
    return out


def free_cases(tier, seed, budget):
    rng = random.Random(seed * 31337 + 3)
    n = (80 if tier == "quick" else 500) * budget
    cases = []
    shapes = [[2, 3], [3, 3], [3, 2], [2, 2, 3], [4], [3, 1, 2], [2, 3, 2], [5, 2]]
    k = 0
    for pname, steps in FREE_PREFIXES:           # every scripted prefix on several shapes / patterns
        for shape in (shapes[:4] if tier == "quick" else shapes[:6]):
            for nnz in ((3, 40) if tier == "quick" else (3, 6, 40)):
                cases.append({"shape": shape, "fill": 0, "seed": rng.randrange(1 << 30), "nnz": nnz, "neg": k % 2 == 0,
                              "n": len(steps) + 4, "prefix": steps, "prefix_name": pname})
                k += 1
    for _ in range(n):
        cases.append({"shape": rng.choice(shapes), "fill": rng.choice([0, 0, 0, 3]), "seed": rng.randrange(1 << 30),
                      "nnz": rng.choice([1, 3, 6, 40]), "neg": rng.random() < 0.4,
                      "n": rng.randint(6, 14 if tier == "quick" else 40), "prefix": [], "prefix_name": None})
    return cases


def campaign_free(build, tier, seed, report, budget):
    cases = free_cases(tier, seed, budget)
    res = run_guarded("impl_free", cases, 12, 90.0, batch=400)
    lits, idx, viol, tags = [], [], [], {}
    for i, (c, r) in enumerate(zip(cases, res, strict=True)):
        if "c" not in r:
            viol.append({"property": "C11", "op": "free-sequence", "kind": "representation", "clause": None, "case": c,
                         "impl": r, "what": "sequence runner failed (hang/crash/lost batch)",
                         "replay_py": _replay_line("impl_free", c)})
            continue
        pairs = []
        for a, b in zip(r["c"], r["u"], strict=True):
            pairs.append((a[3] if a[2] == 0 else -a[2] - 1, b[3] if b[2] == 0 else -b[2] - 1))
            t = a[0] + ("" if a[2] == 0 else "/raised")
            tags[t] = tags.get(t, 0) + 1
        lits.append(vpair("[]", "0", "[]", "[]", "[]", "[]", "[" + "; ".join(vpair(vZ(a), vZ(b)) for a, b in pairs) + "]"))
        idx.append(i)
    bad = build.judge("c11_free", "From Verif Require Import C11Judge.", "hist_case", "judge_hist", lits, chunk=200)
    for k, _code in bad:
        i = idx[k]
        r = res[i]
        first = next((j for j, (a, b) in enumerate(zip(r["c"], r["u"], strict=True)) if a[2:4] != b[2:4]), None)
        viol.append({"property": "C11", "op": "free-sequence", "kind": "value", "clause": None, "code": 5,
                     "what": "a step on the cache-enabled array (or on an array derived from it) gave a result "
                             "different from the same step without caching",
                     "first_differing_step": None if first is None else {"index": first, "cached": r["c"][first],
                                                                         "uncached": r["u"][first]},
                     "case": cases[i], "impl": {"steps": [a[:2] for a in r["c"]]},
                     "replay_py": _replay_line("impl_free", cases[i])})
    cov = report["coverage"]
    cov["free_cases"] = len(cases)
    cov["free_steps"] = sum(len(r["c"]) for r in res if "c" in r)
    return viol, {("op:" + k): v for k, v in tags.items()}, [dict(case=cases[0], impl=res[0])]


def _replay_line(fn, case):
    return ("import sys, json; sys.path[:0]=['/verif/tools','/repo']; from props import c11; "
            f"print(json.dumps(c11.{fn}(json.loads({json.dumps(json.dumps(case))})), default=str)[:4000])")


# ====================================================================== part 2: operand snapshots
def _snap_arr(a):
    import numpy as np
    a = np.asarray(a)
    return (_digest("buf", np.ascontiguousarray(a).tobytes()),
            ("flags", a.shape, str(a.dtype), a.strides if a.size else None, bool(a.flags.writeable),
             bool(a.flags.c_contiguous), bool(a.flags.owndata)))


def _snapshot(o):
    """(meta digest, [buffer digests]) of one operand"""
    import numpy as np
    import scipy.sparse as ss
    import sparse
    if isinstance(o, sparse.COO):
        bufs = [_snap_arr(o.coords), _snap_arr(o.data)]
        meta = ("COO", tuple(o.shape), str(o.dtype), np.asarray(o.fill_value).tobytes(), str(o.coords.dtype),
                o._cache is not None)
    elif isinstance(o, sparse.GCXS):
        bufs = [_snap_arr(o.data), _snap_arr(o.indices), _snap_arr(o.indptr)]
        meta = (type(o).__name__, tuple(o.shape), str(o.dtype), np.asarray(o.fill_value).tobytes(),
                tuple(o.compressed_axes) if o.compressed_axes is not None else None)
    elif isinstance(o, sparse.DOK):
        items = sorted((tuple(int(i) for i in k), np.asarray(v).tobytes()) for k, v in o.data.items())
        bufs = [(_digest("dok", items), ())]
        meta = ("DOK", tuple(o.shape), str(o.dtype), np.asarray(o.fill_value).tobytes())
    elif ss.issparse(o):
        # a scipy operand: its storage, not only its value (toarray() survives a sum_duplicates() in place)
        if o.format == "coo":
            bufs = [_snap_arr(o.data), _snap_arr(o.row), _snap_arr(o.col)]
            flags = (bool(getattr(o, "has_canonical_format", False)),)
        elif o.format in ("csr", "csc", "bsr"):
            bufs = [_snap_arr(o.data), _snap_arr(o.indices), _snap_arr(o.indptr)]
            flags = (bool(o.has_sorted_indices), bool(o.has_canonical_format))
        else:
            c = o.tocoo()
            bufs = [_snap_arr(c.data), _snap_arr(c.row), _snap_arr(c.col)]
            flags = ()
        meta = (type(o).__name__, o.format, tuple(o.shape), str(o.dtype), int(o.nnz), flags)
    elif isinstance(o, (list, tuple)):
        bufs = []
        meta = [type(o).__name__, len(o)]
        for e in o:
            m, b = _snapshot(e)
            meta.append(m)
            bufs.extend((x, ()) for x in b)
        meta = tuple(meta)
    else:
        a = np.asarray(o)
        bufs = [_snap_arr(a)]
        meta = ("nd", a.shape, str(a.dtype))
    return _digest("meta", meta, [b[1] for b in bufs]), [b[0] for b in bufs]


def _rand_dense(rng, shape, fill, density, floaty, nan, pattern="random", negative=False):
    """a small dense array with a chosen sparsity pattern (boundary-directed: the patterns are the ones
    on which kernels take special paths — no stored element, all stored, exactly one stored element per
    row / per column / per slab, a diagonal, a single element)"""
    import numpy as np
    a = np.full(shape, fill, dtype=np.float64 if floaty else np.int64)
    nd = len(shape)
    if pattern == "empty" or a.size == 0:
        mask = np.zeros(shape, dtype=bool)
    elif pattern == "full":
        mask = np.ones(shape, dtype=bool)
    elif pattern == "single":
        mask = np.zeros(shape, dtype=bool)
        mask.reshape(-1)[rng.integers(0, a.size)] = True
    elif pattern in ("one-per-row", "one-per-col") and nd >= 1:
        ax = nd - 1 if pattern == "one-per-row" else 0
        mask = np.zeros(shape, dtype=bool)
        for idx in np.ndindex(*[shape[i] for i in range(nd) if i != ax]):
            full = list(idx)
            full.insert(ax, int(rng.integers(0, shape[ax])))
            mask[tuple(full)] = True
    elif pattern == "diagonal" and nd >= 2:
        mask = np.zeros(shape, dtype=bool)
        for i in range(min(shape)):
            mask[(i,) * nd] = True
    else:
        mask = rng.random(shape) < density
    vals = rng.integers(1, 7, size=shape)
    if negative:
        vals = -vals
    a[mask] = vals[mask] + ((10 if not negative else -10) if fill else 0)
    if nan and floaty and a.size:
        a[rng.random(shape) < 0.15] = np.nan
    return a


def _to_fmt(a, fmt, fill, rng):
    import sparse
    if fmt == "coo":
        return sparse.COO.from_numpy(a, fill_value=fill)
    if fmt == "dok":
        return sparse.DOK.from_coo(sparse.COO.from_numpy(a, fill_value=fill))
    nd = a.ndim
    if nd == 0:
        return sparse.COO.from_numpy(a, fill_value=fill)
    if nd == 1:
        return sparse.GCXS.from_numpy(a, fill_value=fill)
    ca_choices = [(0,), (nd - 1,)] + ([(0, 1)] if nd >= 3 else []) + ([(1,)] if nd >= 3 else [])
    ca = ca_choices[int(fmt[4:]) % len(ca_choices)] if len(fmt) > 4 else ca_choices[0]
    return sparse.GCXS.from_numpy(a, compressed_axes=ca, fill_value=fill)


def _ops_table():
    """name -> (arity, callable(sparse, np, x, y, rng)).  y is a second operand of x's shape (arity 2),
    or of a contraction-compatible shape (arity 'dot')."""
    import numpy as np
    import sparse
    T = {}

    def u(name, f):
        T[name] = (1, f)

    def b(name, f):
        T[name] = (2, f)

    def d(name, f):
        T[name] = ("dot", f)
    # element-wise
    u("neg", lambda x, r: -x)
    u("abs", lambda x, r: abs(x))
    u("add_scalar", lambda x, r: x + 1)
    u("mul_scalar", lambda x, r: x * 2)
    u("pow2", lambda x, r: x ** 2)
    u("np.sin", lambda x, r: np.sin(x))
    u("np.sign", lambda x, r: np.sign(x))
    u("sparse.square", lambda x, r: sparse.square(x))
    u("astype_f", lambda x, r: x.astype(np.float32))
    u("astype_same_nocopy", lambda x, r: x.astype(x.dtype, copy=False))
    u("round", lambda x, r: x.round(1))
    u("sparse.round", lambda x, r: sparse.round(x))
    u("clip", lambda x, r: x.clip(1, 3))
    u("sparse.clip", lambda x, r: sparse.clip(x, 0, 2))
    u("conj", lambda x, r: x.conj())
    u("real", lambda x, r: x.real)
    u("imag", lambda x, r: x.imag)
    u("isnan", lambda x, r: sparse.isnan(x))
    u("isinf", lambda x, r: sparse.isinf(x))
    u("isposinf", lambda x, r: sparse.isposinf(x))
    u("isneginf", lambda x, r: sparse.isneginf(x))
    u("gt_scalar", lambda x, r: x > 1)
    u("eq_scalar", lambda x, r: x == 0)
    u("where_mask", lambda x, r: sparse.where(x > 1, x, 0))
    u("elemwise_lambda", lambda x, r: sparse.elemwise(np.add, x, x))
    b("add", lambda x, y, r: x + y)
    b("sub", lambda x, y, r: x - y)
    b("mul", lambda x, y, r: x * y)
    b("maximum", lambda x, y, r: np.maximum(x, y))
    b("lt", lambda x, y, r: x < y)
    b("ne", lambda x, y, r: x != y)
    b("where3", lambda x, y, r: sparse.where(x > y, x, y))
    b("mul_self", lambda x, y, r: x * x)
    b("add_dense", lambda x, y, r: x + (y.todense() if hasattr(y, "todense") else y))
    # indexing
    u("idx_int", lambda x, r: x[0])
    u("idx_neg", lambda x, r: x[-1])
    u("idx_slice", lambda x, r: x[1:])
    u("idx_rev", lambda x, r: x[::-1])
    u("idx_step", lambda x, r: x[::2])
    u("idx_ellipsis", lambda x, r: x[..., 0])
    u("idx_none", lambda x, r: x[None])
    u("idx_full", lambda x, r: x[...])
    u("idx_list", lambda x, r: x[[0, 0]])
    u("idx_arr_last", lambda x, r: x[..., np.array([0])])
    u("idx_boolarr", lambda x, r: x[np.arange(x.shape[0]) % 2 == 0])
    u("idx_mixed", lambda x, r: x[0:1, ...])
    u("idx_oob", lambda x, r: x[99])
    u("take", lambda x, r: sparse.take(x, np.array([0]), axis=0))
    # reductions
    for nm in ("sum", "max", "min", "prod", "mean", "var", "std", "any", "all"):
        u(nm, lambda x, r, nm=nm: getattr(x, nm)())
        u(nm + "_ax0", lambda x, r, nm=nm: getattr(x, nm)(axis=0))
        u(nm + "_axm1_keep", lambda x, r, nm=nm: getattr(x, nm)(axis=-1, keepdims=True))
    for nm in ("sum", "prod", "max", "min", "mean", "var", "std", "any"):
        # nothing is reduced: the result must still be a new array (the library writes into it with out=)
        u(nm + "_axempty", lambda x, r, nm=nm: getattr(x, nm)(axis=()))
        u(nm + "_axempty_keep", lambda x, r, nm=nm: getattr(x, nm)(axis=(), keepdims=True))
    u("np.sum", lambda x, r: np.sum(x, axis=0))
    u("argmax", lambda x, r: sparse.argmax(x, axis=0))
    u("argmin", lambda x, r: sparse.argmin(x, axis=-1, keepdims=True))
    u("argmax_flat", lambda x, r: sparse.argmax(x))
    for nm in ("nansum", "nanmax", "nanmin", "nanprod", "nanmean"):
        u(nm, lambda x, r, nm=nm: getattr(sparse, nm)(x))
        u(nm + "_ax0", lambda x, r, nm=nm: getattr(sparse, nm)(x, axis=0))
    u("reduce_add", lambda x, r: x.reduce(np.add, axis=0))
    # products
    d("dot", lambda x, y, r: sparse.dot(x, y))
    d("matmul", lambda x, y, r: x @ y)
    d("sparse.matmul", lambda x, y, r: sparse.matmul(x, y))
    d("tensordot1", lambda x, y, r: sparse.tensordot(x, y, axes=1))
    d("dot_dense", lambda x, y, r: sparse.dot(x, y.todense() if hasattr(y, "todense") else y))
    d("rdot_dense", lambda x, y, r: sparse.dot(x.todense().T if hasattr(x, "todense") else x.T, x))
    d("einsum", lambda x, y, r: sparse.einsum("...i,i...->...", x, y))
    b("kron", lambda x, y, r: sparse.kron(x, y))
    b("outer_flat", lambda x, y, r: sparse.outer(x.reshape(-1), y.reshape(-1)))
    # shape manipulation
    u("T", lambda x, r: x.T)
    u("mT", lambda x, r: x.mT)
    u("transpose_perm", lambda x, r: x.transpose(tuple(np.roll(np.arange(x.ndim), 1))))
    u("permute_dims", lambda x, r: sparse.permute_dims(x, tuple(range(x.ndim))[::-1]))
    u("reshape_flat", lambda x, r: x.reshape(-1))
    u("reshape_2d", lambda x, r: x.reshape((x.shape[0], -1)))
    u("sparse.reshape", lambda x, r: sparse.reshape(x, (-1, x.shape[-1])))
    u("flatten", lambda x, r: x.flatten())
    u("squeeze", lambda x, r: sparse.squeeze(x[None], 0))
    u("expand_dims", lambda x, r: sparse.expand_dims(x, axis=1))
    u("swapaxes", lambda x, r: x.swapaxes(0, -1))
    u("moveaxis", lambda x, r: sparse.moveaxis(x, 0, -1))
    u("broadcast_to", lambda x, r: sparse.broadcast_to(x, (2,) + tuple(x.shape)))
    u("roll", lambda x, r: sparse.roll(x, 1, axis=0))
    u("roll_flat", lambda x, r: sparse.roll(x, 2))
    u("roll_multi", lambda x, r: sparse.roll(x, (1, -1), axis=(0, -1)))
    u("flip", lambda x, r: sparse.flip(x, axis=0))
    u("flip_all", lambda x, r: sparse.flip(x))
    u("pad", lambda x, r: sparse.pad(x, 1))
    u("matrix_transpose", lambda x, r: sparse.matrix_transpose(x))
    b("concatenate0", lambda x, y, r: sparse.concatenate([x, y], axis=0))
    b("concatenate_last", lambda x, y, r: sparse.concatenate([x, y], axis=-1))
    b("concatenate_self", lambda x, y, r: sparse.concatenate([x, x], axis=0))
    b("concatenate_one", lambda x, y, r: sparse.concatenate([x], axis=0))
    b("concat_flat", lambda x, y, r: sparse.concatenate([x, y], axis=None))
    b("stack0", lambda x, y, r: sparse.stack([x, y], axis=0))
    b("stack_last", lambda x, y, r: sparse.stack([x, y], axis=-1))
    b("stack_one", lambda x, y, r: sparse.stack([x], axis=0))
    b("broadcast_arrays", lambda x, y, r: sparse.broadcast_arrays(x, y))
    # structural extraction / sorting / sets
    u("triu", lambda x, r: sparse.triu(x))
    u("tril", lambda x, r: sparse.tril(x, k=-1))
    u("diagonal", lambda x, r: sparse.diagonal(x))
    u("diagonal_off", lambda x, r: sparse.diagonal(x, offset=1, axis1=0, axis2=-1))
    u("diagonalize", lambda x, r: sparse.diagonalize(x))
    u("sort", lambda x, r: sparse.sort(x))
    u("sort_desc_ax0", lambda x, r: sparse.sort(x, axis=0, descending=True))
    u("unique_values", lambda x, r: sparse.unique_values(x))
    u("unique_counts", lambda x, r: sparse.unique_counts(x))
    u("nonzero", lambda x, r: x.nonzero())
    u("sparse.nonzero", lambda x, r: sparse.nonzero(x))
    u("argwhere", lambda x, r: sparse.argwhere(x))
    # conversions
    u("todense", lambda x, r: x.todense())
    u("np.asarray", lambda x, r: sparse.asnumpy(x))
    u("tocoo", lambda x, r: x.tocoo() if hasattr(x, "tocoo") else sparse.as_coo(x))
    u("asformat_coo", lambda x, r: x.asformat("coo"))
    u("asformat_gcxs", lambda x, r: x.asformat("gcxs"))
    u("asformat_gcxs_ca", lambda x, r: x.asformat("gcxs", compressed_axes=(x.ndim - 1,)))
    u("asformat_dok", lambda x, r: x.asformat("dok"))
    u("tocsr", lambda x, r: x.tocsr())
    u("tocsc", lambda x, r: x.tocsc())
    u("to_scipy", lambda x, r: x.to_scipy_sparse())
    u("change_compressed_axes", lambda x, r: x.change_compressed_axes((x.ndim - 1,)))
    u("change_compressed_axes_same", lambda x, r: x.change_compressed_axes(x.compressed_axes))
    u("copy", lambda x, r: x.copy())
    u("copy_shallow", lambda x, r: x.copy(deep=False))
    u("maybe_densify", lambda x, r: x.maybe_densify(max_size=10000, min_density=0.0))
    u("COO(x)", lambda x, r: sparse.COO(x))
    u("GCXS(x)", lambda x, r: sparse.GCXS(x))
    u("DOK(x)", lambda x, r: sparse.DOK(x))
    u("asarray", lambda x, r: sparse.asarray(x))
    u("asarray_fmt", lambda x, r: sparse.asarray(x, format="gcxs"))
    u("as_coo", lambda x, r: sparse.as_coo(x))
    u("full_like", lambda x, r: sparse.full_like(x, 2))
    u("zeros_like", lambda x, r: sparse.zeros_like(x))
    u("linear_loc", lambda x, r: x.linear_loc())
    u("pickle", lambda x, r: __import__("pickle").loads(__import__("pickle").dumps(x)))
    u("str", lambda x, r: str(x))
    u("nbytes", lambda x, r: (x.nbytes, x.nnz, x.density, x.format))
    u("bool_scalar", lambda x, r: bool(x.reshape(-1)[:1].sum() > 0))
    u("result_type", lambda x, r: sparse.result_type(x, 1.0))
    # then: chained use — the result is edited in place; NOT required to leave the operand intact, so not listed
    return T


def _scribble(res, skip=()):
    """write into every writeable dense array of a result (a caller post-processing ITS OWN result in place);
    returns how many arrays were written"""
    import numpy as np
    n = 0
    if any(res is o for o in skip):
        return 0                  # the call legitimately handed back one of its operands
    if isinstance(res, np.ndarray):
        if res.size and res.flags.writeable and res.dtype.kind in "biufc":
            if res.dtype.kind == "b":
                np.logical_not(res, out=res)
            else:
                np.add(res, 1, out=res, casting="unsafe")
            n += 1
    elif type(res).__module__.startswith("sparse.") and hasattr(res, "fill_value") and not hasattr(res, "_dok_marker") \
            and type(res).__name__ != "DOK":
        # a sparse result: the caller updates ITS result through out= (swaps the result object's attributes)
        try:
            np.add(res, 1, out=res)
            n += 1
        except Exception:  # noqa: BLE001
            pass
    elif isinstance(res, (tuple, list)):
        for e in res:
            n += _scribble(e, skip)
    elif isinstance(res, dict):
        for e in res.values():
            n += _scribble(e, skip)
    return n


def _mk_scipy(rng, fmt, state, shape, as_array, floaty):
    """a scipy.sparse operand built directly on caller-owned arrays, in one of four storage states:
    canonical | unsorted (indices of some row out of order) | sorted-dup (sorted, one position stored twice,
    adjacent) | unsorted-dup.  Returns (matrix, [the caller's arrays])"""
    import numpy as np
    import scipy.sparse as ss
    n, m = shape
    dense = np.zeros(shape, dtype=np.float64 if floaty else np.int64)
    mask = rng.random(shape) < 0.7
    mask[0, : min(2, m)] = True                     # a row/column with at least two stored elements
    mask[: min(2, n), 0] = True
    dense[mask] = rng.integers(1, 7, size=int(mask.sum()))
    major = dense if fmt != "csc" else dense.T      # rows of `major` are the compressed lines
    rows, cols, vals = [], [], []
    for i in range(major.shape[0]):
        js = [int(j) for j in np.nonzero(major[i])[0]]
        vs = [major[i, j] for j in js]
        if i == 0 and "dup" in state and js:
            # store the first position twice (adjacent): value split in two
            js = [js[0]] + js
            vs = [vs[0] - 1, 1] + vs[1:]
        if "unsorted" in state and len(js) >= 2:
            js, vs = js[::-1], vs[::-1]
        rows += [i] * len(js)
        cols += js
        vals += vs
    data = np.array(vals, dtype=dense.dtype)
    if fmt == "coo":
        r, c = np.array(rows, dtype=np.int32), np.array(cols, dtype=np.int32)
        cls = ss.coo_array if as_array else ss.coo_matrix
        x = cls((data, (r, c)), shape=shape)
        return x, [data, r, c]
    indices = np.array(cols, dtype=np.int32)
    indptr = np.zeros(major.shape[0] + 1, dtype=np.int32)
    np.cumsum(np.bincount(np.array(rows, dtype=np.int64), minlength=major.shape[0]), out=indptr[1:])
    cls = {("csr", False): ss.csr_matrix, ("csr", True): ss.csr_array,
           ("csc", False): ss.csc_matrix, ("csc", True): ss.csc_array}[(fmt, as_array)]
    x = cls((data, indices, indptr), shape=shape)
    return x, [data, indices, indptr]


def _scipy_ops():
    """operations that accept a scipy.sparse operand: name -> f(sp, c, d) with c a COO of sp's shape and d a COO
    whose first extent is sp's last (for products)"""
    import numpy as np
    import sparse
    from sparse.numba_backend._compressed.compressed import CSC, CSR
    return {
        "dot(sp, d)": lambda sp, c, d: sparse.dot(sp, d),
        "dot(sp, dense)": lambda sp, c, d: sparse.dot(sp, d.todense()),
        "dot(c.T, sp)": lambda sp, c, d: sparse.dot(c.T, sp),
        "dot(dense, sp)": lambda sp, c, d: sparse.dot(c.T.todense(), sp),
        "matmul(sp, d)": lambda sp, c, d: sparse.matmul(sp, d),
        "matmul(c.T, sp)": lambda sp, c, d: sparse.matmul(c.T, sp),
        "tensordot(sp, d)": lambda sp, c, d: sparse.tensordot(sp, d, axes=1),
        "tensordot(c, sp)": lambda sp, c, d: sparse.tensordot(c, sp, axes=((0, 1), (0, 1))),
        "c.T @ sp": lambda sp, c, d: c.T @ sp,
        "sp @ d": lambda sp, c, d: sp @ d,
        "gcxs(c.T) @ sp": lambda sp, c, d: c.T.asformat("gcxs") @ sp,
        "asarray(sp)": lambda sp, c, d: sparse.asarray(sp),
        "asarray(sp, gcxs)": lambda sp, c, d: sparse.asarray(sp, format="gcxs"),
        "asarray(sp, coo)": lambda sp, c, d: sparse.asarray(sp, format="coo"),
        "asarray(sp, dok)": lambda sp, c, d: sparse.asarray(sp, format="dok"),
        "GCXS(sp)": lambda sp, c, d: sparse.GCXS(sp),
        "GCXS.from_scipy_sparse": lambda sp, c, d: sparse.GCXS.from_scipy_sparse(sp),
        "CSR.from_scipy_sparse": lambda sp, c, d: CSR.from_scipy_sparse(sp),
        "CSC.from_scipy_sparse": lambda sp, c, d: CSC.from_scipy_sparse(sp),
        "CSR(sp)": lambda sp, c, d: CSR(sp),
        "CSC(sp)": lambda sp, c, d: CSC(sp),
        "COO.from_scipy_sparse": lambda sp, c, d: sparse.COO.from_scipy_sparse(sp),
        "COO(sp)": lambda sp, c, d: sparse.COO(sp),
        "DOK.from_scipy_sparse": lambda sp, c, d: sparse.DOK.from_scipy_sparse(sp),
        "DOK(sp)": lambda sp, c, d: sparse.DOK(sp),
        "as_coo(sp)": lambda sp, c, d: sparse.as_coo(sp),
        "c + sp": lambda sp, c, d: c + sp,
        "sp + c": lambda sp, c, d: sp + c,
        "c * sp": lambda sp, c, d: c * sp,
        "elemwise(add)": lambda sp, c, d: sparse.elemwise(np.add, c, sp),
        "np.maximum(c, sp)": lambda sp, c, d: np.maximum(c, sp),
        "where": lambda sp, c, d: sparse.where(c > 1, sp, c),
        "concatenate": lambda sp, c, d: sparse.concatenate([sp, c], axis=0),
        "stack": lambda sp, c, d: sparse.stack([c, sp]),
        "kron": lambda sp, c, d: sparse.kron(sp, d),
        "sum(sp)": lambda sp, c, d: sparse.sum(sp, axis=0),
        "nansum(sp)": lambda sp, c, d: sparse.nansum(sp),
        "argmax(sp)": lambda sp, c, d: sparse.argmax(sp, axis=0),
        "sort(sp)": lambda sp, c, d: sparse.sort(sp),
        "unique_values(sp)": lambda sp, c, d: sparse.unique_values(sp),
        "flip(sp)": lambda sp, c, d: sparse.flip(sp, axis=0),
        "roll(sp)": lambda sp, c, d: sparse.roll(sp, 1, axis=0),
        "triu(sp)": lambda sp, c, d: sparse.triu(sp),
        "diagonal(sp)": lambda sp, c, d: sparse.diagonal(sp),
        "transpose(sp)": lambda sp, c, d: sparse.permute_dims(sp, (1, 0)),
        "reshape(sp)": lambda sp, c, d: sparse.reshape(sp, (-1,)),
        "squeeze(sp)": lambda sp, c, d: sparse.squeeze(sparse.expand_dims(sp, axis=0), 0),
        "isnan(sp)": lambda sp, c, d: sparse.isnan(sp),
        "astype(sp)": lambda sp, c, d: sparse.astype(sp, np.float32),
        "einsum": lambda sp, c, d: sparse.einsum("ij,jk->ik", sp, d),
        "pad(sp)": lambda sp, c, d: sparse.pad(sp, 1),
        "save_npz": lambda sp, c, d: sparse.save_npz(__import__("io").BytesIO(), sp),
        "result_type": lambda sp, c, d: sparse.result_type(sp, c),
        "asnumpy(sp)": lambda sp, c, d: sparse.asnumpy(sp),
    }


def _impl_snap_scipy(case):
    import numpy as np
    import sparse
    rng = np.random.default_rng(case["seed"])
    sc = case["scipy"]
    sp, arrays = _mk_scipy(rng, sc["fmt"], sc["state"], tuple(case["shape"]), sc["as_array"], case["floaty"])
    n, m = case["shape"]
    c = sparse.COO.from_numpy(_rand_dense(rng, (n, m), 0, 0.5, case["floaty"], False))
    d = sparse.COO.from_numpy(_rand_dense(rng, (m, 2), 0, 0.6, case["floaty"], False))
    operands = [sp] + arrays + [c, d]
    before = [_snapshot(o) for o in operands]
    exc, res = None, None
    try:
        with np.errstate(all="ignore"):
            res = _scipy_ops()[case["op"]](sp, c, d)
    except Exception as ex:  # noqa: BLE001
        exc = type(ex).__name__
    after = [_snapshot(o) for o in operands]
    wrote = _scribble(res, operands)
    after_write = [_snapshot(o) for o in operands]
    return {"before": before, "after": after, "after_write": after_write, "wrote": wrote, "exc": exc,
            "n_operands": len(operands)}


def impl_snap(case):
    """case = dict(op, fmt, shape, fill, seed, share, floaty) -> digests before / after the call / after the caller
    has written into every dense array of the result"""
    import numpy as np
    import sparse
    if case.get("scipy"):
        return _impl_snap_scipy(case)
    rng = np.random.default_rng(case["seed"])
    T = _ops_table()
    arity, f = T[case["op"]]
    shape = tuple(case["shape"])
    fill = case["fill"]
    floaty = case["floaty"]
    a = _rand_dense(rng, shape, fill, 0.5, floaty, case["op"].startswith("nan"), case.get("pattern", "random"),
                    case.get("negative", False))
    operands = []
    share = case["share"]
    fmt = case["fmt"]
    if share == "user-arrays" and fmt == "coo" and a.ndim >= 1:
        # a COO built directly on caller-owned, already canonical arrays (np.asarray shares them)
        nz = np.nonzero(a != fill) if not floaty else np.nonzero(~(a == fill))
        coords = np.ascontiguousarray(np.stack(nz)) if a.ndim else np.zeros((0, 0), dtype=np.intp)
        data = np.ascontiguousarray(a[nz])
        x = sparse.COO(coords, data, shape=shape, has_duplicates=False, sorted=True, fill_value=fill)
        operands += [coords, data, x]
    else:
        x = _to_fmt(a, fmt, fill, rng)
        operands.append(x)
        if share == "T" and not isinstance(x, sparse.DOK) and x.ndim >= 1:
            base = x
            x = base.T                      # shares data (COO) / everything (2-d GCXS)
            operands.append(x)
        elif share == "view" and not isinstance(x, sparse.DOK) and x.ndim >= 1:
            base = x
            x = base[None].squeeze(0) if isinstance(base, sparse.COO) else base.reshape(base.shape)
            v2 = base.reshape(base.shape + (1,)) if isinstance(base, sparse.COO) else base
            operands += [x, v2]
        elif share == "explicit-zero" and not isinstance(x, sparse.DOK) and x.nnz:
            # an operand that stores its fill value explicitly (unpruned): canonicalising it is visible in nnz/buffers
            k = int(rng.integers(0, x.nnz))
            data = x.data.copy()
            data[k] = x.fill_value
            if isinstance(x, sparse.COO):
                x = sparse.COO(x.coords.copy(), data, shape=x.shape, has_duplicates=False, sorted=True, prune=False,
                               fill_value=x.fill_value)
            else:
                ip = x.indptr.copy() if hasattr(x.indptr, "copy") and not isinstance(x.indptr, (list, tuple)) else x.indptr
                x = type(x)((data, x.indices.copy(), ip), shape=x.shape,
                            compressed_axes=x.compressed_axes, fill_value=x.fill_value)
            operands[-1] = x
        elif share == "cached" and isinstance(x, sparse.COO):
            x.enable_caching()
            operands += [x.T, x.reshape((-1,)) if x.ndim else x]
    y = None
    if arity == 2:
        yshape = x.shape
        ya = _rand_dense(rng, tuple(yshape), fill, 0.5, floaty, False)
        y = _to_fmt(ya, case.get("fmt2", fmt), fill, rng)
        if share == "same":
            y = x
        operands.append(y)
    elif arity == "dot":
        k = x.shape[-1] if x.ndim else 1
        yshape = (k, 2) if x.ndim != 1 or case["seed"] % 2 else (k,)
        ya = _rand_dense(rng, yshape, 0, 0.6, floaty, False)
        y = _to_fmt(ya, case.get("fmt2", fmt), 0, rng)
        if share == "same" and x.ndim == 2 and x.shape[0] == x.shape[1]:
            y = x
        operands.append(y)
    before = [_snapshot(o) for o in operands]
    exc, res = None, None
    try:
        with np.errstate(all="ignore"):
            res = f(x, rng) if arity == 1 else f(x, y, rng)
    except Exception as ex:  # noqa: BLE001
        exc = type(ex).__name__
    after = [_snapshot(o) for o in operands]
    # dense results are documented as new arrays: the caller may post-process them in place
    # ... unless the call legitimately handed back an operand (astype(copy=False), asformat, identity transpose ...);
    # a reduction never may: its result is written into even when it IS an operand object
    must_be_fresh = case["op"].split("_")[0] in ("sum", "prod", "max", "min", "mean", "var", "std", "any", "all", "nansum",
                                                 "nanmax", "nanmin", "nanprod", "nanmean", "np.sum", "reduce", "argmax",
                                                 "argmin")
    wrote = _scribble(res, () if must_be_fresh else operands)
    after_write = [_snapshot(o) for o in operands]
    return {"before": before, "after": after, "after_write": after_write, "wrote": wrote, "exc": exc,
            "n_operands": len(operands)}


def snap_cases(tier, seed, budget):
    rng = random.Random(seed * 104729 + 5)
    names = sorted(_ops_table_names())
    fmts = ["coo", "gcxs0", "gcxs1", "gcxs2", "dok"]
    shapes = [(3,), (4,), (2, 3), (3, 3), (1, 4), (4, 1), (2, 2, 3), (3, 1, 2), (2, 3, 2, 2), (0, 3), (5,), (2, 0, 2)]
    shares = ["plain", "plain", "T", "view", "cached", "user-arrays", "same", "explicit-zero", "explicit-zero"]
    fills = [0, 0, 0, 3, 1]
    reps = (2 if tier == "quick" else 6) * budget
    cases = []
    for op in names:
        for fmt in fmts:
            for _ in range(reps):
                shape = rng.choice(shapes if rng.random() < 0.9 else [()])
                fill = rng.choice(fills)
                if op in ("tocsr", "tocsc", "to_scipy", "matrix_transpose", "triu", "tril", "mT") and rng.random() < 0.8:
                    shape = rng.choice([(2, 3), (3, 3), (1, 4), (4, 1)])      # mostly admissible operands
                    fill = 0
                if op in ("dot", "matmul", "sparse.matmul", "tensordot1", "dot_dense", "rdot_dense", "einsum", "kron",
                          "outer_flat") and (0 in shape or len(shape) == 0):
                    shape = (2, 3)           # zero-extent contractions can hang in a nogil kernel (C18's subject)
                cases.append({"op": op, "fmt": fmt, "shape": list(shape), "fill": fill,
                              "seed": rng.randrange(1 << 30), "share": rng.choice(shares),
                              "floaty": op.startswith("nan") or rng.random() < 0.25,
                              "fmt2": rng.choice(fmts),
                              "pattern": rng.choice(["random", "random", "random", "one-per-row", "one-per-col",
                                                     "diagonal", "full", "full", "empty", "single"]),
                              "negative": rng.random() < 0.35})
    # scipy.sparse operands through every entry point that accepts them
    sreps = (1 if tier == "quick" else 3) * budget
    for op in sorted(_scipy_op_names()):
        for sfmt in ("csr", "csc", "coo"):
            for state in ("canonical", "unsorted", "sorted-dup", "unsorted-dup"):
                for _ in range(sreps):
                    cases.append({"op": op, "fmt": "scipy-" + sfmt, "shape": list(rng.choice([(2, 3), (3, 3), (3, 4), (4, 2)])),
                                  "fill": 0, "seed": rng.randrange(1 << 30), "share": "scipy-" + state,
                                  "floaty": rng.random() < 0.5, "pattern": "scipy", "negative": False,
                                  "scipy": {"fmt": sfmt, "state": state, "as_array": rng.random() < 0.5}})
    return cases


def _scipy_op_names():
    import sys
    if vlib.REPO not in sys.path:
        sys.path.insert(0, vlib.REPO)
    return list(_scipy_ops().keys())


def _ops_table_names():
    # the table needs numpy/sparse only inside the lambdas; importing them in the parent is cheap enough
    import sys
    if vlib.REPO not in sys.path:
        sys.path.insert(0, vlib.REPO)
    return list(_ops_table().keys())


SNAP_CODES = {1: "an operand's shape / dtype / fill value / array flags changed",
              2: "the bytes of an operand's buffer (coords/data/indices/indptr/DOK items) changed",
              3: "the number of operands changed"}


def campaign_snap(build, tier, seed, report, budget):
    cases = snap_cases(tier, seed, budget)
    res = run_guarded("impl_snap", cases, 14, 60.0, batch=2500)
    lits, idx, viol = [], [], []
    tags = {}
    hangs = 0

    def sn(s):
        return vpair(vZ(s[0]), vlist(s[1]))
    for i, (c, r) in enumerate(zip(cases, res, strict=True)):
        if "before" not in r:
            if r.get("hang"):
                hangs += 1          # termination is C18's subject; nothing can be said about the operands
                continue
            viol.append({"property": "C11", "op": c["op"], "kind": "representation", "clause": None, "case": c,
                         "impl": r, "what": "snapshot runner failed", "replay_py": _replay_line("impl_snap", c)})
            continue
        lits.append(vpair(vlist(r["before"], sn), vlist(r["after"], sn)))
        idx.append((i, "call"))
        if r.get("wrote"):
            lits.append(vpair(vlist(r["before"], sn), vlist(r["after_write"], sn)))
            idx.append((i, "write-into-result"))
            tags["dense result written into"] = tags.get("dense result written into", 0) + 1
        key = f"{c['fmt']}/{c['share']}/{'raised' if r['exc'] else 'ok'}"
        tags["pattern:" + c["pattern"]] = tags.get("pattern:" + c["pattern"], 0) + 1
        tags[key] = tags.get(key, 0) + 1
    bad = build.judge("c11_snap", "From Verif Require Import C11Judge.", "snap_case", "judge_snap", lits, chunk=500)
    seen_pairs = set()
    for k, code in bad:
        i, phase = idx[k]
        if (i, "call") in seen_pairs:
            continue                 # already reported for the call itself
        seen_pairs.add((i, phase))
        what = SNAP_CODES.get(code, str(code))
        if phase == "write-into-result":
            what = ("the dense result shares a buffer with an operand: after the caller wrote into the result, " + what)
        viol.append({"property": "C11", "op": cases[i]["op"], "kind": "value", "clause": None, "code": code,
                     "phase": phase, "what": what, "format": cases[i]["fmt"], "case": cases[i],
                     "impl": res[i], "replay_py": _replay_line("impl_snap", cases[i])})
    cov = report["coverage"]
    cov["snap_cases"] = len(cases)
    cov["snap_ops"] = len({c["op"] for c in cases})
    cov["snap_hangs_skipped"] = hangs
    cov["snap_ok_calls"] = sum(1 for r in res if "before" in r and not r["exc"])
    cov["snap_raised_calls"] = sum(1 for r in res if "before" in r and r["exc"])
    ok_by_op = {}
    for c, r in zip(cases, res, strict=True):
        if "before" in r and not r["exc"]:
            ok_by_op[c["op"]] = ok_by_op.get(c["op"], 0) + 1
    cov["snap_ops_never_succeeding"] = sorted(set(c["op"] for c in cases) - set(ok_by_op))
    return viol, tags, [dict(case=cases[j], impl=res[j]) for j in (0, len(cases) // 2)]


# ====================================================================== entry points
def campaign(build, tier, seed, report, budget=1):
    v1, t1, s1 = campaign_hist(build, tier, seed, report, budget)
    v3, t3, s3 = campaign_free(build, tier, seed, report, budget)
    v2, t2, s2 = campaign_snap(build, tier, seed, report, budget)
    v1, s1 = v1 + v3, s1 + s3
    t1 = {**t1, **t3}
    cov = report["coverage"]
    cov["evaluations"] = cov["hist_calls"] + cov["free_steps"] + cov["snap_cases"]
    cov["distinct_nontrivial"] = cov["hist_cases"] + cov["free_cases"] + cov["snap_ok_calls"]
    cov["rule"] = ("part 1: random histories of transpose/.T/reshape/tocsr/tocsc/dot calls (length <= 30 quick, <= 200 "
                   "thorough) on one cache-enabled COO and on the cache-enabled objects it returned, each run with "
                   "and without caching, judged in Coq against Model/Cache.v; distinct = histories.  part 2: every "
                   "operation of a fixed table x {COO, GCXS(3 compressed-axes choices), DOK} x random small operands "
                   "with buffer-sharing variants; distinct = calls that returned normally (a raising call must "
                   "leave its operands intact too and is judged as well)")
    cov["samples"] = s1 + s2
    cov["branch_tags"] = {**{"hist:" + k: v for k, v in sorted(t1.items())}, **{"snap:" + k: v for k, v in sorted(t2.items())}}
    rep = build.gen_report.get("alias.py", {})
    cov["effect_summaries"] = {k: v for k, v in rep.get("effect_summaries", {}).items() if k != "rejected"}
    cov["rejected_summaries"] = rep.get("effect_summaries", {}).get("rejected", {})
    # a summary the checker rejects: say which write, so that the obligation failure is readable
    viol = sorted(v1 + v2, key=lambda v: 0 if v["kind"] == "value" else 1)      # failing inputs first
    for fn, ws in cov["rejected_summaries"].items():
        viol.append({"property": "C11", "op": "effect-summary", "kind": "representation", "clause": None,
                     "what": f"{fn}: a write may reach a buffer or attribute of an argument: {ws[:3]}",
                     "case": {"function": fn, "writes": ws}, "impl": None,
                     "replay_py": "import sys; sys.path.insert(0,'/verif/tools/sitegen'); import alias, json; "
                                  "print(json.dumps(alias.generate('/repo')[1]['effect_summaries']['rejected'], indent=1))"})
    return viol


def replay(path):
    v = json.load(open(path))
    print(json.dumps(v, indent=1, default=str)[:4000])
    if "replay_py" in v:
        import subprocess
        p = subprocess.run([vlib.PY, "-c", v["replay_py"]], env=vlib.env_clean(), capture_output=True, text=True)
        print(p.stdout[-3000:], p.stderr[-800:])
    return 0
