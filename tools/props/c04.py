"""C04 — products and contractions.

Campaign.  Kernel level: the typed numba kernels obtained from the `_dot_*_type(dt1, dt2)`
factories of sparse/numba_backend/_common.py are called on raw arrays and compared INSIDE Coq with
Model/Dot.v (exact output: data, indices in emission order, indptr; `_csr_csr_count_nnz` against
the model's pre-count; the fuelled model of `_dot_coo_ndarray` with the fuel bound of the
termination theorem) and with Spec/NpDot.v (the four ndarray kernels and their sparse variants:
Spec only).  API level: dot / matmul / @ / tensordot / einsum / vecdot / kron / outer over operand
kinds {COO, GCXS(any compressed axes), scipy csr/csc, ndarray}^2 x return_type x 1-4-d shapes with
extents {0,1,2,3} x contraction axes, integer data with forced cancellations; the result must be
what NumPy returns on the densified operands (shape, values; dtype compared in Python,
differential only), of the requested kind, canonical (sarr_wfb) and pruned; for 2-d products the
Spec is evaluated inside Coq; for GCXS x GCXS the model's exact representation is compared.
Every implementation call runs under vlib.run_impl's watchdog: a hang is a failing input."""
import itertools
import json
import os
import random
import time

import vlib
from vlib import vZ, vlist, vpair

LEVEL = "proof"
TRUSTED_BASE = [
    "Coq 8.16.1 kernel + vm_compute (case evaluation, the finite dispatch comparison); "
    "no native_compute",
    "axioms: none (Print Assumptions: Closed under the global context for every C04 theorem)",
    "Model/Dot.v as a transcription of the Python source of the numba kernels (_csr_csr_count_nnz, _dot_csr_csr incl. its "
    "per-row argsort, _dot_coo_coo, _dot_coo_ndarray, _csc_ndarray_count_nnz, _dot_csc_ndarray_sparse, GCXS._prune); Numba's "
    "compilation is trusted to preserve the source semantics, checked by running the COMPILED kernels against the model on "
    "every generated case (exact output: data, indices in order, indptr)",
    "modelling of buffers: every write to a pre-sized output buffer is `buf[nnz] = ...; nnz += 1`, so a buffer is the list of "
    "cells written plus its capacity (longer = out-of-bounds write, shorter = unwritten np.empty tail); scratch reads outside "
    "a buffer return a default (cannot happen on well-formed operands, which the theorems assume); the per-row "
    "np.argsort is any sorting permutation (the row's columns are proved pairwise distinct, so the sorted row is unique)",
    "tools/py2v.py (Gen/G_dot.v: dot, tensordot's 0-d block, vecdot) and tools/sitegen/dot.py (Gen/S_dot.v: abstract "
    "execution of _dot's AST over operand kinds x return types, matmul's case chain, tensordot's zero-size shortcut) with "
    "their extern maps / pinned statement texts",
    "Spec/NpDot.v as a description of np.matmul / np.dot (1-d) / np.tensordot on dense arrays, cross-checked against NumPy "
    "on every generated 2-d case (verdict code 22)",
    "csr_den (Model/Dot.v) is proved equal to the shared gden of Model/GCXS.v on well-formed CSR triples (csr_den_gden)",
    "tensordot_den is about the axis bookkeeping on the dense meaning of the operands: den-correctness of COO/GCXS "
    "transpose and reshape is C08's subject",
    "correspondence harness tools/props/c04.py, tools/vlib.py; scipy.sparse operands are converted by "
    "GCXS.from_scipy_sparse (not modelled)",
]
ASSUMPTIONS = [
    "IEEE negative zero (real or imaginary part) is read as zero when results are compared (np.matmul yields -0.0 for "
    "0 * negative; numerically equal, and not representable as an absent entry of a sparse array)",
    "element values form a commutative semiring in spgemm_den / spgemm_csc_den (hypothesis comm_semiring, instantiated at "
    "Z in the Examples and in the judge); float rounding, dtype promotion and overflow of narrow integers are not modelled "
    "(result dtypes: differential only, compared in Python)",
    "multi-operand einsum, _parse_einsum_input, outer, vecdot: correspondence only (against NumPy), no theorem",
]
UNPROVED = [
    "multi-operand einsum (align, broadcast-multiply, final single einsum) and _parse_einsum_input (string parsing, '...' "
    "expansion): differential only; einsum_single_den covers the single-operand step on a canonical COO operand (the "
    "GCXS round trip through from_coo is not modelled)",
    "outer and vecdot (compositions of flatten / elementwise multiply / sum, i.e. C01/C03/C08 operations): differential only",
    "kron_den and matmul_rec_den are about operands of equal rank: the prepending of length-1 axes (reshape / a[(None,)*k]), "
    "the stack of the per-batch results and the sparse getitem a[i] are C08/C09/C02 subjects",
    "COO constructor steps after the kernels (sorting for sorted=False, summation for has_duplicates=True) are C05's "
    "subject; tensordot's sparse transposes/reshapes are C08's",
]

CL_D20 = "D20_gcxs_zero_extent"
CL_MM0 = "matmul_zero_length_batch_extent"
CL_ES1 = "einsum_extent_one_not_broadcast"
CL_SCIPY = "scipy_operand_rejected"
# (csc_ndarray_sparse_rows_unsorted and csc_ndarray_sparse_count_overestimates_on_cancellation were repaired in /repo:
#  no clause any more, a recurrence is a new violation)
CL_CSCND = None
CL_CSCCOUNT = None


CASE_KEYS = ("op", "a", "ka", "b", "kb", "rt", "axes", "sub", "axis", "dta", "dtb", "idx")
PER_CASE_TIMEOUT = 15.0     # vlib allows 4x this per case (see run_impl): 60 s; JIT compilation of a kernel chain under load takes 10-25 s


# ====================================================================== implementation side
def _np():
    import numpy as np
    return np


def _dense(spec, dt):
    np = _np()
    if spec.get("gen"):         # large operands are described by a seed: [seed, density, lo, hi]
        seed, density, lo, hi = spec["gen"]
        g = np.random.default_rng(seed)
        x = g.integers(lo, hi + 1, size=tuple(spec["shape"])).astype(np.int64)
        x[g.random(tuple(spec["shape"])) >= density] = 0
        return x.astype(dt)
    d = np.zeros(tuple(spec["shape"]), dtype=dt)
    for c, v in zip(spec["coords"], spec["data"], strict=True):
        d[tuple(c)] = v
    sc = spec.get("scale")
    if sc:          # complex values with non-zero imaginary parts / int64 values whose products exceed 2**53
        d = d * {"cxa": 1 + 2j, "cxb": 2 - 1j, "biga": (1 << 27) + 1, "bigb": (1 << 27) + 3}[sc]
        d = d.astype(dt)
    return d


def _mk(d, kind, caxes, idx=None):
    import scipy.sparse as sps
    import sparse
    np = _np()
    if d.ndim == 0 and kind in ("coo", "gcxs"):
        # a ZERO-FILLED 0-d sparse operand (COO.from_numpy of a 0-d array keeps the value as the fill value instead)
        nz = 1 if d != 0 else 0
        x = sparse.COO(np.zeros((0, nz), dtype=np.intp), np.full(nz, d[()], dtype=d.dtype), shape=(), fill_value=d.dtype.type(0))
        return x if kind == "coo" else sparse.GCXS.from_coo(x)
    if idx and kind in ("coo", "gcxs"):
        # coordinates in a narrow index dtype (every axis fits; the number of stored elements need not)
        nz = np.nonzero(d)
        x = sparse.COO(np.stack(nz), d[nz], shape=d.shape, idx_dtype=np.dtype(idx))
        assert x.coords.dtype == np.dtype(idx)
        if kind == "coo":
            return x
        if d.ndim >= 2 and caxes is not None:
            return sparse.GCXS.from_coo(x, compressed_axes=tuple(caxes))
        return sparse.GCXS.from_coo(x)
    if kind == "coo":
        return sparse.COO.from_numpy(d)
    if kind == "gcxs":
        if d.ndim >= 2 and caxes is not None:
            return sparse.GCXS.from_numpy(d, compressed_axes=tuple(caxes))
        return sparse.GCXS.from_numpy(d)
    if kind == "csr":
        return sps.csr_matrix(d)
    if kind == "csc":
        return sps.csc_matrix(d)
    if kind == "csra":
        return sps.csr_array(d)
    if kind == "nd":
        return d
    raise ValueError(kind)


def _rt(rt):
    import sparse
    np = _np()
    return {None: None, "coo": sparse.COO, "gcxs": sparse.GCXS, "nd": np.ndarray}[rt]


def _axes(ax):
    if isinstance(ax, list):
        return tuple(_axes(x) for x in ax)
    return ax


def _plain(obj):
    """vlib.plain with IEEE negative zeros (real or imaginary part) read as zero: -0.0 == 0.0 numerically, np.matmul
    produces it for products like 0 * (-1.0), and a sparse array cannot store it as an absent entry; vlib.val_token
    would make it an opaque token different from 0"""
    np = _np()
    import sparse
    p = vlib.plain(obj)
    try:
        if isinstance(obj, np.ndarray) and obj.dtype.kind in "fc":
            p["flat"] = [vlib.val_token(v) for v in (obj + 0).reshape(-1)]
        elif isinstance(obj, (sparse.COO, sparse.GCXS)) and obj.dtype.kind in "fc":
            p["data"] = [vlib.val_token(v) for v in (np.asarray(obj.data) + 0)]
            p["fill"] = vlib.val_token(obj.fill_value + 0)
        elif isinstance(obj, (float, complex, np.floating, np.complexfloating)):
            p["v"] = vlib.val_token(obj + 0)
    except Exception:  # noqa: BLE001
        pass
    return p


_CALLS = []
_FACTORIES = ("_dot_csr_csr_type", "_dot_csr_ndarray_type", "_dot_csr_ndarray_type_sparse", "_dot_csc_ndarray_type",
              "_dot_csc_ndarray_type_sparse", "_dot_coo_coo_type", "_dot_coo_ndarray_type", "_dot_coo_ndarray_type_sparse",
              "_dot_ndarray_coo_type", "_dot_ndarray_coo_type_sparse")


def _record_kernels():
    """observe which kernel factories _dot calls (the module attributes are looked up at call time); the wrappers
    only record the name and pass everything through"""
    from sparse.numba_backend import _common as C
    if getattr(C, "_c04_recording", False):
        return
    for name in _FACTORIES:
        orig = getattr(C, name)

        def mk(orig, name):
            def w(*a):
                _CALLS.append(name)
                return orig(*a)
            return w
        setattr(C, name, mk(orig, name))
    C._c04_recording = True


def impl_api(case):
    """one API-level call and NumPy's answer on the densified operands"""
    import sparse
    np = _np()
    _record_kernels()
    del _CALLS[:]
    op = case["op"]
    da = _dense(case["a"], case.get("dta", "int64"))
    db = _dense(case["b"], case.get("dtb", "int64")) if case.get("b") is not None else None
    out = {}

    def ref():
        if op == "tensordot":
            return np.tensordot(da, db, axes=_axes(case["axes"]))
        if op == "dot":
            return np.dot(da, db)
        if op in ("matmul", "at"):
            return np.matmul(da, db)
        if op == "einsum":
            return np.einsum(case["sub"], da, db) if db is not None else np.einsum(case["sub"], da)
        if op == "vecdot":
            return np.vecdot(da, db, axis=case["axis"])
        if op == "kron":
            return np.kron(da, db)
        if op == "outer":
            return np.outer(da, db)
        raise ValueError(op)

    try:
        e = ref()
    except Exception as ex:  # noqa: BLE001
        e = ex
    out["np"] = _plain(e if isinstance(e, (BaseException, np.ndarray)) else np.asarray(e))
    a = _mk(da, case["ka"], case["a"].get("caxes"), case.get("idx"))
    b = _mk(db, case["kb"], case["b"].get("caxes"), case.get("idx")) if db is not None else None
    try:
        if op == "tensordot":
            r = sparse.tensordot(a, b, axes=_axes(case["axes"]), return_type=_rt(case.get("rt")))
        elif op == "dot":
            r = sparse.dot(a, b)
        elif op == "matmul":
            r = sparse.matmul(a, b)
        elif op == "at":
            r = a @ b
        elif op == "einsum":
            r = sparse.einsum(case["sub"], a, b) if b is not None else sparse.einsum(case["sub"], a)
        elif op == "vecdot":
            r = sparse.vecdot(a, b, axis=case["axis"])
        elif op == "kron":
            r = sparse.kron(a, b)
        elif op == "outer":
            r = sparse.outer(a, b)
        else:
            raise ValueError(op)
    except Exception as ex:  # noqa: BLE001
        r = ex
    out["r"] = _plain(r)
    out["kernels"] = list(_CALLS)
    out["follow"] = []
    # downstream use of a 2-d sparse result: column slices (D8: unsorted rows make them wrong)
    if isinstance(r, sparse.GCXS) and r.ndim == 2 and isinstance(e, np.ndarray) and e.shape == r.shape \
            and case.get("follow", True):
        p = r.shape[1]
        for lo, hi in ((1, p), (0, p - 1), (1, 2)):
            if 0 <= lo < hi <= p and (lo, hi) != (0, p):
                try:
                    s = r[:, lo:hi]
                except Exception as ex:  # noqa: BLE001
                    s = ex
                out["follow"].append({"lo": lo, "hi": hi, "r": _plain(s), "np": _plain(e[:, lo:hi])})
    return out


def _csr_arrays(t, dt):
    np = _np()
    return (np.array(t["data"], dtype=dt), np.array(t["indices"], dtype=np.intp), np.array(t["indptr"], dtype=np.intp))


def impl_kernel(case):
    """one kernel-level call on raw arrays"""
    np = _np()
    from sparse.numba_backend import _common as C
    k = case["k"]
    dt1, dt2 = np.dtype(case["dt"][0]), np.dtype(case["dt"][1])
    m, n, p = case["m"], case["n"], case["p"]
    out = {}
    try:
        if k in ("csr_csr", "coo_coo"):
            ad, ai, ap = _csr_arrays(case["A"], dt1)
            bd, bi, bp = _csr_arrays(case["B"], dt2)
            if k == "csr_csr":
                out["count"] = int(C._csr_csr_count_nnz((m, p), ai, bi, ap, bp))
                data, indices, indptr = C._dot_csr_csr_type(dt1, dt2)((m, p), ad, bd, ai, bi, ap, bp)
                out["r"] = {"k": "gcxs", "shape": [m, p], "caxes": [0], "data": [vlib.val_token(v + 0) for v in data],
                            "indices": [int(v) for v in indices], "indptr": [int(v) for v in indptr], "fill": 0,
                            "dtype": str(data.dtype)}
            else:
                def coords(ii, pp):
                    rows = np.repeat(np.arange(len(pp) - 1, dtype=np.intp), np.diff(pp))
                    return np.stack([rows, ii]).astype(np.intp)
                ac, bc = coords(ai, ap), coords(bi, bp)
                # indptr as _dot computes it
                a_indptr = np.empty(m + 1, dtype=np.intp)
                a_indptr[0] = 0
                np.cumsum(np.bincount(ac[0], minlength=m), out=a_indptr[1:])
                b_indptr = np.empty(n + 1, dtype=np.intp)
                b_indptr[0] = 0
                np.cumsum(np.bincount(bc[0], minlength=n), out=b_indptr[1:])
                co, data = C._dot_coo_coo_type(dt1, dt2)((m, p), ac, bc, ad, bd, a_indptr, b_indptr)
                out["r"] = {"k": "coo", "shape": [m, p], "coords": [[int(co[0, t]), int(co[1, t])] for t in range(co.shape[1])],
                            "data": [vlib.val_token(v + 0) for v in data], "fill": 0, "dtype": str(data.dtype)}
        elif k in ("coo_nd", "coo_nd_sparse"):
            co = np.array([case["rows"], case["cols"]], dtype=np.intp).reshape(2, len(case["data"]))
            data1 = np.array(case["data"], dtype=dt1)
            B = np.array(case["Bd"], dtype=dt2).reshape(n, p)
            array2 = B.view(type=np.ndarray).T
            if k == "coo_nd":
                r = C._dot_coo_ndarray_type(dt1, dt2)(co, data1, array2, (m, p))
                out["r"] = vlib.plain(r)
            else:
                cc, dd = C._dot_coo_ndarray_type_sparse(dt1, dt2)(co, data1, array2, (m, p))
                out["r"] = {"k": "coo", "shape": [m, p], "coords": [[int(cc[0, t]), int(cc[1, t])] for t in range(cc.shape[1])],
                            "data": [vlib.val_token(v + 0) for v in dd], "fill": 0, "dtype": str(dd.dtype)}
        else:
            import sparse
            A = np.array(case["Ad"], dtype=dt1).reshape(m, n)
            B = np.array(case["Bd"], dtype=dt2).reshape(n, p)
            if k in ("csr_nd", "csr_nd_sparse"):
                ad, ai, ap = _csr_arrays(case["A"], dt1)
                if k == "csr_nd":
                    out["r"] = _plain(C._dot_csr_ndarray_type(dt1, dt2)((m, p), ad, ai, ap, B))
                else:
                    d, i, ip = C._dot_csr_ndarray_type_sparse(dt1, dt2)((m, p), ad, ai, ap, B)
                    out["r"] = {"k": "gcxs", "shape": [m, p], "caxes": [0], "data": [vlib.val_token(v + 0) for v in d],
                                "indices": [int(v) for v in i], "indptr": [int(v) for v in ip], "fill": 0, "dtype": str(d.dtype)}
            elif k in ("csc_nd", "csc_nd_sparse"):
                ad, ai, ap = _csr_arrays(case["Ac"], dt1)
                if k == "csc_nd":
                    out["r"] = _plain(C._dot_csc_ndarray_type(dt1, dt2)((m, n), (n, p), ad, ai, ap, B))
                else:
                    d, i, ip = C._dot_csc_ndarray_type_sparse(dt1, dt2)((m, n), (n, p), ad, ai, ap, B)
                    out["r"] = {"k": "gcxs", "shape": [m, p], "caxes": [1], "data": [vlib.val_token(v + 0) for v in d],
                                "indices": [int(v) for v in i], "indptr": [int(v) for v in ip], "fill": 0, "dtype": str(d.dtype)}
            elif k in ("nd_coo", "nd_coo_sparse"):
                cells = case["cells"]
                co = np.array([[c[0] for c in cells], [c[1] for c in cells]], dtype=np.intp).reshape(2, len(cells))
                d2 = np.array([c[2] for c in cells], dtype=dt2)
                if k == "nd_coo":        # coords2 = b.coords
                    out["r"] = _plain(C._dot_ndarray_coo_type(dt1, dt2)(A, co, d2, (m, p)))
                else:                    # coords2 = b.T.coords
                    cc, dd = C._dot_ndarray_coo_type_sparse(dt1, dt2)(A, co, d2, (m, p))
                    out["r"] = {"k": "coo", "shape": [m, p], "coords": [[int(cc[0, t]), int(cc[1, t])] for t in range(cc.shape[1])],
                                "data": [vlib.val_token(v + 0) for v in dd], "fill": 0, "dtype": str(dd.dtype)}
            else:
                raise ValueError(k)
    except Exception as ex:  # noqa: BLE001
        out["r"] = vlib.plain(ex)
    return out


# ====================================================================== generators
VALS = (-3, -2, -1, 1, 2, 3)


def rand_matrix(rng, m, n, density=None, zeros_ok=False):
    """row-major list of lists with small integers; patterns empty / sparse / full; rows and columns may be empty"""
    if density is None:
        density = rng.choice([0.0, 0.2, 0.4, 0.6, 0.8, 1.0, 1.0])
    M = [[(rng.choice(VALS) if rng.random() < density else 0) for _ in range(n)] for _ in range(m)]
    if m and n and rng.random() < 0.3:        # force an empty row / column
        i = rng.randrange(m)
        M[i] = [0] * n
    if m and n and rng.random() < 0.3:
        j = rng.randrange(n)
        for r in M:
            r[j] = 0
    return M


def cancelling_pair(rng, m, n, p):
    """A (m x n), B (n x p) with n >= 2 such that some products cancel to zero in stored positions"""
    A = rand_matrix(rng, m, n, 0.8)
    B = rand_matrix(rng, n, p, 0.8)
    if m and p and n >= 2:
        i, k = rng.randrange(m), rng.randrange(p)
        j1, j2 = rng.sample(range(n), 2)
        v, w = rng.choice(VALS), rng.choice(VALS)
        A[i][j1], B[j1][k] = v, w
        A[i][j2], B[j2][k] = -w, v          # v*w + (-w)*v = 0
        for j in range(n):
            if j not in (j1, j2):
                A[i][j] = 0
    return A, B


def csr_of(M, n, explicit_zero_rate=0.0, rng=None):
    """CSR triple of a row-major matrix (columns ascending); optionally store a few explicit zeros"""
    data, indices, indptr = [], [], [0]
    for row in M:
        for j in range(n):
            if row[j] != 0 or (rng is not None and rng.random() < explicit_zero_rate):
                data.append(row[j])
                indices.append(j)
        indptr.append(len(data))
    return {"data": data, "indices": indices, "indptr": indptr}


def spec_of(M, shape):
    """array spec (shape, sorted coords, data) of a nested-list tensor"""
    coords, data = [], []
    for ix in itertools.product(*[range(d) for d in shape]):
        v = M
        for i in ix:
            v = v[i]
        if v != 0:
            coords.append(list(ix))
            data.append(v)
    return {"shape": list(shape), "coords": coords, "data": data, "fill": 0}


def rand_spec(rng, shape, density=None):
    if density is None:
        density = rng.choice([0.0, 0.3, 0.6, 1.0])
    coords, data = [], []
    for ix in itertools.product(*[range(d) for d in shape]):
        if rng.random() < density:
            coords.append(list(ix))
            data.append(rng.choice(VALS))
    return {"shape": list(shape), "coords": coords, "data": data, "fill": 0}


def mat_spec(M, m, n):
    return spec_of(M, (m, n))


def with_kind(rng, spec, kind):
    s = dict(spec)
    nd = len(s["shape"])
    s["caxes"] = None
    if kind in ("g0", "g1"):
        s["caxes"] = [0] if kind == "g0" else [1]
        kind = "gcxs"
    elif kind == "gcxs" and nd >= 2:
        k = rng.randint(1, nd - 1)
        s["caxes"] = sorted(rng.sample(range(nd), k))
    return s, kind


def kernel_cases(tier, rng, budget=1):
    cases = []
    ext = [0, 1, 2, 3, 4]
    n_main = (260 if tier == "quick" else 2500) * budget
    shapes = [(m, n, p) for m in ext for n in ext for p in ext]
    for t in range(n_main):
        m, n, p = shapes[t % len(shapes)] if t < 2 * len(shapes) else (rng.choice(ext), rng.choice(ext), rng.choice(ext))
        if t % 5 == 4:
            A, B = cancelling_pair(rng, m, n, p)
        else:
            A, B = rand_matrix(rng, m, n), rand_matrix(rng, n, p)
        ez = 0.15 if t % 3 == 0 else 0.0
        dt = ("int64", "int64") if t % 7 else rng.choice([("int32", "int64"), ("float64", "int64")])
        cases.append({"k": "csr_csr" if t % 4 else "coo_coo", "m": m, "n": n, "p": p, "dt": list(dt),
                      "A": csr_of(A, n, ez, rng), "B": csr_of(B, p, ez, rng)})
    # fully dense results (the reverse-rows patch) incl. ones reached through a non-ascending first touch
    for (m, n, p) in [(1, 1, 1), (2, 2, 2), (2, 3, 3), (3, 2, 4), (1, 3, 2), (2, 2, 1)]:
        A = [[rng.choice(VALS) for _ in range(n)] for _ in range(m)]
        B = [[rng.choice(VALS) for _ in range(p)] for _ in range(n)]
        cases.append({"k": "csr_csr", "m": m, "n": n, "p": p, "dt": ["int64", "int64"], "A": csr_of(A, n), "B": csr_of(B, p)})
        if n >= 2 and p >= 2:
            B2 = [list(r) for r in B]
            B2[0][0] = 0          # first touched column of every row is then not column 0
            cases.append({"k": "csr_csr", "m": m, "n": n, "p": p, "dt": ["int64", "int64"], "A": csr_of(A, n), "B": csr_of(B2, p)})
    # _dot_coo_ndarray (fuelled model), output widths 0..4
    n_cn = 60 if tier == "quick" else 600
    hangs = 0
    for t in range(n_cn):
        m, n, p = rng.choice(ext[1:]), rng.choice(ext[1:]), rng.choice(ext)
        A = rand_matrix(rng, m, n)
        nnz = sum(1 for r in A for v in r if v)
        if p == 0 and nnz > 0:       # the input class of the repaired D3 (the loop made no progress): a few of them
            if hangs >= (4 if tier == "quick" else 12):
                p = 1
            else:
                hangs += 1
        B = rand_matrix(rng, n, p, rng.choice([0.5, 1.0]))
        rows, cols, data = [], [], []
        for i in range(m):
            for j in range(n):
                if A[i][j]:
                    rows.append(i), cols.append(j), data.append(A[i][j])
        cases.append({"k": "coo_nd", "m": m, "n": n, "p": p, "dt": ["int64", "int64"], "rows": rows, "cols": cols,
                      "data": data, "Bd": [v for r in B for v in r], "Ad": [v for r in A for v in r]})
    # the other kernels: exact model output and the Spec
    n_sp = 140 if tier == "quick" else 1400
    others = ["csr_nd", "csr_nd_sparse", "csc_nd", "csc_nd_sparse", "nd_coo", "nd_coo_sparse", "coo_nd_sparse"]
    for t in range(n_sp):
        k = others[t % len(others)]
        e2 = ext if t % 3 == 0 else ext[1:]
        m, n, p = rng.choice(e2), rng.choice(e2), rng.choice(e2)
        A, B = (cancelling_pair(rng, m, n, p) if t % 4 == 0 else (rand_matrix(rng, m, n), rand_matrix(rng, n, p)))
        c = {"k": k, "m": m, "n": n, "p": p, "dt": ["int64", "int64"], "Ad": [v for r in A for v in r], "Bd": [v for r in B for v in r]}
        if k in ("csr_nd", "csr_nd_sparse"):
            c["A"] = csr_of(A, n)
        if k in ("csc_nd", "csc_nd_sparse"):
            At = [[A[i][j] for i in range(m)] for j in range(n)]
            c["Ac"] = csr_of(At, m)
        if k == "nd_coo":           # cells of b in row-major order
            c["cells"] = [[i, j, B[i][j]] for i in range(n) for j in range(p) if B[i][j]]
        if k == "nd_coo_sparse":    # cells of b.T: (column of b, row of b), sorted
            c["cells"] = [[j, i, B[i][j]] for j in range(p) for i in range(n) if B[i][j]]
        if k == "coo_nd_sparse":
            rows, cols, data = [], [], []
            for i in range(m):
                for j in range(n):
                    if A[i][j]:
                        rows.append(i), cols.append(j), data.append(A[i][j])
            c.update(rows=rows, cols=cols, data=data)
        cases.append(c)
    return cases


KINDS2 = ["coo", "g0", "g1", "csr", "csc", "nd"]
RTS = [None, "coo", "gcxs", "nd"]


def api_cases(tier, rng, budget=1):
    """list of API-level cases (dicts understood by impl_api) with bookkeeping keys:
    flags / kindreq for the judge, tags for the coverage histogram"""
    cases = []
    quick = tier == "quick"

    def add(op, a, ka, b, kb, rt=None, axes=None, sub=None, axis=None, dta="int64", dtb="int64", tag=None, follow=True,
            idx=None):
        sa, ka2 = with_kind(rng, a, ka)
        sb, kb2 = (with_kind(rng, b, kb) if b is not None else (None, None))
        cases.append({"op": op, "a": sa, "ka": ka2, "b": sb, "kb": kb2, "rt": rt, "axes": axes, "sub": sub, "axis": axis,
                      "dta": dta, "dtb": dtb, "kin": (ka, kb), "tag": tag or op, "follow": follow, "idx": idx})

    # ---- 2-d x 2-d products, exhaustive over kind pairs x return types on a few shapes incl. zero extents
    ext = [0, 1, 2, 3]
    shapes = [(m, n, p) for m in ext for n in ext for p in ext]
    combos = [(ka, kb, rt) for ka in KINDS2 for kb in KINDS2 for rt in RTS if not (ka == "nd" and kb == "nd")]
    rng.shuffle(combos)
    reps = (1 if quick else 8) * budget
    t = 0
    for _ in range(reps):
        for (ka, kb, rt) in combos:
            m, n, p = shapes[t % len(shapes)]
            t += 1
            A, B = (cancelling_pair(rng, m, n, p) if t % 4 == 0 else (rand_matrix(rng, m, n), rand_matrix(rng, n, p)))
            add("tensordot", mat_spec(A, m, n), ka, mat_spec(B, n, p), kb, rt=rt, axes=[[1], [0]], tag="tensordot2d")
    # forced cancellations on every path whose kernel produces a sparse result (pre-sized buffers)
    canc = [(ka, kb, rt) for (ka, kb, rt) in combos if rt in ("coo", "gcxs") or (ka != "nd" and kb != "nd")]
    rng.shuffle(canc)
    for (ka, kb, rt) in (canc[:60] if quick else canc * 3):
        m, n, p = rng.choice([2, 3]), rng.choice([2, 3]), rng.choice([2, 3])
        A, B = cancelling_pair(rng, m, n, p)
        add("tensordot", mat_spec(A, m, n), ka, mat_spec(B, n, p), kb, rt=rt, axes=[[1], [0]], tag="cancel2d")
    # dot / matmul / @ on 2-d, all kind pairs
    for (ka, kb) in itertools.product(KINDS2, KINDS2):
        if ka == "nd" and kb == "nd":
            continue
        for op in (("dot", "matmul", "at") if not quick else (rng.choice(["dot", "matmul"]), "at")):
            if op == "at" and ka in ("csr", "csc"):
                continue        # scipy's own __matmul__ runs first: not this library's dispatch
            m, n, p = rng.choice([1, 2, 3]), rng.choice([1, 2, 3]), rng.choice([1, 2, 3, 4])
            A, B = rand_matrix(rng, m, n, rng.choice([0.5, 0.8, 1.0])), rand_matrix(rng, n, p, rng.choice([0.5, 0.8, 1.0]))
            add(op, mat_spec(A, m, n), ka, mat_spec(B, n, p), kb, tag=op + "2d")
    # zero extents through dot/matmul (no return type), sparse kinds only on the left + ndarray right etc.
    zshapes = [(0, 2, 3), (2, 0, 3), (2, 3, 0), (0, 0, 2), (0, 2, 0), (2, 0, 0), (0, 0, 0)]
    for (m, n, p) in zshapes:
        for (ka, kb) in itertools.product(["coo", "g0", "g1", "nd"], ["coo", "g0", "g1", "nd"]):
            if ka == "nd" and kb == "nd":
                continue
            if quick and rng.random() < 0.45:
                continue
            A, B = rand_matrix(rng, m, n, 1.0), rand_matrix(rng, n, p, 1.0)
            add(rng.choice(["dot", "matmul"]), mat_spec(A, m, n), ka, mat_spec(B, n, p), kb, tag="zero_extent2d")
    # ---- 1-d operands: dot of vectors (equal and unequal lengths: D19), matrix.vector, vector.matrix
    for (la, lb) in [(0, 0), (1, 1), (2, 2), (3, 3), (1, 3), (3, 1), (2, 3), (0, 1), (1, 0)]:
        for (ka, kb) in [("coo", "coo"), ("coo", "gcxs"), ("gcxs", "gcxs"), ("coo", "nd"), ("nd", "gcxs")]:
            add(rng.choice(["dot", "matmul", "at"]) if la == lb or (ka, kb) != ("coo", "coo") else "dot",
                rand_spec(rng, (la,), 0.8), ka, rand_spec(rng, (lb,), 0.8), kb, tag="vec.vec")
    for _ in range(40 if quick else 300):
        m, n = rng.choice(ext), rng.choice(ext)
        ka, kb = rng.choice(["coo", "g0", "g1", "gcxs", "nd"]), rng.choice(["coo", "gcxs", "nd"])
        if ka == "nd" and kb == "nd":
            ka = "coo"
        op = rng.choice(["dot", "matmul", "at"])
        if rng.random() < 0.5:
            add(op, rand_spec(rng, (m, n)), ka, rand_spec(rng, (n,)), kb, tag="mat.vec")
        else:
            add(op, rand_spec(rng, (n,)), kb, rand_spec(rng, (n, m)), ka, tag="vec.mat")
    # ---- n-d tensordot over contraction-axis choices
    n_td = 110 if quick else 1500
    for _ in range(n_td):
        nda, ndb = rng.randint(1, 4), rng.randint(1, 4)
        k = rng.randint(0, min(nda, ndb, 2))
        axes_a = rng.sample(range(nda), k)
        axes_b = rng.sample(range(ndb), k)
        e = [1, 2, 3] if rng.random() < 0.75 else [0, 1, 2]
        sha = [rng.choice(e) for _ in range(nda)]
        shb = [rng.choice(e) for _ in range(ndb)]
        for x, y in zip(axes_a, axes_b, strict=True):
            shb[y] = sha[x]
        ka, kb = rng.choice(["coo", "gcxs", "nd"]), rng.choice(["coo", "gcxs", "nd"])
        if ka == "nd" and kb == "nd":
            kb = "gcxs"
        neg = rng.random() < 0.3
        aa = [x - nda for x in axes_a] if neg else axes_a
        axes = k if (rng.random() < 0.2 and axes_a == list(range(nda - k, nda)) and axes_b == list(range(k))) else [aa, axes_b]
        add("tensordot", rand_spec(rng, sha), ka, rand_spec(rng, shb), kb, rt=rng.choice(RTS), axes=axes, tag="tensordot_nd", follow=False)
    # ---- matmul batch broadcasting (3-d / 4-d)
    for _ in range(50 if quick else 600):
        nda, ndb = rng.randint(2, 4), rng.randint(2, 4)
        e = [1, 2, 3] if rng.random() < 0.8 else [0, 1, 2]
        m, n, p = rng.choice(e), rng.choice(e), rng.choice(e)
        nb = max(nda, ndb) - 2
        batch = [rng.choice([1, 2, 3]) for _ in range(nb)]
        ba = [d if rng.random() < 0.7 else 1 for d in batch][nb - (nda - 2):]
        bb = [d if rng.random() < 0.7 else 1 for d in batch][nb - (ndb - 2):]
        ka, kb = rng.choice(["coo", "gcxs", "nd"]), rng.choice(["coo", "gcxs", "nd"])
        if ka == "nd" and kb == "nd":
            ka = "coo"
        add(rng.choice(["matmul", "at"]), rand_spec(rng, ba + [m, n]), ka, rand_spec(rng, bb + [n, p]), kb, tag="matmul_batch", follow=False)
    # ---- matmul fast paths: every leading extent of a (incl. its row extent) is 1 / every batch extent of b is 1,
    #      with a.ndim <, =, > b.ndim (the squeezed fast paths are only right on one side of that comparison)
    for (nda, ndb) in [(4, 3), (3, 4), (3, 3), (4, 4), (4, 3), (3, 4)] + ([] if quick else [(4, 3), (3, 4)] * 6):
        n, p, m = rng.choice([1, 2, 3]), rng.choice([1, 2, 3]), rng.choice([1, 2, 3])
        kinds = ["coo", "gcxs", "nd"]
        ka, kb = rng.choice(kinds), rng.choice(kinds)
        if ka == "nd" and kb == "nd":
            ka = "coo"
        # a squeezable to a vector
        add(rng.choice(["matmul", "at"]), rand_spec(rng, [1] * (nda - 1) + [n], 0.9), ka,
            rand_spec(rng, [rng.choice([1, 2, 3]) for _ in range(ndb - 2)] + [n, p], 0.7), kb, tag="matmul_squeeze_a", follow=False)
        # b squeezable to a matrix
        add(rng.choice(["matmul", "at"]), rand_spec(rng, [rng.choice([1, 2, 3]) for _ in range(nda - 2)] + [m, n], 0.7), ka,
            rand_spec(rng, [1] * (ndb - 2) + [n, p], 0.9), kb, tag="matmul_squeeze_b", follow=False)
    # ---- matmul with 1-d / 2-d a and 4-d / 5-d b, and 4-d / 5-d a with 1-d / 2-d b; zero-length batch extents
    hi = [(1, 4), (1, 5), (2, 4), (2, 5), (4, 1), (5, 1), (4, 2), (5, 2), (3, 5), (5, 3), (4, 4), (5, 5)]
    for t, (nda, ndb) in enumerate(hi * (1 if quick else 6)):
        e = [1, 2] if t % 3 else [0, 1, 2]
        n = rng.choice([1, 2, 3])
        sha = ([rng.choice(e) for _ in range(nda - 2)] + [rng.choice([1, 2]), n]) if nda >= 2 else [n]
        shb = ([rng.choice(e) for _ in range(ndb - 2)] + [n, rng.choice([1, 2])]) if ndb >= 2 else [n]
        # make the batch shapes broadcastable (right-aligned): equal or 1
        ba, bb = sha[:-2] if nda >= 2 else [], shb[:-2] if ndb >= 2 else []
        for k in range(1, min(len(ba), len(bb)) + 1):
            if ba[-k] != bb[-k] and 1 not in (ba[-k], bb[-k]):
                bb[-k] = ba[-k]
        if nda >= 2:
            sha = ba + sha[-2:]
        if ndb >= 2:
            shb = bb + shb[-2:]
        ka, kb = rng.choice(["coo", "gcxs", "nd"]), rng.choice(["coo", "gcxs", "nd"])
        if ka == "nd" and kb == "nd":
            kb = "coo"
        add(rng.choice(["matmul", "at"]), rand_spec(rng, sha, 0.7), ka, rand_spec(rng, shb, 0.7), kb, tag="matmul_highrank", follow=False)
    # zero-length batch extents reaching the batch recursion (both operands sparse, rank >= 3)
    for (sha, shb) in [((2, 0, 2, 3), (2, 1, 3, 4)), ((0, 2, 3), (0, 3, 4)), ((2, 1, 2, 3), (2, 0, 3, 2)), ((2, 0, 2, 3), (1, 1, 3, 4)),
                       ((0, 2, 3), (1, 3, 4)), ((3, 0, 2, 2), (3, 0, 2, 2))]:
        ka, kb = rng.choice(["coo", "gcxs"]), rng.choice(["coo", "gcxs"])
        add("matmul", rand_spec(rng, sha, 1.0), ka, rand_spec(rng, shb, 1.0), kb, tag="matmul_zero_batch", follow=False)
    # ---- complex and large-int64 data through every product kernel (dense and sparse result variants)
    routes = [("coo", "coo", None), ("coo", "coo", "gcxs"), ("g0", "g0", None), ("g1", "g1", "coo"), ("g0", "nd", None), ("g0", "nd", "coo"),
              ("g1", "nd", None), ("g1", "nd", "gcxs"), ("nd", "g0", None), ("nd", "g0", "coo"), ("nd", "g1", None), ("nd", "g1", "gcxs"),
              ("coo", "nd", None), ("coo", "nd", "coo"), ("nd", "coo", None), ("nd", "coo", "gcxs")]
    variants = [("complex128", "complex128", "cx"), ("int64", "int64", "big")] + \
               ([("complex64", "complex64", "cx")] if not quick else [])
    for (dta, dtb, scale) in variants:
        for t, (ka, kb, rt) in enumerate(routes * (1 if quick else 3)):
            m, n, p = rng.choice([2, 3]), rng.choice([2, 3]), rng.choice([2, 3])
            A, B = (cancelling_pair(rng, m, n, p) if t % 3 == 0 else (rand_matrix(rng, m, n, 0.8), rand_matrix(rng, n, p, 0.8)))
            sa_, sb_ = mat_spec(A, m, n), mat_spec(B, n, p)
            sa_["scale"], sb_["scale"] = scale + "a", scale + "b"
            add("tensordot", sa_, ka, sb_, kb, rt=rt, axes=[[1], [0]], dta=dta, dtb=dtb, tag="values/" + dta + ("_big" if scale == "big" else ""),
                follow=False)
    if quick:       # complex64: the sparse-result kernels only (every dtype compiles its own kernels)
        for (ka, kb, rt) in [r_ for r_ in routes if r_[2] is not None][:6]:
            A, B = cancelling_pair(rng, 2, 3, 2)
            sa_, sb_ = mat_spec(A, 2, 3), mat_spec(B, 3, 2)
            sa_["scale"], sb_["scale"] = "cxa", "cxb"
            add("tensordot", sa_, ka, sb_, kb, rt=rt, axes=[[1], [0]], dta="complex64", dtb="complex64", tag="values/complex64", follow=False)
    # ---- einsum
    subs2 = [("ij,jk->ik", 2, 2), ("ij,kj->ik", 2, 2), ("ij,ij->", 2, 2), ("ij,ij->ij", 2, 2), ("i,i->", 1, 1), ("i,j->ij", 1, 1),
             ("ijk,kl->ijl", 3, 2), ("ij,jk", 2, 2), ("ii,i->i", 2, 1), ("ijk,jik->", 3, 3), ("...j,j->...", 3, 1), ("ij,j->i", 2, 1),
             ("ab,cb->ca", 2, 2), ("aab,bc->ac", 3, 2)]
    subs1 = [("ii->i", 2), ("ii->", 2), ("ij->ji", 2), ("ij->i", 2), ("ijk->kji", 3), ("ijk->j", 3), ("iij->ij", 3), ("ij->", 2),
             ("...i->...", 3), ("i->i", 1), ("iji->j", 3)]
    for _ in range(45 if quick else 500):
        sub, na, nb_ = rng.choice(subs2)
        lhs = sub.split("->")[0].split(",")
        e = [1, 2, 3] if rng.random() < 0.8 else [0, 1, 2]
        sizes = {}

        def shp(term, nd):
            letters = [c for c in term if c != "."]
            pre = [rng.choice([1, 2]) for _ in range(nd - len(letters))] if "..." in term else []
            if "..." in term:
                pre = sizes.setdefault("...", pre)
            return list(pre) + [sizes.setdefault(c, rng.choice(e)) for c in letters]
        sa, sb = shp(lhs[0], na), shp(lhs[1], nb_)
        ka, kb = rng.choice(["coo", "gcxs", "nd"]), rng.choice(["coo", "gcxs", "nd"])
        if ka == "nd" and kb == "nd":
            kb = "coo"
        add("einsum", rand_spec(rng, sa), ka, rand_spec(rng, sb), kb, sub=sub, tag="einsum2", follow=False)
    # two operands whose `...` cover DIFFERENT numbers of axes (aligned on the trailing axes, like NumPy broadcasting)
    esubs = ["...ij,...jk->...ik", "...i,...i->...", "...ij,...j->...i", "i...,i...->...", "...ij,...jk", "...i,...i"]
    eranks = [(2, 1), (1, 2), (2, 0), (0, 2), (3, 1), (1, 3), (1, 1), (2, 2)]
    for t in range(16 if quick else 160):
        sub = esubs[t % len(esubs)]
        ra, rb = eranks[t % len(eranks)] if t < 2 * len(eranks) else rng.choice(eranks)
        B = [2, 3, 2][-max(ra, rb):] if max(ra, rb) else []
        if rng.random() < 0.5:
            B = B[::-1]
        sizes = {}

        def eshape(term, r):
            bdims = [d if rng.random() < 0.8 else 1 for d in (B[len(B) - r:] if r else [])]
            out, rest = [], term
            while rest:
                if rest.startswith("..."):
                    out += bdims
                    rest = rest[3:]
                else:
                    out.append(sizes.setdefault(rest[0], rng.choice([1, 2, 3])))
                    rest = rest[1:]
            return out
        lhs = sub.split("->")[0].split(",")
        sa, sb = eshape(lhs[0], ra), eshape(lhs[1], rb)
        ka, kb = rng.choice(["coo", "gcxs", "nd"]), rng.choice(["coo", "gcxs", "nd"])
        if ka == "nd" and kb == "nd":
            kb = "coo"
        if (ka == "gcxs" and len(sa) < 1) or (kb == "gcxs" and len(sb) < 1):
            ka, kb = "coo", "coo"
        add("einsum", rand_spec(rng, sa, 0.8), ka, rand_spec(rng, sb, 0.8), kb, sub=sub, tag="einsum_ellipsis", follow=False)
    # a label of extent 1 in one operand against a larger extent in the other (np.einsum broadcasts)
    for sub, sa_, sb_ in (("ij,ij->ij", (2, 3), (1, 3)), ("ij,jk->ik", (2, 1), (3, 2)), ("ij,ij->", (1, 1), (2, 3))):
        add("einsum", rand_spec(rng, sa_, 0.9), rng.choice(["coo", "gcxs"]), rand_spec(rng, sb_, 0.9), rng.choice(["coo", "gcxs", "nd"]),
            sub=sub, tag="einsum_extent_one", follow=False)
    for _ in range(25 if quick else 250):
        sub, na = rng.choice(subs1)
        e = [1, 2, 3] if rng.random() < 0.8 else [0, 1, 2]
        sizes = {}
        term = sub.split("->")[0]
        letters = [c for c in term if c != "."]
        pre = [rng.choice([1, 2]) for _ in range(na - len(letters))] if "..." in term else []
        sa = pre + [sizes.setdefault(c, rng.choice(e)) for c in letters]
        add("einsum", rand_spec(rng, sa), rng.choice(["coo", "gcxs"]), None, None, sub=sub, tag="einsum1", follow=False)
    # ---- vecdot, kron, outer
    for _ in range(35 if quick else 400):
        nd = rng.randint(1, 3)
        e = [1, 2, 3] if rng.random() < 0.8 else [0, 1, 2]
        sh = [rng.choice(e) for _ in range(nd)]
        ka, kb = rng.choice(["coo", "gcxs", "nd"]), rng.choice(["coo", "gcxs", "nd"])
        if ka == "nd" and kb == "nd":
            ka = "gcxs"
        add("vecdot", rand_spec(rng, sh), ka, rand_spec(rng, sh), kb, axis=rng.randrange(-nd, nd), tag="vecdot", follow=False)
    for _ in range(35 if quick else 400):
        nda, ndb = rng.randint(1, 3), rng.randint(1, 3)
        e = [1, 2, 3] if rng.random() < 0.8 else [0, 1, 2]
        ka, kb = rng.choice(["coo", "gcxs", "nd", "csr"]), rng.choice(["coo", "gcxs", "nd", "csc"])
        if ka == "nd" and kb == "nd":
            ka = "coo"
        if ka == "csr":
            nda = 2
        if kb == "csc":
            ndb = 2
        add("kron", rand_spec(rng, [rng.choice(e) for _ in range(nda)]), ka, rand_spec(rng, [rng.choice(e) for _ in range(ndb)]), kb,
            tag="kron", follow=False)
    for _ in range(25 if quick else 300):
        nda, ndb = rng.randint(1, 2), rng.randint(1, 2)
        e = [1, 2, 3] if rng.random() < 0.8 else [0, 1, 2]
        ka, kb = rng.choice(["coo", "gcxs", "nd"]), rng.choice(["coo", "gcxs", "nd"])
        if ka == "nd" and kb == "nd":
            kb = "coo"
        add("outer", rand_spec(rng, [rng.choice(e) for _ in range(nda)]), ka, rand_spec(rng, [rng.choice(e) for _ in range(ndb)]), kb,
            tag="outer", follow=False)
    # ---- scipy operands where the docstrings do not promise them (einsum / vecdot / outer): a few
    for op, kw in (("einsum", {"sub": "ij,jk->ik"}), ("vecdot", {"axis": -1}), ("outer", {})):
        for (ka, kb) in (("csr", "coo"), ("coo", "csr")):
            sh_b = (3, 2) if op == "einsum" else (2, 3)
            add(op, rand_spec(rng, (2, 3), 0.7), ka, rand_spec(rng, sh_b, 0.7), kb, tag="scipy_other", follow=False, **kw)
    # ---- narrow index dtypes: every axis fits the coordinate dtype, the number of stored elements does not
    #      (row pointers and other counters must not be kept in the coordinate dtype)
    def gen_spec(shape, density):
        return {"shape": list(shape), "coords": [], "data": [], "fill": 0, "gen": [rng.randrange(1 << 30), density, 1, 3]}
    narrow = []
    kp = [("coo", "coo"), ("coo", "gcxs"), ("gcxs", "coo"), ("gcxs", "gcxs"), ("coo", "nd"), ("nd", "coo"), ("gcxs", "nd"), ("nd", "gcxs")]
    for idx, da_, pb in (("int8", 0.7, 6), ("uint8", 0.95, 10)):      # 20x30: > 127 resp. > 255 stored; b: 30 x pb
        for t, (ka, kb) in enumerate(kp if not quick else kp[:6]):
            op = ("dot", "matmul", "tensordot")[t % 3]
            rt = (None, "coo", "gcxs", "nd")[t % 4] if op == "tensordot" else None
            narrow.append((op, gen_spec((20, 30), da_), ka, gen_spec((30, pb), 1.0), kb, rt, [[1], [0]], idx))
        # COO @ COO with every return type
        for rt in RTS:
            narrow.append(("tensordot", gen_spec((20, 30), da_), "coo", gen_spec((30, pb), 1.0), "coo", rt, [[1], [0]], idx))
        # 3-d operands through tensordot (the 2-d views keep the narrow dtype)
        for (ka, kb) in (("coo", "coo"), ("coo", "gcxs")) if quick else kp[:4]:
            narrow.append(("tensordot", gen_spec((6, 7, 8), 0.95 if idx == "uint8" else 0.7), ka,
                           gen_spec((8, 7, 5), 1.0), kb, rng.choice(RTS), [[2, 1], [0, 1]], idx))
    # int16, sparingly: 182 x 182 fully stored = 33124 > 32767
    for (ka, kb) in ((("coo", "coo"),) if quick else (("coo", "coo"), ("coo", "gcxs"), ("gcxs", "gcxs"))):
        narrow.append(("dot", gen_spec((182, 182), 1.0), ka, gen_spec((182, 2), 1.0), kb, None, [[1], [0]], "int16"))
    for (op, a_, ka, b_, kb, rt, axes, idx) in narrow:
        add(op, a_, ka, b_, kb, rt=rt, axes=axes, tag="narrow_idx/" + idx, follow=False, idx=idx)
    # ---- dot with a 0-d operand (multiplication by the scalar, via tensordot axes=0)
    for (ka, kb) in [("coo", "coo"), ("coo", "nd"), ("nd", "coo"), ("gcxs", "coo"), ("coo", "gcxs"), ("nd", "gcxs")]:
        for zero_first in (True, False):
            sh = [rng.choice([1, 2, 3]) for _ in range(rng.randint(0, 3))]
            s0 = rand_spec(rng, [], 1.0)
            s1 = rand_spec(rng, sh, 0.7)
            a_, b_ = (s0, s1) if zero_first else (s1, s0)
            ka_ = ka if ka != "gcxs" or (a_ is s1 and len(sh) >= 1) else "coo"
            kb_ = kb if kb != "gcxs" or (b_ is s1 and len(sh) >= 1) else "coo"
            add("dot", a_, ka_, b_, kb_, tag="dot0d", follow=False)
            # matmul / @ reject 0-d operands (ValueError, like np.matmul)
            add(rng.choice(["matmul", "at"]) if not (ka_ == "nd" and a_ is s0) else "matmul", a_, ka_, b_, kb_, tag="matmul0d", follow=False)
    # ---- vecdot with operands of different ndim / broadcasting batch axes (axis is taken in each operand)
    for _ in range(16 if quick else 120):
        k = rng.choice([1, 2, 3])
        sha = [rng.choice([1, 2, 3]) for _ in range(rng.randint(0, 2))]
        shb = [d if rng.random() < 0.6 else 1 for d in sha][len(sha) - rng.randint(0, len(sha)):]
        if rng.random() < 0.5:
            sha, shb = shb, sha
        nmin = min(len(sha), len(shb)) + 1
        axis = rng.randrange(-nmin, nmin)
        pa = axis if axis >= 0 else len(sha) + 1 + axis
        pb = axis if axis >= 0 else len(shb) + 1 + axis
        xa = sha[:pa] + [k] + sha[pa:]
        xb = shb[:pb] + [k] + shb[pb:]
        ka, kb = rng.choice(["coo", "gcxs", "nd"]), rng.choice(["coo", "gcxs", "nd"])
        if ka == "nd" and kb == "nd":
            ka = "coo"
        add("vecdot", rand_spec(rng, xa), ka, rand_spec(rng, xb), kb, axis=axis, tag="vecdot_bcast", follow=False)
    # ---- einsum terms with more subscripts than the operand has dimensions (ValueError like NumPy)
    for sub, sa_, sb_ in (("ijk->i", (2, 3), None), ("ijk,k->ij", (2, 3), (3,)), ("ij,jkl->ik", (2, 3), (3, 2)), ("iij->j", (2, 2), None),
                          ("ij->ii", (2, 2), None), ("ij,jk->ikk", (2, 3), (3, 2))):   # the last two: an output subscript twice
        add("einsum", rand_spec(rng, sa_, 0.8), rng.choice(["coo", "gcxs"]), None if sb_ is None else rand_spec(rng, sb_, 0.8),
            None if sb_ is None else rng.choice(["coo", "nd"]), sub=sub, tag="einsum_malformed", follow=False)
    # ---- malformed: mismatching contracted extents (must raise like NumPy)
    for _ in range(30 if quick else 200):
        m, n, n2, p = rng.choice([1, 2, 3]), rng.choice([1, 2, 3]), rng.choice([1, 2, 3, 4]), rng.choice([1, 2, 3])
        if n == n2:
            n2 += 1
        ka, kb = rng.choice(["coo", "g0", "g1", "nd"]), rng.choice(["coo", "g0", "g1", "nd"])
        if ka == "nd" and kb == "nd":
            ka = "coo"
        add(rng.choice(["dot", "matmul", "tensordot"]), rand_spec(rng, (m, n)), ka, rand_spec(rng, (n2, p)), kb, axes=[[1], [0]],
            tag="malformed", follow=False)
    # ---- dtype pairs (values still small integers)
    dts = [("int32", "int64"), ("float64", "int64"), ("int64", "float32"), ("int8", "int16"), ("float32", "float32"),
           ("uint8", "int64"), ("bool", "int64"), ("complex128", "int64")]
    kps = [("coo", "coo"), ("g0", "g0"), ("coo", "nd"), ("nd", "g1")]
    if quick:       # every dtype pair compiles its own kernels (seconds each): two pairs, rotating kinds
        dts = rng.sample(dts, 2)
    for t, (dta, dtb) in enumerate(dts):
        for (ka, kb) in (kps if not quick else [kps[t % 4], kps[(t + 1) % 4]]):
            m, n, p = 2, 3, 2
            A, B = rand_matrix(rng, m, n, 0.7), rand_matrix(rng, n, p, 0.7)
            if dta in ("uint8", "bool"):
                A = [[abs(v) % (2 if dta == "bool" else 256) for v in r] for r in A]
            add(rng.choice(["dot", "matmul", "tensordot"]), mat_spec(A, m, n), ka, mat_spec(B, n, p), kb, axes=[[1], [0]],
                dta=dta, dtb=dtb, tag="dtypes", follow=False)
    return cases


# ====================================================================== literals
def csr_lit(t):
    return "(mkCSR %s %s %s)" % (vlist(t["data"]), vlist(t["indices"]), vlist(t["indptr"]))


def dense_lit_flat(shape, flat):
    return "(mkDense %s %s)" % (vlist(shape), vlist(flat))


def spec_flat(spec):
    k = {"biga": (1 << 27) + 1, "bigb": (1 << 27) + 3}.get(spec.get("scale"), 1)
    return [v * k for v in _spec_flat(spec)]


def _spec_flat(spec):
    shape = spec["shape"]
    size = 1
    for d in shape:
        size *= d
    flat = [0] * size
    for c, v in zip(spec["coords"], spec["data"], strict=True):
        pos = 0
        for i, d in zip(c, shape, strict=True):
            pos = pos * d + i
        flat[pos] = v
    return flat


EMPTY_DENSE = "(mkDense [] [])"


def kernel_lit(case, r):
    k = case["k"]
    impl = vlib.sarr_lit(r if ("hang" in r or "crash" in r or ("exc" in r and "r" not in r)) else r.get("r"))
    m, n, p = case["m"], case["n"], case["p"]
    if k == "csr_csr":
        inp = f"(KinCsrCsr {vZ(m)} {vZ(p)} {csr_lit(case['A'])} {csr_lit(case['B'])} {vZ(r.get('count', -1))})"
    elif k == "coo_coo":
        inp = f"(KinCooCoo {vZ(m)} {vZ(p)} {csr_lit(case['A'])} {csr_lit(case['B'])})"
    elif k == "coo_nd":
        Bd = case["Bd"]
        # array2 = B.T: shape (p, n), row-major
        a2 = [Bd[j * p + c] for c in range(p) for j in range(n)]
        inp = (f"(KinCooNd {vlist(case['rows'])} {vlist(case['cols'])} {vlist(case['data'])} "
               f"{dense_lit_flat([p, n], a2)} {vZ(m)} {vZ(p)})")
    elif k == "csc_nd_sparse":
        inp = f"(KinCscNdSparse {vZ(m)} {vZ(n)} {vZ(p)} {csr_lit(case['Ac'])} {dense_lit_flat([n, p], case['Bd'])})"
    elif k in ("csr_nd", "csr_nd_sparse"):
        inp = (f"(KinCsrNd {'true' if k.endswith('sparse') else 'false'} {vZ(m)} {vZ(p)} {csr_lit(case['A'])} "
               f"{dense_lit_flat([n, p], case['Bd'])})")
    elif k == "csc_nd":
        inp = f"(KinCscNd {vZ(m)} {vZ(n)} {vZ(p)} {csr_lit(case['Ac'])} {dense_lit_flat([n, p], case['Bd'])})"
    elif k in ("nd_coo", "nd_coo_sparse"):
        cells = case["cells"]
        inp = (f"({'KinNdCooSp' if k.endswith('sparse') else 'KinNdCoo'} {vZ(m)} {vZ(n)} {vZ(p)} {dense_lit_flat([m, n], case['Ad'])} "
               f"{vlist([c[0] for c in cells])} {vlist([c[1] for c in cells])} {vlist([c[2] for c in cells])})")
    elif k == "coo_nd_sparse":
        Bd = case["Bd"]
        a2 = [Bd[j * p + c] for c in range(p) for j in range(n)]
        inp = (f"(KinCooNdSp {vlist(case['rows'])} {vlist(case['cols'])} {vlist(case['data'])} "
               f"{dense_lit_flat([p, n], a2)} {vZ(m)} {vZ(p)})")
    else:
        inp = f"(KinSpec {dense_lit_flat([m, n], case['Ad'])} {dense_lit_flat([n, p], case['Bd'])})"
    return vpair(inp, impl)


def kindreq_of(case):
    if case["op"] == "tensordot" and case.get("rt"):
        return {"coo": 1, "gcxs": 2, "nd": 3}[case["rt"]]
    return 0


def flags_of(case):
    """1: 2-d x 2-d product (Spec evaluated in Coq); 2/3: + exact GCXS model (compressed axes 0/1)"""
    if case["op"] not in ("tensordot", "dot", "matmul", "at") or case["b"] is None or case.get("idx"):
        return 0
    if str(case["a"].get("scale", "")).startswith("cx"):
        return 0            # complex values are opaque tokens for Coq: compared with NumPy's answer only
    if len(case["a"]["shape"]) != 2 or len(case["b"]["shape"]) != 2:
        return 0
    if case["op"] == "tensordot" and case["axes"] != [[1], [0]]:
        return 0
    if case["a"]["shape"][1] != case["b"]["shape"][0]:
        return 0
    if case.get("dta", "int64") != "int64" or case.get("dtb", "int64") != "int64":
        return 1
    ka, kb = case["kin"]
    if case.get("rt") in (None, "gcxs") and ka in ("g0", "g1", "csr", "csc") and kb in ("g0", "g1", "csr", "csc", "coo"):
        if case["a"]["shape"][1] == 0:
            return 1            # zero-size shortcut of tensordot: no kernel runs
        return 3 if ka in ("g1", "csc") else 2
    return 1


def api_lit(case, npres, impl):
    fl = flags_of(case)
    if fl >= 1:
        a = dense_lit_flat(case["a"]["shape"], spec_flat(case["a"]))
        b = dense_lit_flat(case["b"]["shape"], spec_flat(case["b"]))
    else:
        a = b = EMPTY_DENSE
    return vpair(vZ(fl), a, b, vZ(kindreq_of(case)), vlib.sarr_lit(npres), vlib.sarr_lit(impl))


# ====================================================================== classification
API_CODES = {10: "hang", 11: "ZeroDivisionError", 12: "exception", 13: "returned_where_numpy_raises", 14: "kind",
             15: "not_canonical", 16: "explicit_zeros", 20: "values", 22: "spec_vs_numpy", 30: "representation"}


def nnz_of(spec):
    return len(spec["data"]) or (1 if spec.get("gen") else 0)


def classify_api(case, code, r):
    """(kind, clause) of an API-level verdict"""
    ka, kb = case["kin"]
    op = case["op"]
    sa = case["a"]["shape"]
    sb = case["b"]["shape"] if case["b"] is not None else []
    if code == 10:
        # _dot_coo_ndarray(_sparse): COO . ndarray whose output has no columns but whose left operand stores entries
        return "value", None       # (D3 was repaired: any hang is a new violation)
    if code == 11:
        return "value", CL_D20
    if code == 12:
        if "csr" in (ka, kb) or "csc" in (ka, kb):
            if op in ("einsum", "vecdot", "outer"):
                return "value", CL_SCIPY
        if route_csc_nd_sparse(case, r):
            return "value", CL_CSCCOUNT     # the uninitialised tail holds arbitrary indices: constructors reject them
        if op == "einsum" and case["b"] is not None and "Inconsistent shape for index" in (r.get("r") or {}).get("msg", "") \
                and 1 in (list(sa) + list(sb)):
            return "value", CL_ES1
        if op in ("matmul", "at") and max(len(sa), len(sb)) >= 3 and min(len(sa), len(sb)) >= 2:
            # _matmul_recurser: a[i] on an empty axis / stack of no results
            ba, bb = sa[:-2], sb[:-2]
            n = max(len(ba), len(bb))
            ba, bb = [1] * (n - len(ba)) + ba, [1] * (n - len(bb)) + bb
            msg = (r.get("r") or {}).get("msg", "")
            if any(0 in (x, y) for x, y in zip(ba, bb)) and ("Index is not smaller than dimension" in msg
                                                             or "is out of bounds for axis 0 with size 0" in msg
                                                             or "At least one array required" in msg):
                return "value", CL_MM0
        return "value", None
    if code == 13:
        return "value", None       # (D19, dot of 1-d operands of different lengths, was repaired: a recurrence is new)
    if code == 14:
        return "value", None       # (zero_size_shortcut_ignores_return_type was repaired: a recurrence is new)
    if code == 15:
        g = r.get("r", {})
        if g.get("k") == "gcxs" and route_csc_nd_sparse(case, r):
            return "canonical_form", CL_CSCND if _rows_in_range(g) else CL_CSCCOUNT
        return "canonical_form", None      # (D8, csr @ csr, was repaired: a recurrence is new)
    if code == 16:
        return "canonical_form", None      # explicit zeros stored (einsum's unpruned result was repaired)
    if code == 20:
        if route_csc_nd_sparse(case, r):
            return "value", CL_CSCCOUNT
        return "value", None
    if code == 22:
        return "representation", None      # Spec/NpDot.v disagrees with NumPy: the Spec is wrong, not the code
    if code == 30:
        return "representation", None
    return "value", None


def contracted_extent_zero(case):
    ax = case.get("axes")
    sa = case["a"]["shape"]
    if isinstance(ax, int):
        dims = sa[len(sa) - ax:] if ax else []
    else:
        dims = [sa[x] for x in ax[0]]
    return 0 in dims


def route_csc_nd_sparse(case, r=None):
    """_dot ran _dot_csc_ndarray_type_sparse (GCXS with compressed axis 1 times ndarray, or ndarray times GCXS with
    compressed axis 0, sparse result requested).  Decided from the kernel factories the call was observed to use;
    for a killed worker (no record) from the operand kinds of a 2-d product."""
    if isinstance(r, dict) and "kernels" in r:
        return "_dot_csc_ndarray_type_sparse" in r["kernels"]
    ka, kb = case["kin"]
    if case.get("rt") not in ("coo", "gcxs") or case["b"] is None:
        return False
    if len(case["a"]["shape"]) != 2 or len(case["b"]["shape"]) != 2:
        return False
    return (ka in ("g1", "csc") and kb == "nd") or (ka == "nd" and kb in ("g0", "csr"))


def replay_api(case):
    c = {k: case.get(k) for k in CASE_KEYS}
    return ("import sys, json; sys.path.insert(0, '/verif/tools'); import props.c04 as m; "
            f"print(json.dumps(m.impl_api({c!r}), default=str)[:2000])")


def replay_kernel(case):
    return ("import sys, json; sys.path.insert(0, '/verif/tools'); import props.c04 as m; "
            f"print(json.dumps(m.impl_kernel({case!r}), default=str)[:2000])")


# ====================================================================== campaign
def campaign(build, tier, seed, report, budget=1):
    t0 = time.time()
    rng = random.Random(seed)
    viol = []
    cov = report["coverage"]
    tags = {}

    def tag(k, n=1):
        tags[k] = tags.get(k, 0) + n

    # -------- kernel level
    kc = kernel_cases(tier, rng, budget)
    kres = vlib.run_impl("props.c04", "impl_kernel", kc, workers=6, per_case_timeout=PER_CASE_TIMEOUT)
    # a hang is re-run once on its own (a slow first JIT compilation on a loaded machine must not be mistaken for one)
    khang = [i for i, r in enumerate(kres) if r.get("hang")]
    if khang:
        again = vlib.run_impl("props.c04", "impl_kernel", [kc[i] for i in khang], workers=6, per_case_timeout=4 * PER_CASE_TIMEOUT)
        for i, r in zip(khang, again, strict=True):
            kres[i] = r
    cov["wall_kernel_impl_s"] = round(time.time() - t0, 1)
    klits = [kernel_lit(c, r) for c, r in zip(kc, kres, strict=True)]
    for c, r in zip(kc, kres, strict=True):
        tag("kernel/" + c["k"])
        if r.get("hang"):
            tag("kernel/hang")
        if isinstance(r.get("r"), dict) and r["r"].get("k") == "exc":
            tag("kernel/exc:" + r["r"]["cls"])
    kbad = build.judge("c04_kernel", "From Verif Require Import Py Shape COO GCXS NpDot Dot SArr C04Judge.", "kinput * sarr", "judge_kernel", klits,
                       chunk=120, timeout=600)
    for i, code in kbad:
        c, r = kc[i], kres[i]
        kind = {1: "representation", 2: "value", 3: "representation", 4: "representation", 5: "value", 6: "value",
                7: "canonical_form"}[code]
        clause = {6: CL_CSCCOUNT, 7: CL_CSCND}.get(code)
        tag("verdict/kernel:" + c["k"] + ":" + str(code))
        viol.append({"property": "C04", "op": "kernel:" + c["k"], "kind": kind, "clause": clause, "code": code,
                     "what": {1: "kernel output differs from the model's (same dense meaning)",
                              2: "kernel output differs from the model's and from the Spec",
                              3: "_csr_csr_count_nnz differs from the model's pre-count",
                              4: "model output differs from the Spec (theorem instance fails)",
                              5: "kernel output differs from the Spec",
                              6: "the pre-count differs from the number of cells written: data/indices end in "
                                 "uninitialised memory and indptr does not describe the written cells",
                              7: "row indices inside a column of the CSC result are not increasing"}[code],
                     "case": c, "impl": r, "replay_py": replay_kernel(c)})
    t_kernel = time.time() - t0

    # -------- API level
    ac = api_cases(tier, rng, budget)
    t1 = time.time()
    ares = vlib.run_impl("props.c04", "impl_api", ac, workers=6, per_case_timeout=PER_CASE_TIMEOUT)
    cov["wall_api_impl_s"] = round(time.time() - t1, 1)
    # a hang is re-run once on its own (a slow first JIT compilation must not be mistaken for one)
    hang_idx = [i for i, r in enumerate(ares) if r.get("hang")]
    if hang_idx:
        again = vlib.run_impl("props.c04", "impl_api", [ac[i] for i in hang_idx], workers=6, per_case_timeout=4 * PER_CASE_TIMEOUT)
        for i, r in zip(hang_idx, again, strict=True):
            ares[i] = r
    alits, owners = [], []
    dtype_viol = []
    for i, (c, r) in enumerate(zip(ac, ares, strict=True)):
        tag("api/" + c["tag"])
        tag("kinds/%s.%s" % c["kin"])
        for kn in (r.get("kernels") or []) if isinstance(r, dict) else []:
            tag("reached/" + kn)
        if c.get("rt"):
            tag("rt/" + c["rt"])
        if 0 in c["a"]["shape"] or (c["b"] is not None and 0 in c["b"]["shape"]):
            tag("api/zero_extent")
        if r.get("hang") or "crash" in r or "r" not in r:
            npres = {"k": "other"}
            impl = r
            # NumPy's answer is not available from a killed worker: recompute here
            npres = _np_ref(c)
        else:
            npres, impl = r["np"], r["r"]
        alits.append(api_lit(c, npres, impl))
        owners.append((i, None))
        for f in r.get("follow", []) if isinstance(r, dict) else []:
            alits.append(vpair("0", EMPTY_DENSE, EMPTY_DENSE, "0", vlib.sarr_lit(f["np"]), vlib.sarr_lit(f["r"])))
            owners.append((i, f))
            tag("api/follow_slice")
        # dtype of the result: differential only, compared here
        if isinstance(impl, dict) and isinstance(npres, dict) and impl.get("dtype") and npres.get("dtype") \
                and npres.get("k") != "exc" and impl.get("k") != "exc" and impl["dtype"] != npres["dtype"]:
            dtype_viol.append((i, impl["dtype"], npres["dtype"]))
    t2 = time.time()
    abad = build.judge("c04_api", "From Verif Require Import Py Shape COO GCXS NpDot Dot SArr C04Judge.", "acase", "judge_api", alits,
                       chunk=150, timeout=600)
    cov["wall_api_judge_s"] = round(time.time() - t2, 1)
    # einsum with one operand: the Spec (np_einsum1) evaluated in Coq against NumPy and the implementation
    elits, eown = [], []
    for i, (c, r) in enumerate(zip(ac, ares, strict=True)):
        if c["op"] == "einsum" and c["b"] is None and "." not in c["sub"] and "->" in c["sub"] and "r" in r:
            lhs, rhs = c["sub"].split("->")
            elits.append(vpair(vlist([ord(ch) for ch in lhs]), vlist([ord(ch) for ch in rhs]),
                               dense_lit_flat(c["a"]["shape"], spec_flat(c["a"])), vlib.sarr_lit(r["np"]), vlib.sarr_lit(r["r"])))
            eown.append(i)
            tag("api/einsum1_spec_in_coq")
    ebad = build.judge("c04_einsum1", "From Verif Require Import Py Shape COO GCXS NpDot Dot SArr C04Judge.", "ecase",
                       "judge_einsum1", elits, chunk=60, timeout=600) if elits else []
    for j, code in ebad:
        c, r = ac[eown[j]], ares[eown[j]]
        tag("verdict/einsum1/" + str(code))
        viol.append({"property": "C04", "op": "einsum", "kind": "representation" if code == 22 else "value", "clause": None,
                     "code": code, "what": {22: "Spec np_einsum1 (evaluated in Coq) differs from np.einsum",
                                            20: "sparse.einsum differs from np.einsum / the Spec", 10: "hang",
                                            12: "exception"}.get(code, str(code)),
                     "case": {k: c.get(k) for k in CASE_KEYS},
                     "impl": r.get("r"), "numpy": r.get("np"), "replay_py": replay_api(c)})
    bad_main = {}
    for j, code in abad:
        i, f = owners[j]
        c, r = ac[i], ares[i]
        if f is None:
            bad_main[i] = code
            kind, clause = classify_api(c, code, r)
            tag("verdict/" + API_CODES.get(code, str(code)) + ("/" + clause if clause else ""))
            viol.append({"property": "C04", "op": c["op"], "kind": kind, "clause": clause, "code": code,
                         "what": API_CODES.get(code, str(code)), "kinds": list(c["kin"]), "return_type": c.get("rt"),
                         "case": {k: c.get(k) for k in CASE_KEYS},
                         "impl": r.get("r", r), "numpy": r.get("np"), "replay_py": replay_api(c)})
    for j, code in abad:
        i, f = owners[j]
        if f is None:
            continue
        c, r = ac[i], ares[i]
        # a column slice of the product differs from NumPy's: wrong VALUES downstream of unsorted rows
        clause = None
        if route_csc_nd_sparse(c, r):
            clause = CL_CSCND if (_rows_in_range(r.get("r", {})) and bad_main.get(i) in (None, 15)) else CL_CSCCOUNT
        tag("verdict/slice_of_product_wrong" + ("/" + clause if clause else ""))
        viol.append({"property": "C04", "op": c["op"] + "_then_slice", "kind": "value", "clause": clause, "code": code,
                     "what": f"(a {c['op']} b)[:, {f['lo']}:{f['hi']}] differs from NumPy's", "kinds": list(c["kin"]),
                     "return_type": c.get("rt"),
                     "case": {k: c.get(k) for k in CASE_KEYS},
                     "slice": [f["lo"], f["hi"]], "impl": f["r"], "numpy": f["np"], "product": r.get("r"),
                     "replay_py": replay_api(c)})
    for i, got, want in dtype_viol:
        c = ac[i]
        tag("verdict/dtype")
        viol.append({"property": "C04", "op": c["op"], "kind": "value", "clause": "result_dtype_differs_from_numpy", "code": 40,
                     "what": f"dtype {got}, NumPy {want}", "kinds": list(c["kin"]), "return_type": c.get("rt"),
                     "case": {k: c.get(k) for k in CASE_KEYS},
                     "replay_py": replay_api(c)})

    # -------- coverage
    def nontrivial(c):
        return nnz_of(c["a"]) > 0 and (c["b"] is None or nnz_of(c["b"]) > 0)
    distinct = {json.dumps([c["op"], c.get("idx"), c["a"].get("gen"), c["a"]["shape"], c["a"]["coords"], c["a"]["data"], c["ka"], c["a"].get("caxes"),
                            None if c["b"] is None else [c["b"]["shape"], c["b"]["coords"], c["b"]["data"], c["kb"], c["b"].get("caxes")],
                            c.get("rt"), c.get("axes"), c.get("sub"), c.get("axis"), c.get("dta"), c.get("dtb")])
                for c in ac if nontrivial(c)}
    kdistinct = {json.dumps([c["k"], c.get("A"), c.get("B"), c.get("Ad"), c.get("Bd"), c["dt"]]) for c in kc
                 if (c.get("A", {}).get("data") or c.get("Ad") or c.get("data"))}
    cov["evaluations"] = len(kc) + len(alits)
    cov["distinct_nontrivial"] = len(distinct) + len(kdistinct)
    cov["kernel_cases"] = len(kc)
    cov["api_cases"] = len(ac)
    cov["follow_up_slices"] = len(alits) - len(ac)
    cov["rule"] = ("kernel level: seeded random CSR/COO pairs over extents 0-4 (all (m,n,p) triples first), explicit zeros, forced "
                   "cancellations, fully dense products; API level: every kind pair x return type on 2-d shapes cycling through "
                   "all extent triples over {0,1,2,3}, then seeded n-d tensordot / matmul batch / einsum / vecdot / kron / outer / "
                   "malformed / dtype streams; distinct = distinct (op, operands, kinds, parameters) with both operands non-empty")
    cov["unproved_statements"] = UNPROVED
    cov["differential_only"] = ["result dtype (compared in Python)", "n-d tensordot, matmul batch broadcasting, einsum, vecdot, kron, outer: "
                                "values against NumPy's answer (judge flags = 0)"]
    cov["samples"] = [dict(case=kc[0], impl=kres[0]), dict(case={k: v for k, v in ac[0].items()}, impl=ares[0]),
                      dict(case={k: v for k, v in ac[len(ac) // 2].items()}, impl=ares[len(ac) // 2])]
    cov["branch_tags"] = dict(sorted(tags.items()))
    cov["wall_kernel_s"] = round(t_kernel, 1)
    cov["wall_campaign_s"] = round(time.time() - t0, 1)
    return viol


def _rows_in_range(g):
    """no index of a GCXS result lies outside its (2-d) shape: the buffers hold no uninitialised tail"""
    if g.get("k") != "gcxs" or len(g.get("shape", [])) != 2:
        return True
    ca = (g.get("caxes") or [0])[0]
    lim = g["shape"][1 - ca]
    ip = g.get("indptr") or [0]
    return all(0 <= x < lim for x in g["indices"]) and ip[-1] == len(g["data"]) and len(g["indices"]) == len(g["data"])


def _np_ref(case):
    """NumPy's answer computed in the harness process (for cases whose worker was killed)"""
    import numpy as np
    da = _dense(case["a"], case.get("dta", "int64"))
    db = _dense(case["b"], case.get("dtb", "int64")) if case.get("b") is not None else None
    op = case["op"]
    try:
        if op == "tensordot":
            e = np.tensordot(da, db, axes=_axes(case["axes"]))
        elif op == "dot":
            e = np.dot(da, db)
        elif op in ("matmul", "at"):
            e = np.matmul(da, db)
        elif op == "einsum":
            e = np.einsum(case["sub"], da, db) if db is not None else np.einsum(case["sub"], da)
        elif op == "vecdot":
            e = np.vecdot(da, db, axis=case["axis"])
        elif op == "kron":
            e = np.kron(da, db)
        else:
            e = np.outer(da, db)
        e = np.asarray(e)
        if e.dtype.kind in "fc":
            e = e + 0          # negative zeros read as zero (see _plain)
    except Exception as ex:  # noqa: BLE001
        n = type(ex).__name__
        return {"k": "exc", "exc": n if n in vlib.EXC_ENUM else "OtherError", "cls": n, "msg": str(ex)[:160]}
    return {"k": "dense", "shape": [int(d) for d in e.shape], "flat": [vlib.val_token(v) for v in e.reshape(-1)], "dtype": str(e.dtype)}


def replay(path):
    v = json.load(open(path))
    print(json.dumps(v, indent=1, default=str)[:4000])
    if "replay_py" in v:
        import subprocess
        try:
            p = subprocess.run([vlib.PY, "-c", v["replay_py"]], env=vlib.env_clean(), capture_output=True, text=True, timeout=60)
            print(p.stdout[-3000:], p.stderr[-800:])
        except subprocess.TimeoutExpired:
            print("replay: the call did not return within 60 s (hang)")
    return 0
