"""C15 — the index integer width never affects values.

Three streams, every random choice from random.Random(seed):

prim  Lib/MachInt.v's NumPy-2 rules against real NumPy: array (+) Python int, array (+) array,
      array (+) NumPy scalar (also in place), astype, can_store, min_scalar_type, for the eight
      index types and operands at the limits of each type.  Judged inside Coq (judge_prim).
op    every modelled coordinate computation (Model/IdxWidth.v over the definitions GENERATED from
      /repo) against the implementation run on COO / GCXS objects whose index arrays have the dtype
      t, extents and element counts just below / at / above each type's limit.  The
      implementation's coordinates are brought back to input order through unique data values and
      compared inside Coq with the model in the type t AND with the reference model (unbounded):
      judge_op.
diff  differential only (no Coq model): a broad list of API calls on the same array stored with
      index type t and with intp; outcome (raw coords/data/shape or exception) must be identical,
      or a ValueError naming the dtype.  Reported under coverage.differential_only.
"""
import json
import random
import re

import vlib
from vlib import vZ, vlist, vpair

LEVEL = "proof"
TRUSTED_BASE = [
    "Coq 8.16.1 kernel + vm_compute (case evaluation); no native_compute",
    "axioms: none (Print Assumptions: Closed under the global context for every C15 theorem)",
    "Lib/MachInt.v as a description of NumPy 2 integer promotion / casting, validated against real NumPy by "
    "the 'prim' stream of every run",
    "tools/sitegen/idxwidth.py + tools/frags/idxwidth.py (which source expressions are the coordinate "
    "computations, and the classification of their leaves as array / Python int / intp operand) and "
    "tools/py2v.py for the guards and dtype re-choices; both regenerate Gen/S_idxwidth.v on every run",
    "the mask kernels of _coo/indexing.py compare in intp (modelled on Z); np.ravel_multi_index / linear_loc "
    "produce exact intp values (sizes below 2^63)",
    "correspondence harness tools/props/c15.py, tools/vlib.py",
]
ASSUMPTIONS = [
    "element values are opaque identifiers; data dtype handling is not modelled",
    "array sizes stay below 2^63 (intp arithmetic is exact)",
    "Numba-compiled kernels (mask search, _calc_counts_invidx, uncompress_dimension, GCXS conversion) are "
    "covered by correspondence on the compiled code, their Python source by the model",
]

TYPES = ["int8", "uint8", "int16", "uint16", "int32", "uint32", "int64", "uint64"]
# failed domain clauses (numbers of Corr/C15Judge.v failed_clause); 1-5 (D6 family: getitem step / triu-tril k) were
# repaired in /repo by 0a2ad47 and 972d3f2, 7 (gcxs_rows_exceed_indptr_dtype) by 36b3bc9: no longer part of any domain
CLAUSES = {6: "uint64_promotes_to_float"}
DT_RE = re.compile(r"dtype|u?int(8|16|32|64)|index type|idx_dtype", re.I)


def tbits(t):
    return int(re.search(r"\d+", t).group()), not t.startswith("u")


def tlo(t):
    b, s = tbits(t)
    return -(1 << (b - 1)) if s else 0


def thi(t):
    b, s = tbits(t)
    return (1 << (b - 1)) - 1 if s else (1 << b) - 1


def vity(t):
    b, s = tbits(t)
    return f"(mkI {b} {'true' if s else 'false'})"


def vdty(name):
    if name is None:
        return "DInf"
    if name.startswith("float"):
        return "DFloat"
    if re.fullmatch(r"u?int(8|16|32|64)", name):
        return f"(DInt {vity(name)})"
    return "DFloat"     # anything else (object …) never equals a model dtype


def vbools(bs):
    return "[" + "; ".join("true" if b else "false" for b in bs) + "]"


# ---------------------------------------------------------------------------------------------- worker side
def _exc(ex):
    n = type(ex).__name__
    msg = str(ex)
    if n == "ValueError" and not DT_RE.search(msg):
        n2 = "OtherError"          # a ValueError that does not name the index type is not the allowed outcome
    elif n in vlib.EXC_ENUM:
        n2 = n
    elif isinstance(ex, TypeError):
        n2 = "TypeError"
    elif isinstance(ex, IndexError):
        n2 = "IndexError"
    else:
        n2 = "OtherError"
    return {"exc": n2, "cls": n, "msg": msg[:160]}


def _coo(shape, coords, t, data=None):
    """COO with the given index tuples (sorted), coordinate dtype t, data = 1..nnz (identifiers)"""
    import numpy as np
    import sparse
    n = len(coords)
    nd = len(shape)
    c = np.array(coords, dtype=np.int64).reshape(n, nd).T if n else np.zeros((nd, 0), dtype=np.int64)
    d = np.arange(1, n + 1, dtype=np.int64) if data is None else np.array(data, dtype=np.int64)
    return sparse.COO(c.astype(t), d, shape=tuple(shape), sorted=True, has_duplicates=False)


def _rows_by_id(r, ids):
    """coordinate columns of result r for the given data identifiers, in that order; identifiers that
    are absent are skipped; duplicated / unknown data -> None (garbled)"""
    import numpy as np
    data = [int(v) for v in r.data]
    if len(set(data)) != len(data) or not set(data) <= set(ids):
        return None
    pos = {v: i for i, v in enumerate(data)}
    keep = [i for i in ids if i in pos]
    cs = np.asarray(r.coords)
    return [[int(cs[ax, pos[i]]) for i in keep] for ax in range(cs.shape[0])], keep


def impl_op(case):
    import warnings
    warnings.filterwarnings("ignore")
    extra = {}
    try:
        if case["kind"] == "getitem":
            # the slice as the library normalises it (input of the model's coordinate map)
            from sparse.numba_backend._slicing import normalize_index
            n = normalize_index((slice(*case["sl"]),), (case["shape"][case["axis"]],))[0]
            extra["norm"] = [int(n.start), int(n.stop), int(n.step)]
        r = _impl_op(case)
    except Exception as ex:  # noqa: BLE001
        r = _exc(ex)
    r.update(extra)
    return r


def _impl_op(case):
    import numpy as np
    import sparse
    k, t = case["kind"], case["t"]
    if k == "concat":
        xs, base = [], 0
        for (shape, coords) in case["ops"]:
            n = len(coords)
            xs.append(_coo(shape, coords, t, data=list(range(base + 1, base + n + 1))))
            base += n
        r = sparse.concatenate(xs, axis=case["axis"])
        rows, keep = _rows_by_id(r, list(range(1, base + 1)))
        assert len(keep) == base
        return {"rows": [rows[case["axis"]]], "dt": str(r.coords.dtype), "shape": list(r.shape)}
    if k in ("flip", "roll", "getitem", "tri", "rollt"):
        x = _coo(case["shape"], case["coords"], t)
        ids = list(range(1, x.nnz + 1))
        ax = case.get("axis", 0)
        if k == "flip":
            r = sparse.flip(x, axis=ax)
        elif k == "roll":
            r = sparse.roll(x, case["shift"], axis=ax)
        elif k == "rollt":
            r = sparse.roll(x, tuple(case["shifts"]), axis=tuple(case["axes"]))
        elif k == "getitem":
            idx = [slice(None)] * x.ndim
            idx[ax] = slice(*case["sl"])
            r = x[tuple(idx)]
        else:
            r = (sparse.tril if case["lower"] else sparse.triu)(x, case["k"])
        got = _rows_by_id(r, ids)
        if got is None:
            return {"garbled": True, "plain": vlib.plain(r)}
        rows, keep = got
        if k == "tri":
            ks = set(keep)
            return {"mask": [i in ks for i in ids]}
        if k == "rollt":
            return {"rows": [rows[a] for a in case["axes"]], "dt": str(r.coords.dtype)}
        return {"rows": [rows[ax]], "dt": str(r.coords.dtype), "kept": keep}
    if k == "reshape":
        x = _coo(case["shape"], case["coords"], t)
        r = x.reshape(tuple(case["new"]))
        rows, keep = _rows_by_id(r, list(range(1, x.nnz + 1)))
        return {"rows": rows, "dt": str(r.coords.dtype)}
    if k == "reduce":
        from sparse.numba_backend._coo.core import _grouped_reduce
        groups = np.array(case["groups"], dtype=t)
        data = np.array(case["data"], dtype=np.int64)
        res, inv, cnt = _grouped_reduce(data, groups, np.add)
        return {"pairs": [[int(groups[int(i)]), int(s)] for i, s in zip(inv, res, strict=True)],
                "inv": [int(i) for i in inv], "cnt": [int(c) for c in cnt], "dt": str(inv.dtype)}
    if k == "kron":
        a = _coo(case["ashape"], case["acoords"], t, data=case["adata"])
        b = _coo(case["bshape"], case["bcoords"], t, data=case["bdata"])
        r = sparse.kron(a, b)
        ids = [x * y for x in case["adata"] for y in case["bdata"]]
        rows, keep = _rows_by_id(r, ids)
        assert len(keep) == len(ids)
        return {"rows": rows, "dt": str(r.coords.dtype)}
    if k == "pad":
        x = _coo(case["shape"], case["coords"], t)
        r = sparse.pad(x, case["pw"])
        rows, keep = _rows_by_id(r, list(range(1, x.nnz + 1)))
        return {"rows": rows, "dt": str(r.coords.dtype)}
    if k == "stack":
        x = _coo(case["shape"], case["coords"], t)
        r = sparse.stack([x, x], axis=case["axis"])
        return {"rows": [[1 if r.coords.dtype.kind in "iu" else 0]], "dt": str(r.coords.dtype)}
    if k == "ctor":
        n = len(case["coords"])
        c = np.array(case["coords"], dtype=np.int64).reshape(n, len(case["shape"])).T.astype(t)
        r = sparse.COO(c, np.arange(1, n + 1), shape=tuple(case["shape"]), sorted=True, has_duplicates=False,
                       idx_dtype=np.dtype(case["ti"]))
        return {"rows": [[int(v) for v in r.coords[0]]], "dt": str(r.coords.dtype)}
    if k == "fromcoo":
        x = _coo(case["shape"], case["coords"], t)
        kw = {} if case["ti"] is None else {"idx_dtype": np.dtype(case["ti"])}
        g = sparse.GCXS.from_coo(x, compressed_axes=(0,), **kw)     # n-d: rows = shape[0], cols = prod(shape[1:])
        return {"rows": [[int(v) for v in g.indices], [int(v) for v in g.indptr]], "dt": str(g.indices.dtype),
                "dt2": str(g.indptr.dtype)}
    if k == "gjoin":
        gs = []
        for (shape, coords) in case["ops"]:
            gs.append(sparse.GCXS.from_coo(_coo(shape, coords, t), compressed_axes=(0,)))
        dts = {str(g.indptr.dtype) for g in gs}
        assert dts == {t}, dts
        ptrs = [([int(v) for v in g.indptr], int(g.nnz)) for g in gs]
        r = sparse.concatenate(gs, axis=0) if case["how"] == "concat" else sparse.stack(gs, axis=0)
        from sparse.numba_backend._compressed.convert import uncompress_dimension
        return {"rows": [[int(v) for v in r.indptr], [int(v) for v in uncompress_dimension(r.indptr)]],
                "dt": str(r.indptr.dtype), "ptrs": ptrs, "shape": list(r.shape)}
    if k == "diag":
        x = _coo(case["shape"], case["coords"], t)
        r = sparse.diagonal(x, offset=case["offset"], axis1=case["axis1"], axis2=case["axis2"])
        ids = set(int(v) for v in r.data)
        assert len(ids) == r.nnz
        return {"mask": [i in ids for i in range(1, x.nnz + 1)]}
    if k == "canon":
        # user-supplied coordinates in arbitrary order, with repeats: the constructor must sort and sum them
        n = len(case["coords"])
        nd = len(case["shape"])
        c = np.array(case["coords"], dtype=np.int64).reshape(n, nd).T.astype(t)
        r = sparse.COO(c, np.arange(1, n + 1, dtype=np.int64), shape=tuple(case["shape"]))
        lin = np.ravel_multi_index(tuple(np.asarray(r.coords).astype(np.int64)), tuple(case["shape"])) if nd else []
        return {"pairs": [[int(a), int(b)] for a, b in zip(lin, r.data, strict=True)], "dt": str(r.coords.dtype)}
    if k == "gtrans":
        # multi-step: join narrow-index GCXS members (indices stay narrow, nnz grows), then re-compress
        gs = [sparse.GCXS.from_coo(_coo(shape, coords, t), compressed_axes=(0,)) for (shape, coords) in case["ops"]]
        j = sparse.concatenate(gs, axis=0)
        xdt = str(j.indices.dtype)
        r = j.change_compressed_axes((1,))
        return {"rows": [[int(v) for v in r.indices], [int(v) for v in r.indptr]], "dt": str(r.indptr.dtype),
                "dt_indices": str(r.indices.dtype), "xdt": xdt, "joined_nnz": int(j.nnz),
                "joined_indptr_dt": str(j.indptr.dtype)}
    if k == "uncompress":
        from sparse.numba_backend._compressed.convert import uncompress_dimension
        p = np.array(case["indptr"], dtype=t)
        r = uncompress_dimension(p)
        return {"rows": [[int(v) for v in r]], "dt": str(r.dtype)}
    raise ValueError(k)


def impl_op_batch(batch):
    """all op cases of one index dtype in one worker (the Numba kernels are compiled once per dtype)"""
    return [impl_op(c) for c in batch["items"]]


_NB = {}


def _numba_fns():
    """per operator: (array element <op> scalar, array element <op> array element), Numba-compiled"""
    if not _NB:
        import numba
        _NB[0] = (numba.njit(lambda a, k: a[0] + k), numba.njit(lambda a, b: a[0] + b[0]))
        _NB[1] = (numba.njit(lambda a, k: a[0] - k), numba.njit(lambda a, b: a[0] - b[0]))
        _NB[2] = (numba.njit(lambda a, k: a[0] * k), numba.njit(lambda a, b: a[0] * b[0]))
    return _NB


def impl_prim(case):
    import warnings

    import numpy as np
    warnings.filterwarnings("ignore")
    import operator
    ops = [operator.add, operator.sub, operator.mul, operator.floordiv, operator.mod]
    iops = [operator.iadd, operator.isub, operator.imul, operator.ifloordiv, operator.imod]
    k = case["kind"]
    try:
        if k == "arrpy":
            r = ops[case["op"]](np.array(case["a"], dtype=case["t"]), int(case["k"]))
        elif k == "pyarr":
            r = ops[case["op"]](int(case["k"]), np.array(case["a"], dtype=case["t"]))
        elif k == "arrarr":
            r = ops[case["op"]](np.array(case["a"], dtype=case["t"]), np.array(case["b"], dtype=case["t2"]))
        elif k == "arrnp":
            r = ops[case["op"]](np.array(case["a"], dtype=case["t"]), np.dtype(case["kt"]).type(case["k"]))
        elif k == "iarrnp":
            r = np.array(case["a"], dtype=case["t"])
            r = iops[case["op"]](r, np.dtype(case["kt"]).type(case["k"]))
        elif k == "astype":
            r = np.array(case["a"], dtype=object).astype(np.int64 if all(-2**63 <= v < 2**63 for v in case["a"]) else np.uint64).astype(case["t"])
        elif k == "canstore":
            from sparse.numba_backend._utils import can_store
            z = case["z"]
            r1 = bool(can_store(np.dtype(case["t"]), z))
            if case.get("np64") and -2**63 <= z < 2**63:
                r2 = bool(can_store(np.dtype(case["t"]), np.int64(z)))
                if r1 != r2:
                    return {"exc": "OtherError", "msg": "can_store differs for int / np.int64"}
            return {"mask": [r1]}
        elif k == "minscalar":
            return {"rows": [], "dt": str(np.min_scalar_type(case["z"]))}
        elif k == "fulltype":
            return {"rows": [], "dt": str(np.full(1, case["z"]).dtype)}
        elif k in ("nbarrsc", "nbarrarr"):
            import numba
            fs = _numba_fns()
            f = fs[case["op"]]
            vals, rt = [], None
            for i, v in enumerate(case["a"]):
                x = np.array([v], dtype=case["t"])
                y = np.dtype(case["kt"]).type(case["k"]) if k == "nbarrsc" else np.array([case["b"][i]], dtype=case["t2"])
                g = f[0] if k == "nbarrsc" else f[1]
                r = g(x, y)
                rt = str(g.overloads[(numba.typeof(x), numba.typeof(y))].signature.return_type)
                vals.append(int(r))
            return {"rows": [vals], "dt": rt}
        else:
            raise ValueError(k)
        if r.dtype.kind == "f":
            if not np.all(np.isfinite(r)) or not np.all(r == np.floor(r)):
                return {"rows": [[]], "dt": str(r.dtype), "inexact": True}
        return {"rows": [[int(v) for v in r]], "dt": str(r.dtype)}
    except Exception as ex:  # noqa: BLE001
        return _exc(ex)


# ---- arrays WITHOUT stored elements made by the library (zero-size contraction, empty selections, zeros) joined /
#      combined with ordinary arrays: compared with NumPy
def impl_emptyidx(case):
    import warnings

    import numpy as np
    import sparse
    warnings.filterwarnings("ignore")
    m, t, how, op = case["m"], case["t"], case["how"], case["op"]
    yd = np.arange(1, m * m + 1).reshape(m, m) % 5
    y0 = sparse.COO.from_numpy(yd)
    y = sparse.COO(y0.coords.astype(t), y0.data, shape=y0.shape, sorted=True, has_duplicates=False)
    a = np.ones((m, 0), dtype=int)
    if how == "tensordot0":
        z = sparse.tensordot(sparse.COO.from_numpy(a), sparse.COO.from_numpy(a.T), axes=1)
    elif how == "dot0":
        z = sparse.dot(sparse.COO.from_numpy(a), sparse.COO.from_numpy(a.T))
    elif how == "empty_typed":
        z = sparse.COO(np.zeros((2, 0), dtype=t), np.zeros(0, dtype=int), shape=(m, m))
    elif how == "mask_empty":
        z = y[y.shape[0]:, :].broadcast_to((m, m)) if False else (y * 0)
    else:
        z = sparse.zeros((m, m), dtype=int)
    zd = np.zeros((m, m), dtype=int)
    ops = {
        "concat0": (lambda: sparse.concatenate([z, y], axis=0), lambda: np.concatenate([zd, yd], axis=0)),
        "concat1": (lambda: sparse.concatenate([y, z], axis=1), lambda: np.concatenate([yd, zd], axis=1)),
        "stack0": (lambda: sparse.stack([z, y], axis=0), lambda: np.stack([zd, yd], axis=0)),
        "stack2": (lambda: sparse.stack([y, z], axis=2), lambda: np.stack([yd, zd], axis=2)),
        "add": (lambda: z + y, lambda: zd + yd),
        "kron": (lambda: sparse.kron(z, y), lambda: np.kron(zd, yd)),
        "pad": (lambda: sparse.pad(z, 1), lambda: np.pad(zd, 1)),
        "dot": (lambda: sparse.dot(z, y), lambda: zd @ yd),
        "sum": (lambda: sparse.concatenate([z, y], axis=0).sum(axis=0), lambda: np.concatenate([zd, yd]).sum(axis=0)),
    }
    f, g = ops[op]
    want = g()
    try:
        r = f()
        got = r.todense() if hasattr(r, "todense") else np.asarray(r)
        ok = got.shape == want.shape and bool(np.array_equal(got, want))
        return {"ok": ok, "z_idx": str(z.coords.dtype), "res_idx": str(getattr(getattr(r, "coords", None), "dtype", None))}
    except Exception as ex:  # noqa: BLE001
        e = _exc(ex)
        return {"ok": False, "exc": e["exc"], "cls": e["cls"], "msg": e["msg"], "z_idx": str(z.coords.dtype)}


def impl_emptyidx_batch(batch):
    return [impl_emptyidx(c) for c in batch["items"]]


def gen_emptyidx_cases(tier, rng):
    cases = []
    for t in TYPES:
        for how in ("tensordot0", "dot0", "empty_typed", "mask_empty", "zeros"):
            for op in ("concat0", "concat1", "stack0", "stack2", "add", "kron", "pad", "dot", "sum"):
                if tier == "quick" and rng.random() < 0.5 and how not in ("tensordot0", "empty_typed"):
                    continue
                cases.append(dict(m=rng.choice([2, 3]), t=t, how=how, op=op))
    return cases


# ---- constructions with an explicit idx_dtype: accepted (values = NumPy, index dtype = the requested one) exactly
#      when the type can hold what it has to hold; otherwise ValueError naming the dtype
def impl_ctoridx(case):
    import warnings

    import numpy as np
    import sparse
    warnings.filterwarnings("ignore")
    kind, t, shape = case["kind"], np.dtype(case["t"]), tuple(case["shape"])
    rs = np.random.default_rng(3)
    d = rs.integers(1, 9, size=shape) * (rs.random(shape) < case["dens"])
    try:
        if kind == "coo_from_numpy":
            r = sparse.COO.from_numpy(d, idx_dtype=t)
        elif kind == "coo_ctor":
            x = sparse.COO.from_numpy(d)
            r = sparse.COO(x.coords, x.data, shape=x.shape, idx_dtype=t)
        elif kind == "as_coo":
            r = sparse.as_coo(d, idx_dtype=t)
        elif kind == "asformat_gcxs_from_dok":
            r = sparse.DOK.from_numpy(d).asformat("gcxs", compressed_axes=(0,), idx_dtype=t)
        elif kind == "gcxs_from_numpy":
            r = sparse.GCXS.from_numpy(d, compressed_axes=(0,), idx_dtype=t)
        elif kind == "gcxs_from_coo":
            r = sparse.GCXS.from_coo(sparse.COO.from_numpy(d), compressed_axes=(0,), idx_dtype=t)
        elif kind == "asformat_gcxs":
            r = sparse.COO.from_numpy(d).asformat("gcxs", compressed_axes=(0,), idx_dtype=t)
        elif kind == "random":
            r = sparse.random(shape, density=0.05, random_state=1, idx_dtype=t)
            d = r.todense()
        else:
            raise ValueError(kind)
        idt = str(r.coords.dtype) if hasattr(r, "coords") else str(r.indices.dtype)
        return {"ok": bool(np.array_equal(r.todense(), d)), "idx": idt, "nnz": int(r.nnz)}
    except Exception as ex:  # noqa: BLE001
        e = _exc(ex)
        return {"exc": e["exc"], "cls": e["cls"], "msg": e["msg"], "nnz": int(np.count_nonzero(d))}


def impl_ctoridx_batch(batch):
    return [impl_ctoridx(c) for c in batch["items"]]


def gen_ctoridx_cases(tier, rng):
    cases = []
    kinds = ["coo_from_numpy", "coo_ctor", "as_coo", "asformat_gcxs_from_dok", "gcxs_from_numpy", "gcxs_from_coo", "asformat_gcxs", "random"]
    for t in TYPES:
        hi = thi(t)
        shapes = []
        if tbits(t)[0] == 8:
            # size beyond the dtype while every axis fits; one axis at / above the limit; small
            shapes = [[10, 30, 30], [hi, 3], [hi + 1, 3], [3, hi], [2, hi + 1], [5, 6], [20, 20, 3], [min(hi, 200), 2, 2]]
        elif tbits(t)[0] == 16:
            shapes = [[40, 40, 40], [hi, 2], [hi + 1, 2], [2, hi + 1], [300, 300]]
        else:
            shapes = [[10, 30, 30], [300, 300], [70000, 2]]
        for shape in shapes:
            for kind in (kinds if tier != "quick" else rng.sample(kinds, 5)):
                cases.append(dict(kind=kind, t=t, shape=shape, dens=0.05 if max(shape) > 1000 else 0.2))
    return cases


def ctoridx_expect(case, r):
    """None when the outcome is acceptable, else a description"""
    t, shape = case["t"], case["shape"]
    if case["kind"].startswith(("gcxs", "asformat")):
        rows, cols = shape[0], 1
        for e in shape[1:]:
            cols *= e
        need = max(rows, cols, r.get("nnz", 0))
        need_coo = max(shape) if case["kind"] == "gcxs_from_numpy" else 0
        fits = need <= thi(t) and need_coo <= thi(t)
    else:
        fits = max(shape) <= thi(t)
    if "exc" in r:
        if r["exc"] == "ValueError" and not fits:
            return None
        return ("rejected although the type holds every extent" if fits else "wrong exception") + f": {r.get('cls')} {r.get('msg')}"
    if not fits:
        return "accepted although the type cannot hold it"
    if not r["ok"]:
        return "values differ from NumPy"
    if r["idx"] != t:
        return f"index dtype {r['idx']} instead of the requested {t}"
    return None


# ---- index ARRAYS of narrow integer dtypes (fancy indexing): the result must not depend on the array's dtype
def impl_idxarr(case):
    import warnings

    import numpy as np
    import sparse
    warnings.filterwarnings("ignore")
    n, dt, idx, fmt = case["n"], case["dt"], case["idx"], case["fmt"]
    d = np.arange(1, n + 1)
    x = sparse.COO.from_numpy(d)
    if fmt == "gcxs":
        x = x.asformat("gcxs")
    elif fmt == "dok":
        x = x.asformat("dok")
    ia = np.array(idx, dtype=dt)
    want = [int(v) for v in d[ia]]
    try:
        got = [int(v) for v in x[ia].todense()]
        return {"want": want, "got": got}
    except Exception as ex:  # noqa: BLE001
        return {"want": want, "exc": type(ex).__name__, "msg": str(ex)[:120]}


def impl_idxarr_batch(batch):
    return [impl_idxarr(c) for c in batch["items"]]


def gen_idxarr_cases(tier, rng):
    cases = []
    for n in [100, 127, 128, 200, 255, 256, 300] + ([32767, 32768, 40000, 65535, 65536, 70000] if tier != "quick" else [40000]):
        for dt in TYPES:
            hi = min(thi(dt), n - 1)
            idxs = [[0, hi // 2, hi], [1, 1, 0]]
            if not dt.startswith("u"):
                lo = max(tlo(dt), -n)
                idxs += [[-1, -2], [lo, -1, 0, hi]]
            for idx in idxs:
                for fmt in (("coo", "gcxs", "dok") if tier != "quick" else ("coo", rng.choice(["gcxs", "dok"]))):
                    cases.append(dict(n=n, dt=dt, idx=idx, fmt=fmt))
    return cases


_CTX = {}


def _npz_roundtrip(x):
    import io

    import sparse
    buf = io.BytesIO()
    sparse.save_npz(buf, x)
    buf.seek(0)
    return sparse.load_npz(buf)


# ---- differential stream
def _diff_calls():
    """name -> callable(x, sparse, np) ; x is a COO with the index dtype under test"""
    import numpy as np
    import sparse

    def gcxs(x, **kw):
        return x.asformat("gcxs", **kw)
    calls = {
        "getitem_int": lambda x: x[x.shape[0] - 1],
        "getitem_pos": lambda x: x[1::2],
        "getitem_neg": lambda x: x[::-1],
        "getitem_neg3": lambda x: x[-2::-3],
        "getitem_bigstep": lambda x: x[::300],
        "getitem_last": lambda x: x[..., ::2] if x.ndim > 1 else x[2:],
        "getitem_fancy": lambda x: x[[0, x.shape[0] - 1]],
        "sum_all": lambda x: x.sum(),
        "sum_0": lambda x: x.sum(axis=0),
        "sum_last": lambda x: x.sum(axis=-1),
        "max_0": lambda x: x.max(axis=0),
        "min_last": lambda x: x.min(axis=-1),
        "any_0": lambda x: x.any(axis=0),
        "flip": lambda x: sparse.flip(x),
        "flip_0": lambda x: sparse.flip(x, axis=0),
        "roll_1": lambda x: sparse.roll(x, 1, axis=0),
        "roll_m1": lambda x: sparse.roll(x, -1, axis=0),
        "roll_big": lambda x: sparse.roll(x, -200, axis=-1),
        "roll_flat": lambda x: sparse.roll(x, 3),
        "roll_turn": lambda x: sparse.roll(x, x.shape[0], axis=0),
        "roll_turn2": lambda x: sparse.roll(x, 2 * x.shape[-1] + 1, axis=-1),
        "roll_tuple_turn": lambda x: sparse.roll(x, (x.shape[0] + 1, 2 * x.shape[-1]), axis=(0, x.ndim - 1)) if x.ndim > 1
        else sparse.roll(x, (x.shape[0] + 1,), axis=(0,)),
        "pad_1": lambda x: sparse.pad(x, 1),
        "pad_big": lambda x: sparse.pad(x, 200),
        "triu_0": lambda x: sparse.triu(x),
        "triu_p": lambda x: sparse.triu(x, 2),
        "triu_m": lambda x: sparse.triu(x, -1),
        "tril_p100": lambda x: sparse.tril(x, 100),
        "tril_m": lambda x: sparse.tril(x, -2),
        "diagonal": lambda x: sparse.diagonal(x[: min(x.shape), : min(x.shape)]),
        "diagonal_1": lambda x: sparse.diagonal(x[: min(x.shape), : min(x.shape)], 1),
        "diagonal_m1": lambda x: sparse.diagonal(x[: min(x.shape), : min(x.shape)], -1),
        "diagonal_m3_ax": lambda x: sparse.diagonal(x[: min(x.shape), : min(x.shape)], -3, axis1=1, axis2=0),
        "diagonalize": lambda x: sparse.diagonalize(x, axis=0),
        "npz_roundtrip": _npz_roundtrip,
        "gcxs_single": lambda x: np.array([gcxs(x)[tuple(int(v) for v in x.coords[:, -1])], gcxs(x)[(0,) * x.ndim]]),
        "concat_0": lambda x: sparse.concatenate([x, x, x], axis=0),
        "concat_last": lambda x: sparse.concatenate([x, x], axis=-1),
        "stack_0": lambda x: sparse.stack([x, x], axis=0),
        "stack_last": lambda x: sparse.stack([x, x, x], axis=-1),
        "kron_small": lambda x: sparse.kron(x, sparse.COO.from_numpy(np.array([1, 0, 2]).reshape((1,) * (x.ndim - 1) + (3,)))),
        "kron_self": lambda x: sparse.kron(x[:3], x[:3]) if x.ndim == 1 else sparse.kron(x[:2, :3], x[:3, :2]),
        "reshape_flat": lambda x: x.reshape((-1,)),
        "reshape_2": lambda x: x.reshape((2, -1)) if x.size % 2 == 0 else x.reshape((1, -1)),
        "transpose": lambda x: x.T,
        "add_bcast": lambda x: x + x[:1],
        "mul_self": lambda x: x * x,
        "dot": lambda x: sparse.dot(x, x.T) if x.ndim == 2 else sparse.dot(x, x),
        "dot_T": lambda x: sparse.dot(x.T, x) if x.ndim == 2 and x.shape[1] <= 300 else (sparse.dot(x.T[:200], x[:, :200]) if x.ndim == 2 else sparse.dot(x, x)),
        "matmul_self": lambda x: (x @ x.T) if x.ndim == 2 else x @ x,
        "tensordot_11": lambda x: sparse.tensordot(x, x, axes=([x.ndim - 1], [x.ndim - 1])),
        "sort": lambda x: sparse.sort(x),
        "bcast_to": lambda x: x.broadcast_to((2,) + x.shape),
        "nonzero": lambda x: np.stack(x.nonzero()).astype(np.int64),
        "to_gcxs": lambda x: gcxs(x),
        "to_gcxs_back": lambda x: gcxs(x).tocoo(),
        "gcxs_sum0": lambda x: gcxs(x).sum(axis=0),
        "gcxs_T": lambda x: gcxs(x).T,
        "gcxs_getitem": lambda x: gcxs(x)[1:],
        "gcxs_getitem_neg": lambda x: gcxs(x)[::-1],
        "gcxs_fancy_rep": lambda x: gcxs(x)[[0, 1, 2] * 100],
        "gcxs_reshape": lambda x: gcxs(x).reshape((-1,)),
        "gcxs_concat": lambda x: sparse.concatenate([gcxs(x), gcxs(x)], axis=0),
        "gcxs_concat_dense": lambda x: sparse.concatenate([gcxs(x), gcxs(x)], axis=0).todense(),
        "gcxs_stack": lambda x: sparse.stack([gcxs(x), gcxs(x)], axis=0),
        "gcxs_dot": lambda x: sparse.dot(gcxs(x), gcxs(x).T) if x.ndim == 2 else sparse.dot(gcxs(x), gcxs(x)),
    }

    # an operation grows an axis beyond the operand's index type by BROADCASTING (how="bcast": x has shape (1, 5),
    # _CTX["N"] is the new extent): broadcast_to, element-wise with a length-1 axis, with an operand lacking the axis
    def grown():
        return int(_CTX["N"])

    def zcol():        # (N, 1) intp-coords array with a few stored elements, incl. the last row
        n = grown()
        rows = sorted({0, 1, n // 2, n - 2, n - 1})
        return sparse.COO(np.array([rows, [0] * len(rows)]), np.arange(2, 2 + len(rows)), shape=(n, 1))
    calls.update({
        "bc_to": lambda x: x.broadcast_to((grown(), x.shape[1])),
        "bc_to_sum": lambda x: x.broadcast_to((grown(), x.shape[1])).sum(axis=1),
        "bc_mul": lambda x: x * zcol(),
        "bc_add": lambda x: x + zcol(),
        "bc_missing_axis": lambda x: x[0] * zcol(),
        "bc_missing_axis_to": lambda x: x[0].broadcast_to((grown(), x.shape[1])),
        "bc_outer": lambda x: sparse.kron(zcol(), x),
        "bc_where": lambda x: sparse.where(zcol() > 2, x, 0),
    })
    # argmax / argmin on UNPRUNED inputs (stored values equal to the fill value; how="unpruned")
    calls.update({
        "up_argmax": lambda x: sparse.argmax(x), "up_argmin": lambda x: sparse.argmin(x),
        "up_argmax_0": lambda x: sparse.argmax(x, axis=0), "up_argmin_0": lambda x: sparse.argmin(x, axis=0),
        "up_argmax_last": lambda x: sparse.argmax(x, axis=-1), "up_argmin_last": lambda x: sparse.argmin(x, axis=-1),
        "up_argmax_0_keep": lambda x: sparse.argmax(x, axis=0, keepdims=True),
        "up_max_0": lambda x: x.max(axis=0), "up_dense": lambda x: x.todense(),
    })

    # GCXS built with an EXPLICIT narrow index dtype (no automatic widening), then reduced / re-compressed
    def gx(x):
        return sparse.GCXS.from_coo(x, compressed_axes=(0,), idx_dtype=x.coords.dtype)
    calls.update({
        "gx_sum_last": lambda x: gx(x).sum(axis=-1),
        "gx_sum_0": lambda x: gx(x).sum(axis=0),
        "gx_sum_1": lambda x: gx(x).sum(axis=1),
        "gx_max_last": lambda x: gx(x).max(axis=-1),
        "gx_cca": lambda x: gx(x).change_compressed_axes((x.ndim - 1,)).tocoo(),
        "gx_T": lambda x: gx(x).T.tocoo(),
        "gx_dense": lambda x: gx(x).todense(),
    })

    # consumers that rely on the canonical (sorted, duplicate-free) order, after producers that hand unordered /
    # repeated coordinates to the constructor: user coordinates (how="unsorted"), flip, einsum
    def stored(x):
        return sorted({int(v) for v in x.coords[0]})
    calls.update({
        "us_nnz": lambda x: np.array([x.nnz]),
        "us_coords": lambda x: x,
        "us_getitem_first": lambda x: x[stored(x)[0]],
        "us_getitem_last": lambda x: x[stored(x)[-1]],
        "us_getitem_fancy": lambda x: x[stored(x)],
        "us_slice": lambda x: x[stored(x)[0]:stored(x)[-1] + 1:2],
        "us_reshape_index": lambda x: x.reshape((1,) + x.shape)[0, stored(x)[-1]] if x.ndim == 1 else x.reshape((-1,))[-1],
        "us_sum": lambda x: x.sum(axis=0),
        "flip_getitem": lambda x: sparse.flip(x, axis=0)[x.shape[0] - 1 - stored(x)[-1]],
        "flip_fancy": lambda x: sparse.flip(x, axis=0)[[x.shape[0] - 1 - v for v in stored(x)]],
        "flip_slice": lambda x: sparse.flip(x, axis=0)[1::2],
        "einsum_ji_i": lambda x: sparse.einsum("ji->i", x) if x.ndim == 2 else sparse.einsum("i->i", x),
        "einsum_ji_i_fancy": lambda x: (sparse.einsum("ji->i", x) if x.ndim == 2 else sparse.einsum("i->i", x))[
            sorted({int(v) for v in x.coords[-1]})],
        "einsum_ji_i_item": lambda x: (sparse.einsum("ji->i", x) if x.ndim == 2 else sparse.einsum("i->i", x))[
            int(x.coords[-1].max()) if x.nnz else 0],
    })

    # multi-step sequences (how="member3d"): x is one member; k copies are joined so that the number of stored
    # elements crosses the limit of the index type while every extent stays small, THEN the result is
    # re-compressed / transposed / reshaped / reduced (convert._transpose, _1d_reshape)
    def member(x):
        return sparse.GCXS.from_coo(x, compressed_axes=(0,))

    def joined(x, **kw):
        return sparse.concatenate([member(x)] * 3, axis=0, **kw)
    n0 = lambda x: 3 * x.shape[0]  # noqa: E731
    calls.update({
        "ms_join_dense": lambda x: joined(x).todense(),
        "ms_join_ca1_dense": lambda x: joined(x, compressed_axes=(1,)).todense(),
        "ms_join_ca1_sum": lambda x: joined(x, compressed_axes=(1,)).sum(axis=(0, 2)),
        "ms_join_cca2": lambda x: joined(x).change_compressed_axes((2,)),
        "ms_join_cca2_tocoo": lambda x: joined(x).change_compressed_axes((2,)).tocoo(),
        "ms_join_T": lambda x: joined(x).transpose((2, 0, 1)),
        "ms_join_T_dense": lambda x: joined(x).transpose((2, 0, 1)).todense(),
        "ms_join_reshape_sum": lambda x: joined(x).reshape((x.shape[1], n0(x), x.shape[2])).sum(axis=(1, 2)),
        "ms_join_flat": lambda x: joined(x).reshape((-1,)),
        "ms_stack_cca": lambda x: sparse.stack([member(x)] * 3, axis=0).change_compressed_axes((1,)).tocoo(),
        "ms_join_sum0": lambda x: joined(x).sum(axis=0),
        "ms_join_max12": lambda x: joined(x).max(axis=(1, 2)),
    })
    return calls


def _norm_plain(p):
    q = {k: v for k, v in p.items() if k not in ("idx_dtype", "msg")}
    return q


def impl_diff(case):
    """one batch: [(call name, shape, coords, t, how)] -> list of outcomes {ref, got}"""
    import warnings

    import numpy as np
    import sparse
    warnings.filterwarnings("ignore")
    calls = _diff_calls()
    out = []
    for (name, shape, coords, t, how) in case["items"]:
        res = {}
        for key, tt in (("ref", "int64"), ("got", t)):
            try:
                if how == "coords":
                    x = _coo(shape, coords, tt)
                elif how == "random":
                    x = sparse.random(tuple(shape), density=0.02, random_state=7, idx_dtype=np.dtype(tt))
                    x = sparse.COO(x.coords, np.arange(1, x.nnz + 1), shape=x.shape, sorted=True, has_duplicates=False)
                elif how == "full":
                    d = np.arange(1, int(np.prod(shape)) + 1).reshape(shape) % 251 + 1
                    x0 = sparse.COO.from_numpy(d)
                    x = sparse.COO(x0.coords.astype(tt), x0.data, shape=x0.shape, sorted=True, has_duplicates=False)
                elif how == "unsorted":
                    n = len(coords)
                    c = np.array(coords, dtype=np.int64).reshape(n, len(shape)).T.astype(tt)
                    x = sparse.COO(c, np.arange(1, n + 1, dtype=np.int64), shape=tuple(shape))   # sorts + sums duplicates
                elif how == "bcast":
                    _CTX["N"] = coords[0]
                    x = _coo([1, 5], [[0, 0], [0, 2], [0, 4]], tt)
                elif how == "unpruned":
                    fill, seedv = coords
                    rs = np.random.default_rng(seedv)
                    d = rs.integers(-2, 3, size=tuple(shape))
                    mask = rs.random(tuple(shape)) < 0.5
                    idxs = np.argwhere(mask)
                    vals = d[mask]
                    vals[rs.random(len(vals)) < 0.5] = fill          # stored elements equal to the fill value
                    for r in range(min(2, shape[0])):                 # whole lines whose stored elements all equal the fill
                        vals[idxs[:, 0] == r] = fill
                    x = sparse.COO(idxs.T.astype(tt), vals, shape=tuple(shape), fill_value=fill, prune=False,
                                   sorted=True, has_duplicates=False)
                elif how == "rand3d":
                    rs = np.random.default_rng(7)
                    d = rs.integers(1, 9, size=tuple(shape)) * (rs.random(tuple(shape)) < 0.08)
                    x0 = sparse.COO.from_numpy(d)
                    x = sparse.COO(x0.coords.astype(tt), x0.data, shape=x0.shape, sorted=True, has_duplicates=False)
                elif how == "member3d":
                    rs = np.random.default_rng(42)
                    d = rs.integers(1, 10, size=tuple(shape))
                    d[rs.random(d.shape) >= coords[0] / 100.0] = 0      # coords[0]: density in percent
                    x0 = sparse.COO.from_numpy(d)
                    x = sparse.COO(x0.coords.astype(tt), x0.data, shape=x0.shape, sorted=True, has_duplicates=False)
                else:
                    raise ValueError(how)
                r = calls[name](x)
                p = vlib.plain(r)
                if p.get("k") == "coo" and len(p["data"]) > 4000 or p.get("k") == "dense" and len(p["flat"]) > 4000 \
                        or p.get("k") == "gcxs" and len(p["data"]) > 4000:
                    p = {"k": p["k"], "shape": p["shape"], "digest": vlib.digest(_norm_plain(p)),
                         "idx_dtype": p.get("idx_dtype")}
                res[key] = p
            except Exception as ex:  # noqa: BLE001
                e = _exc(ex)
                res[key] = {"k": "exc", "exc": e["exc"], "cls": e["cls"], "msg": e["msg"]}
        out.append(res)
    return out


# ---------------------------------------------------------------------------------------------- generators
LIMITS = {8: [126, 127, 128, 129, 254, 255, 256, 257], 16: [32766, 32767, 32768, 32769, 65534, 65535, 65536, 65537]}


def extents_for(t, rng, tier):
    """extents at / around the limits that t can still hold (can_store(t, n)), plus small ones"""
    hi = thi(t)
    cand = [1, 2, 3, 5, 100] + LIMITS[8] + LIMITS[16] + ([2**31 - 1, 2**31, 2**32 - 1, 2**32] if tier != "quick" else [])
    return [n for n in cand if n <= hi]


def pick_coords(rng, n, k=5):
    """a few coordinates of an axis of extent n: both ends and points around the 8/16-bit limits"""
    pts = {0, n - 1, n // 2}
    for lim in (127, 128, 255, 256, 32767, 32768, 65535, 65536):
        for d in (-1, 0):
            if 0 <= lim + d < n:
                pts.add(lim + d)
    pts = sorted(pts)
    if len(pts) > k:
        pts = sorted(set([pts[0], pts[-1]] + rng.sample(pts[1:-1], k - 2)))
    return pts


def gen_op_cases(tier, rng):
    cases = []
    reps = 1 if tier == "quick" else 3
    for t in TYPES:
        exts = extents_for(t, rng, tier)
        big = [n for n in exts if n >= 100]
        some = lambda k: rng.sample(exts, min(k, len(exts)))  # noqa: E731
        # ---- concatenate: result extent below / at / above the limit of t
        for _ in range(4 * reps):
            n1, n2 = rng.choice(exts), rng.choice(exts)
            ops = [([n], [[c] for c in pick_coords(rng, n, 3)]) for n in (n1, n2, rng.choice([1, n1]))]
            cases.append(dict(kind="concat", t=t, ops=ops, axis=0, mo=0))
        for _ in range(2 * reps):
            m = rng.choice([2, 3])
            n1, n2 = rng.choice(exts), rng.choice(exts)
            ops = [([m, n], sorted([rng.randrange(m), c] for c in pick_coords(rng, n, 3))) for n in (n1, n2)]
            cases.append(dict(kind="concat", t=t, ops=ops, axis=1, mo=m))
        # ---- flip / roll / getitem on one axis
        for n in some(5 * reps):
            cs = pick_coords(rng, n)
            cases.append(dict(kind="flip", t=t, shape=[n], coords=[[c] for c in cs], axis=0))
            for sh in {1, -1, rng.choice([n, -n, n - 1, 5, -7]), rng.choice([thi(t) - n, thi(t) - n + 1, tlo(t), tlo(t) - 1,
                                                                          -200, 300, 127, -128, -129])}:
                if abs(sh) < 2**62:
                    cases.append(dict(kind="roll", t=t, shape=[n], coords=[[c] for c in cs], axis=0, shift=sh))
            for sl in [(None, None, -1), (None, None, 2), (1, None, 3), (None, None, -3), (n - 1, None, -2),
                       (None, None, rng.choice([127, 128, 129, 255, 256, 300, -128, -129, -300, 40000, -40000])),
                       (rng.randrange(n), rng.randrange(n + 1), rng.choice([1, 2, -1, -2]))]:
                cases.append(dict(kind="getitem", t=t, shape=[n], coords=[[c] for c in cs], axis=0, sl=list(sl)))
        for _ in range(2 * reps):
            n, m = rng.choice(exts), rng.choice([2, 3])
            cs = sorted([rng.randrange(m), c] for c in pick_coords(rng, n, 4))
            cases.append(dict(kind="flip", t=t, shape=[m, n], coords=cs, axis=1))
            cases.append(dict(kind="getitem", t=t, shape=[m, n], coords=cs, axis=1, sl=[None, None, rng.choice([-1, 2, -2])]))
            cases.append(dict(kind="rollt", t=t, shape=[m, n], coords=cs, axes=[0, 1],
                              shifts=[rng.choice([1, -1, 2]), rng.choice([1, -1, n, thi(t) - n, thi(t) - n + 1, -200, 100])]))
        # ---- roll by at least one whole turn: positive shifts >= the axis length that (alone) still fit the
        #      dtype, stored elements at the top of the axis, 2^bits not a multiple of n — a guard that only
        #      looks at the reduced shift would let coords + shift wrap silently (e.g. int8, n=50, shift=100:
        #      49 -> 149 -> -107 -> 43)
        if tbits(t)[0] <= 16 or tier != "quick":
            hi = thi(t)
            for n in [x for x in (3, 7, 30, 50, 100, 1000, 30000) if 2 * x <= hi][:4 if tier == "quick" else 7]:
                top = sorted({0, 1 % n, n // 2, n - 2, n - 1})
                shifts = sorted({n, n + 1, 2 * n, 2 * n + 1, hi - n, hi - n + 1, hi - 1, hi, (hi // n) * n, hi - (n - 1)})
                shifts = [sh for sh in shifts if 0 < sh <= hi]
                for sh in (shifts if tier != "quick" else rng.sample(shifts, min(5, len(shifts)))):
                    cases.append(dict(kind="roll", t=t, shape=[n], coords=[[c] for c in top], axis=0, shift=sh))
                m = rng.choice([3, 5])
                cs2 = sorted([r, c] for r in sorted({0, m - 1}) for c in top)
                for sh in rng.sample(shifts, min(3, len(shifts))):
                    cases.append(dict(kind="rollt", t=t, shape=[m, n], coords=cs2, axes=[0, 1],
                                      shifts=[rng.choice([1, m, m + 1, 2 * m]), sh]))
                    cases.append(dict(kind="roll", t=t, shape=[m, n], coords=cs2, axis=1, shift=sh))
        # ---- reshape: growing an extent past the limit
        for _ in range(3 * reps):
            a, b = rng.choice([2, 3, 4, 10]), rng.choice(exts)
            if a * b < 2**40:
                cs = sorted([rng.randrange(a), c] for c in pick_coords(rng, b, 4))
                cases.append(dict(kind="reshape", t=t, shape=[a, b], coords=cs, new=[a * b]))
                cases.append(dict(kind="reshape", t=t, shape=[a, b], coords=cs, new=[b, a]))
        # ---- reductions (kernel level): many stored elements, group offsets beyond the type
        # (element counts beyond the 16-bit limits are exercised by the diff stream: Coq literals stay small)
        for nnz_per, groups in [(3, 4), (100, 3), (128, 2), (200, 3)] + ([(300, 4), (257, 2)] if tier != "quick" else []):
            if groups - 1 <= thi(t):
                g = [i for i in range(groups) for _ in range(nnz_per)]
                cases.append(dict(kind="reduce", t=t, groups=g, data=[(i * 7) % 11 + 1 for i in range(len(g))]))
        # ---- triu / tril
        for _ in range(5 * reps):
            n = rng.choice([x for x in exts if x <= 70000])
            cs = sorted({(r, c) for r in pick_coords(rng, n, 3) for c in pick_coords(rng, n, 3)})
            cs = [list(x) for x in cs]
            for kk in {0, rng.choice([1, -1, 2, -3]), rng.choice([100, 127, 128, 200, 255, 256, -128, -129, n, -n, thi(t) - n + 1,
                                                                thi(t) - n + 2])}:
                cases.append(dict(kind="tri", t=t, shape=[n, n], coords=cs, k=kk, lower=rng.random() < 0.5))
        # ---- kron / pad / stack
        for _ in range(3 * reps):
            na, nb = rng.choice(exts), rng.choice(exts)
            if na * nb < 2**40:
                ac, bc = pick_coords(rng, na, 3), pick_coords(rng, nb, 3)
                cases.append(dict(kind="kron", t=t, ashape=[na], acoords=[[c] for c in ac], adata=[2, 3, 5][:len(ac)],
                                  bshape=[nb], bcoords=[[c] for c in bc], bdata=[7, 11, 13][:len(bc)]))
            n = rng.choice(exts)
            cs = pick_coords(rng, n, 4)
            cases.append(dict(kind="pad", t=t, shape=[n], coords=[[c] for c in cs], pw=rng.choice([1, 100, 200, 40000])))
            cases.append(dict(kind="stack", t=t, shape=[n], coords=[[c] for c in cs], axis=rng.choice([0, 1])))
        # ---- constructor idx_dtype / GCXS conversion
        for ti in TYPES:
            n = rng.choice(extents_for(t, rng, tier))
            cs = pick_coords(rng, n, 4)
            cases.append(dict(kind="ctor", t=t, ti=ti, shape=[n], coords=[[c] for c in cs]))
        for ti in [None] + rng.sample(TYPES, 3):
            rows, cols = rng.choice([2, 3, 100, 128, 200]), rng.choice([x for x in exts if x <= 70000])
            if rows <= thi(t):
                nn = rng.choice([3, 6] + ([130, 260] if rows * cols >= 260 else []))
                lin = sorted(rng.sample(range(rows * cols), min(nn, rows * cols)))
                cases.append(dict(kind="fromcoo", t=t, ti=ti, shape=[rows, cols], coords=[[l // cols, l % cols] for l in lin]))
        # ---- GCXS from a 3-d COO: the product of the uncompressed extents exceeds the dtype while every extent fits
        for _ in range(2 * reps):
            a, b, c = rng.choice([2, 3]), rng.choice([x for x in (10, 16, 20, 100, 200) if x <= thi(t)]), rng.choice([3, 16, 20])
            if c > thi(t):
                continue
            cells = [[i, j, k] for i in range(a) for j in pick_coords(rng, b, 3) for k in pick_coords(rng, c, 3)]
            cs = sorted(rng.sample(cells, min(len(cells), 8)))
            cases.append(dict(kind="fromcoo", t=t, ti=None, shape=[a, b, c], coords=cs))
        # ---- GCXS joins whose stored-element counts sum to exactly capacity - 1, capacity, capacity + 1
        if tbits(t)[0] == 8:
            for total in (thi(t) - 1, thi(t), thi(t) + 1, thi(t) + 2):
                cols = 4
                parts = [total // 2, total - total // 2]
                ops = []
                for nn in parts:
                    rows = -(-nn // cols) + 1
                    lin = sorted(rng.sample(range(rows * cols), nn))
                    ops.append(([rows, cols], [[l // cols, l % cols] for l in lin]))
                cases.append(dict(kind="gjoin", t=t, ops=ops, how="concat"))
        # ---- GCXS joins and the row numbers of the result
        for _ in range(3 * reps):
            rows = rng.choice([x for x in exts if x <= 300])
            cols = rng.choice([2, 3])
            ops = []
            for _i in range(rng.choice([2, 3])):
                nn = min(rows * cols, rng.choice([1, 3, 100, 130]))
                lin = sorted(rng.sample(range(rows * cols), nn))
                ops.append(([rows, cols], [[l // cols, l % cols] for l in lin]))
            cases.append(dict(kind="gjoin", t=t, ops=ops, how="concat"))
        # ---- diagonal: offsets of both signs, every axis pair (2-d and 3-d), stored elements on / next to the diagonals
        for _ in range(5 * reps):
            n = rng.choice([x for x in exts if x <= 70000 and x >= 2])
            offs = sorted({0, 1, -1, rng.choice([2, -2, 3, -3]), rng.choice([n - 1, -(n - 1), 127, -128, 255, -255, n // 2, -(n // 2)])})
            for off in offs:
                if abs(off) >= n:
                    continue
                rows = [r for r in pick_coords(rng, n, 5) if 0 <= r + off < n]
                pts = {(r, r + off) for r in rows} | {(r, min(n - 1, max(0, r + off + rng.choice([-1, 1])))) for r in rows[:2]}
                if rng.random() < 0.5:
                    a1, a2 = 0, 1
                    cs = sorted([p[0], p[1]] for p in pts)
                    shape = [n, n]
                else:
                    a1, a2 = rng.choice([(0, 2), (2, 0), (1, 2), (2, 1), (1, 0)])
                    shape, cs = [2, 2, 2], []
                    shape[a1] = shape[a2] = n
                    other = ({0, 1, 2} - {a1, a2}).pop()
                    for p in pts:
                        c = [0, 0, 0]
                        c[a1], c[a2], c[other] = p[0], p[1], rng.randrange(2)
                        cs.append(c)
                    cs.sort()
                cases.append(dict(kind="diag", t=t, shape=shape, coords=cs, offset=off, axis1=a1, axis2=a2))
        # ---- constructor canonicalisation: coordinates given out of order / repeated (1-d and 2-d)
        for _ in range(6 * reps):
            n = rng.choice(exts)
            pts = pick_coords(rng, n, 5)
            cs = [rng.choice(pts) for _ in range(rng.choice([2, 4, 7]))]
            rng.shuffle(cs)
            if rng.random() < 0.5:
                cs = sorted(cs, reverse=True)
            cases.append(dict(kind="canon", t=t, shape=[n], coords=[[c] for c in cs]))
        for _ in range(2 * reps):
            n, m = rng.choice(exts), rng.choice([2, 3])
            pts = [[r, c] for r in range(m) for c in pick_coords(rng, n, 3)]
            cs = [rng.choice(pts) for _ in range(6)]
            cases.append(dict(kind="canon", t=t, shape=[m, n], coords=cs))
        # ---- multi-step: members whose total nnz crosses the limit of t while every extent stays small, then
        #      change_compressed_axes (convert._transpose)
        lim = min(thi(t), 255)
        for _ in range(3 * reps):
            cols = rng.choice([3, 6, 8])
            target = rng.choice([lim - 1, lim, lim + 1, lim + 20] if tbits(t)[0] == 8 else [20, 40])
            nmem = rng.choice([2, 3])
            ops, left = [], target
            for i in range(nmem):
                nn = left // (nmem - i)
                left -= nn
                rows = max(2, -(-nn // cols) + rng.choice([0, 1, 3]))
                lin = sorted(rng.sample(range(rows * cols), min(nn, rows * cols)))
                ops.append(([rows, cols], [[l // cols, l % cols] for l in lin]))
            cases.append(dict(kind="gtrans", t=t, ops=ops))
        for nrows in [n for n in [3, 127, 128, 129, 255, 256, 257, 300] if n <= thi(t)]:   # kernel level, in its domain
            ptr = [0] * nrows + [1]
            ptr[nrows // 2:] = [1] * (len(ptr) - nrows // 2)
            ptr[-1] = 2
            cases.append(dict(kind="uncompress", t=t, indptr=ptr))
    return cases


def gen_prim_cases(tier, rng):
    cases = []
    for t in TYPES:
        lo, hi = tlo(t), thi(t)
        arr = sorted({lo, lo + 1, -1 if lo < 0 else 0, 0, 1, 7, hi // 2, hi - 1, hi})
        ks = sorted({0, 1, -1, 2, -2, 3, -3, 7, 100, 127, 128, -128, -129, 255, 256, 300, -300, hi, hi + 1, lo, lo - 1,
                     65535, 65536, 2**31, 2**63 - 1, 2**63, -2**63, 2**64 - 1, 2**64})
        for op in range(5):
            for k in ks:
                if op >= 3 and k == 0:
                    continue
                cases.append(dict(kind="arrpy", op=op, t=t, a=arr, k=k))
                if op < 3:
                    cases.append(dict(kind="pyarr", op=op, t=t, a=arr, k=k))
            for t2 in TYPES:
                lo2, hi2 = tlo(t2), thi(t2)
                small = [0, 1, 5, 100]
                b = [1, 2, 3, 7]
                cases.append(dict(kind="arrarr", op=op, t=t, t2=t2, a=small, b=b))
                mixed64 = {t, t2} & {"uint64"} and (tbits(t)[1] != tbits(t2)[1])      # promotes to float64: inexact beyond 2^53
                if op < 3 and not mixed64:
                    cases.append(dict(kind="arrarr", op=op, t=t, t2=t2, a=[lo, hi, hi, lo], b=[lo2, hi2, 1, 1][:4]))
            for kt in ("int64", "int32", "uint8"):
                for kv in (5, -5, 100, 127):
                    if tlo(kt) <= kv <= thi(kt) and not (op >= 3 and kv == 0):
                        cases.append(dict(kind="arrnp", op=op, t=t, kt=kt, a=[0, 1, 100], k=kv))
                        cases.append(dict(kind="iarrnp", op=op, t=t, kt=kt, a=[0, 1, 100], k=kv))
        cases.append(dict(kind="astype", t=t, a=[0, 1, -1, 127, 128, 255, 256, -128, -129, 32767, 32768, 65535, 65536, 2**31,
                                                2**32, 2**63 - 1, -2**63, 300, -300]))
        for z in sorted({lo - 1, lo, -1, 0, 1, hi, hi + 1, 127, 128, 255, 256, 32767, 32768, 65535, 65536}):
            if abs(z) < 2**64:
                cases.append(dict(kind="canstore", t=t, z=z, np64=True))
    for z in [0, 1, 127, 128, 255, 256, 65535, 65536, 2**31, 2**32 - 1, 2**32, 2**63, 2**64 - 1, -1, -128, -129, -32768,
              -32769, -2**31, -2**31 - 1, -2**63]:
        cases.append(dict(kind="minscalar", z=z))
    for z in [0, 1, -1, 255, -2**31, 2**31, 2**32, 2**63 - 1, 2**63, 2**63 + 1, 2**64 - 4, 2**64 - 1, -2**63]:
        cases.append(dict(kind="fulltype", z=z))
    # Numba's scalar promotion (MachInt.nb_promote): element <op> int64 scalar, element <op> element
    for t in TYPES:
        for op in range(3):
            for kv in (-7, 3):
                cases.append(dict(kind="nbarrsc", op=op, t=t, kt="int64", a=[0, 1, 5, 100], k=kv))
            for t2 in TYPES:
                if t2 == t or (t, t2) in (("uint8", "int8"), ("int16", "uint32"), ("uint64", "int8"), ("uint32", "int64")):
                    cases.append(dict(kind="nbarrarr", op=op, t=t, t2=t2, a=[5, 3, 0, 100], b=[3, 5, 1, 100]))
    return cases


# calls whose cost is dominated by compiling Numba kernels for the index dtype: in the quick tier they run for the
# narrowest signed / unsigned types, one 16-bit type and uint64 only (all eight types in the thorough tier)
JIT_HEAVY = {"bc_where", "dot_T", "matmul_self", "tensordot_11", "einsum_ji_i", "einsum_ji_i_fancy", "einsum_ji_i_item", "flip_fancy", "ms_join_dense", "ms_join_ca1_dense", "ms_join_ca1_sum", "ms_join_cca2", "ms_join_cca2_tocoo", "ms_join_T",
             "ms_join_T_dense", "ms_join_reshape_sum", "ms_join_flat", "ms_stack_cca", "ms_join_sum0", "ms_join_max12",
             "gcxs_fancy_rep", "sort", "dot", "gcxs_dot", "getitem_fancy", "getitem_last", "getitem_int", "gcxs_getitem", "gcxs_getitem_neg",
             "gcxs_stack", "gcxs_reshape", "gcxs_concat", "gcxs_concat_dense", "to_gcxs_back", "gcxs_T", "gcxs_sum0",
             "sum_all", "min_last", "mul_self", "add_bcast"}
QUICK_HEAVY_TYPES = {"int8", "uint8", "uint16", "uint64"}


# calls whose result needs no larger extent and no more stored elements than the operand has: the operand's own
# index type can hold the result, so even a ValueError naming the dtype is a violation there
NO_REJECT = ("npz_", "transpose", "sum_", "max_", "min_", "any_", "getitem_", "flip", "triu", "tril", "diagonal_",
             "sort", "nonzero", "us_", "mul_self")


def gen_diff_items(tier, rng):
    items = []
    allnames = list(_diff_calls().keys())
    names = [n for n in allnames if not n.startswith(("ms_", "us_", "gx_", "bc_", "up_"))]
    # an axis grown by broadcasting to capacity-1 .. capacity+2 positions of the operand's index type
    for t in TYPES:
        cap = thi(t) + 1
        ns = [cap - 1, cap, cap + 1, cap + 2] if tbits(t)[0] <= 16 else [300]
        if tier == "quick" and tbits(t)[0] == 16:
            ns = [cap, cap + 1]
        for n in ns:
            for name in allnames:
                if name.startswith("bc_"):
                    items.append((name, [1, 5], [n], t, "bcast"))
    # argmax / argmin with stored fill-equal values, fills 0 / 1 / -1, every index type
    for t in TYPES:
        for k, shape in enumerate(([4, 6], [6, 3, 4]) if tier == "quick" else ([4, 6], [6, 3, 4], [9], [3, 3, 3])):
            for fill in (0, 1, -1):
                for name in allnames:
                    if name.startswith("up_"):
                        items.append((name, shape, [fill, 10 * k + fill + 1], t, "unpruned"))
    # GCXS with an explicit narrow index dtype: small compressed shape, re-compression grows the row count
    for t in TYPES:
        for shape in ([20, 20, 3], [17, 16, 2], [3, 20, 20]) if tbits(t)[0] == 8 else ([200, 200, 3],) if tbits(t)[0] == 16 else ([20, 20, 3],):
            if tier == "quick" and shape != [20, 20, 3] and shape != [200, 200, 3]:
                continue
            for name in allnames:
                if name.startswith("gx_"):
                    items.append((name, shape, [], t, "rand3d"))
    # structural extraction for every index type, and arrays whose extent is just beyond what the coordinate
    # dtype could hold as a value (coordinates up to the dtype's maximum): save / load and basic operations
    for t in TYPES:
        n = min(thi(t), 200)
        cs = sorted({(r, c) for r in pick_coords(rng, n, 4) for c in pick_coords(rng, n, 4)} |
                    {(r, r - 1) for r in pick_coords(rng, n, 4) if r >= 1} | {(r, r - 3) for r in pick_coords(rng, n, 4) if r >= 3})
        cs = [list(c) for c in cs]
        for name in ("diagonal", "diagonal_1", "diagonal_m1", "diagonal_m3_ax", "diagonalize", "triu_m", "tril_m", "npz_roundtrip",
                     "gcxs_single"):
            items.append((name, [n, n], cs, t, "coords"))
        if tbits(t)[0] <= 16:
            n = thi(t) + 1
            cs = [[c] for c in sorted({0, 1, n // 2, n - 2, n - 1})]
            for name in ("npz_roundtrip", "sum_0", "getitem_neg", "flip", "reshape_2", "concat_0", "to_gcxs_back", "roll_1"):
                items.append((name, [n], cs, t, "coords"))
            cs2 = [[0, 0], [1, n - 1], [2, n // 2], [2, n - 1]]
            for name in ("npz_roundtrip", "sum_0", "sum_last", "transpose", "flip", "to_gcxs_back", "diagonal_m1"):
                items.append((name, [3, n], cs2, t, "coords"))
    # GCXS fancy indexing that repeats rows, narrow signed index types (finding gcxs_fancy_getitem_indptr_dtype)
    for t in ("int8", "int16"):
        n = 127 if t == "int8" else 32767
        items.append(("gcxs_fancy_rep", [n, 6], [[0, 0], [0, 3], [0, 5], [n // 2, 0], [n - 1, 5]], t, "coords"))
    # products of COO operands holding more stored elements than the narrow dtype can count (every axis fits)
    for t in ("int8", "uint8", "int16", "uint16"):
        n = 100 if tbits(t)[0] == 8 else 30000
        for name in ("dot", "dot_T", "matmul_self", "tensordot_11"):
            items.append((name, [3, n], [], t, "full"))
    # user coordinates out of order / repeated, every index type (cheap: no dtype-specific kernels beyond getitem)
    usnames = [n for n in allnames if n.startswith("us_")]
    for t in TYPES:
        hi = thi(t)
        for n in [x for x in (7, 100, 127, 200, 255, 300, 40000, 70000) if x <= hi][:5 if tier == "quick" else 8]:
            for _rep in range(1 if tier == "quick" else 2):
                pts = pick_coords(rng, n, 6)
                cs = [rng.choice(pts) for _ in range(rng.choice([3, 6, 9]))]
                if rng.random() < 0.4:
                    cs = sorted(set(cs), reverse=True)
                for name in usnames:
                    items.append((name, [n], [[c] for c in cs], t, "unsorted"))
        m, n = 3, min(hi, 200)
        cs2 = [[rng.randrange(m), rng.choice(pick_coords(rng, n, 4))] for _ in range(7)]
        for name in usnames:
            items.append((name, [m, n], cs2, t, "unsorted"))
    # multi-step stream: member shape and density per index width (3 members are joined):
    #   8-bit  (8,7,6) = 336 cells: int8 30% (~100 <= 127, 3x > 127), uint8 50% (~168 <= 255, 3x > 255)
    #   16-bit (8,70,60) = 33600 cells at 90% (~30240 <= 32767, 3x > 65535)
    for t in TYPES:
        if tier == "quick" and t not in QUICK_HEAVY_TYPES and t != "int16":
            continue
        bits = tbits(t)[0]
        shape, dens = ([8, 7, 6], 30 if t == "int8" else 50) if bits == 8 else ([8, 70, 60], 90) if bits == 16 \
            else ([8, 7, 6], 50)
        for name in allnames:
            if name.startswith("ms_"):
                items.append((name, shape, [dens], t, "member3d"))
    for t in TYPES:
        shapes = []
        for n in ([100, 127] if tbits(t) == (8, True) else [127, 128, 200, 255] if tbits(t)[0] == 8 else
                  [127, 128, 255, 256, 300]):
            shapes.append(("coords", [n, 6]))
            shapes.append(("coords", [5, n]))
        shapes.append(("coords", [min(thi(t), 100)]))
        shapes.append(("random", [min(thi(t), 120), 7]))
        shapes.append(("full", [3, min(thi(t), 100)]))       # nnz 300 > 255
        if tbits(t)[0] >= 16:
            shapes.append(("coords", [32767, 3]))
            shapes.append(("coords", [3, 32768 if thi(t) >= 32768 else 32767]))
            shapes.append(("coords", [65535 if thi(t) >= 65535 else 32767, 2]))
            if tier != "quick":
                shapes.append(("full", [3, 22000]))           # nnz 66000 > 65535
                shapes.append(("coords", [65536 if thi(t) >= 65536 else 32767, 2]))
        per_shape = 14 if tier == "quick" else len(names)
        for how, shape in shapes:
            coords = []
            if how == "coords":
                axes = [pick_coords(rng, n, 4) for n in shape]
                import itertools
                allc = list(itertools.product(*axes))
                coords = sorted(rng.sample(allc, min(len(allc), 9)))
                coords = [list(c) for c in coords]
            chosen = names if per_shape >= len(names) else rng.sample(names, per_shape)
            for name in chosen:
                if len(shape) == 1 and name in ("triu_0", "triu_p", "triu_m", "tril_p100", "tril_m", "diagonal", "diagonal_1",
                                                "transpose", "gcxs_T"):
                    continue
                if how == "full" and name in ("dot", "gcxs_dot", "kron_self", "concat_last") and shape[-1] > 5000:
                    continue
                if name in ("dot", "gcxs_dot") and max(shape) > 5000:
                    continue
                if tier == "quick" and name in JIT_HEAVY and t not in QUICK_HEAVY_TYPES:
                    continue
                items.append((name, shape, coords, t, how))
    return items


# ---------------------------------------------------------------------------------------------- literals
def op_literal(case, res):
    """(Coq literal of type op_case) or None when the case cannot be expressed"""
    k, t = case["kind"], case["t"]
    zl = vlist

    def axis_row(coords, ax):
        return [c[ax] for c in coords]
    if k == "concat":
        xs = [vpair(vZ(shape[case["axis"]]), zl(axis_row(coords, case["axis"]))) for shape, coords in case["ops"]]
        oc = f"(CConcat {vZ(case['mo'])} [{'; '.join(xs)}])"
    elif k == "flip":
        oc = f"(CFlip {vZ(case['shape'][case['axis']])} {zl(axis_row(case['coords'], case['axis']))})"
    elif k == "roll":
        oc = f"(CRoll {vZ(case['shape'][case['axis']])} {vZ(case['shift'])} {zl(axis_row(case['coords'], case['axis']))})"
    elif k == "rollt":
        rows = [vpair(vZ(case["shape"][a]), vZ(s), zl(axis_row(case["coords"], a)))
                for a, s in zip(case["axes"], case["shifts"], strict=True)]
        oc = f"(CRollT [{'; '.join(rows)}])"
    elif k == "getitem":
        n = case["shape"][case["axis"]]
        if "norm" not in res:
            return None
        nm = res["norm"]
        oc = (f"(CGetitem {vZ(n)} {vZ(nm[0])} {vZ(nm[1])} {vZ(nm[2])} "
              f"{zl(axis_row(case['coords'], case['axis']))})")
    elif k == "reshape":
        lin = case["lin"]
        oc = f"(CReshape {zl(lin)} {zl(case['new'])})"
    elif k == "reduce":
        oc = f"(CReduce {zl(case['groups'])} {zl(case['data'])})"
    elif k == "tri":
        oc = (f"(CTri {'true' if case['lower'] else 'false'} {vZ(case['shape'][0])} {zl(axis_row(case['coords'], 0))} "
              f"{zl(axis_row(case['coords'], 1))} {vZ(case['k'])})")
    elif k == "kron":
        rows = []
        for ax in range(len(case["ashape"])):
            a = [c[ax] for c in case["acoords"] for _ in case["bcoords"]]
            b = [c[ax] for _ in case["acoords"] for c in case["bcoords"]]
            rows.append(vpair(zl(a), vZ(case["bshape"][ax]), zl(b)))
        oc = f"(CKron [{'; '.join(rows)}])"
    elif k == "pad":
        rows = [vpair(zl(axis_row(case["coords"], ax)), vZ(case["pw"])) for ax in range(len(case["shape"]))]
        oc = f"(CPad [{'; '.join(rows)}])"
    elif k == "stack":
        oc = f"(CStack {'true' if case['axis'] == 0 else 'false'})"
    elif k == "ctor":
        oc = f"(CCtor {vity(case['ti'])} {vZ(max(case['shape']))} {zl(axis_row(case['coords'], 0))})"
    elif k == "fromcoo":
        sh = case["shape"]
        rows, cols = sh[0], 1
        for e in sh[1:]:
            cols *= e
        lin = []
        for c in case["coords"]:
            v = 0
            for e, ci in zip(sh[1:], c[1:], strict=True):
                v = v * e + ci
            lin.append(c[0] * cols + v)
        idx = "None" if case["ti"] is None else f"(Some {vity(case['ti'])})"
        oc = f"(CFromCoo {idx} {vZ(rows)} {vZ(cols)} {zl(lin)})"
    elif k == "gjoin":
        if "ptrs" not in res:
            return None
        ptrs = [vpair(zl(p), vZ(n)) for p, n in res["ptrs"]]
        oc = f"(CGcxsJoin [{'; '.join(ptrs)}])"
    elif k == "uncompress":
        oc = f"(CUncompress {zl(case['indptr'])})"
    elif k == "diag":
        oc = (f"(CDiag {zl(axis_row(case['coords'], case['axis1']))} {zl(axis_row(case['coords'], case['axis2']))} "
              f"{vZ(case['offset'])})")
    elif k == "canon":
        sh = case["shape"]
        lin = [c[0] if len(sh) == 1 else c[0] * sh[1] + c[1] for c in case["coords"]]
        ps = [vpair(vZ(l), vZ(i + 1)) for i, l in enumerate(lin)]
        oc = f"(CCanon {len(sh)} [{'; '.join(ps)}])"
    elif k == "gtrans":
        if "xdt" not in res:
            return None
        cols = case["ops"][0][0][1]
        pos, base = [], 0
        for shape, coords in case["ops"]:
            pos += [(c[1], base + c[0]) for c in coords]
            base += shape[0]
        pos.sort()
        oc = f"(CTranspose {vZ(cols)} {vZ(base)} {zl([p[0] for p in pos])} {zl([p[1] for p in pos])})"
        return vpair(vity(res["xdt"]), oc, iout_literal(res))
    else:
        raise ValueError(k)
    return vpair(vity(t), oc, iout_literal(res))


def iout_literal(res):
    if res is None or res.get("hang"):
        return "IHang"
    if "crash" in res:
        return "(IExc OtherError)"
    if "exc" in res:
        e = res["exc"]
        return f"(IExc {e if e in vlib.EXC_ENUM else 'OtherError'})"
    if res.get("garbled"):
        return "(IExc OtherError)"
    if "mask" in res:
        return f"(IMask {vbools(res['mask'])})"
    if "pairs" in res:
        return "(IPairs [%s])" % "; ".join(vpair(vZ(a), vZ(b)) for a, b in res["pairs"])
    return f"(IRows {vdty(res.get('dt'))} {vlist(res['rows'], vlist)})"


def prim_literal(case, res):
    k = case["kind"]
    t = vity(case["t"]) if "t" in case else None
    if k == "arrpy":
        pc = f"(PArrPy {case['op']} {t} {vlist(case['a'])} {vZ(case['k'])})"
    elif k == "pyarr":
        pc = f"(PPyArr {case['op']} {t} {vZ(case['k'])} {vlist(case['a'])})"
    elif k == "arrarr":
        pc = f"(PArrArr {case['op']} {t} {vity(case['t2'])} {vlist(case['a'])} {vlist(case['b'])})"
    elif k == "arrnp":
        pc = f"(PArrNp {case['op']} {t} {vity(case['kt'])} {vlist(case['a'])} {vZ(case['k'])})"
    elif k == "iarrnp":
        pc = f"(PIArrNp {case['op']} {t} {vity(case['kt'])} {vlist(case['a'])} {vZ(case['k'])})"
    elif k == "astype":
        pc = f"(PAstype {t} {vlist(case['a'])})"
    elif k == "canstore":
        pc = f"(PCanStore {t} {vZ(case['z'])})"
    elif k == "fulltype":
        pc = f"(PFullType {vZ(case['z'])})"
    elif k == "nbarrsc":
        pc = f"(PNbArrSc {case['op']} {t} {vity(case['kt'])} {vlist(case['a'])} {vZ(case['k'])})"
    elif k == "nbarrarr":
        pc = f"(PNbArrArr {case['op']} {t} {vity(case['t2'])} {vlist(case['a'])} {vlist(case['b'])})"
    else:
        pc = f"(PMinScalar {vZ(case['z'])})"
    return vpair(pc, iout_literal(res))


# ---------------------------------------------------------------------------------------------- replay text
def replay_op(case):
    c = {k: v for k, v in case.items() if k not in ("lin",)}
    return ("import sys; sys.path.insert(0, '/verif/tools'); from props import c15; "
            f"print(c15.impl_op({c!r})); print(c15.impl_op({dict(c, t='int64')!r}))")


def prepare_op_case(case):
    """fill in the parts of the model's input that come from Python-level normalisation"""
    if case["kind"] == "reshape":
        a, b = case["shape"]
        case["lin"] = [c[0] * b + c[1] for c in case["coords"]]
    return case


# ---------------------------------------------------------------------------------------------- campaign
def campaign(build, tier, seed, report, budget=1):
    import time
    rng = random.Random(seed)
    viol = []
    cov = report["coverage"]
    t0 = time.time()
    timing = {}

    def lap(name):
        nonlocal t0
        timing[name] = round(time.time() - t0, 1)
        t0 = time.time()
    imports = "From Verif Require Import Py MachInt C15Judge."

    # ---- stream prim
    pcases = gen_prim_cases(tier, rng)
    pres = vlib.run_impl("props.c15", "impl_prim", pcases, workers=6)
    plits, pidx = [], []
    inexact = 0
    for i, (c, r) in enumerate(zip(pcases, pres, strict=True)):
        if r.get("inexact"):
            inexact += 1
            r = dict(r, rows=[[]])
            if c["kind"] in ("arrarr", "arrnp") and c["op"] < 3:
                continue
        plits.append(prim_literal(c, r))
        pidx.append(i)
    lap("prim_impl")
    bad = build.judge("c15_prim", imports, "primcase * iout", "judge_prim", plits)
    lap("prim_coq")
    for j, code in bad:
        c, r = pcases[pidx[j]], pres[pidx[j]]
        viol.append({"property": "C15", "op": "numpy_rule:" + c["kind"], "kind": "representation", "clause": None,
                     "case": c, "impl": r, "code": code,
                     "replay_py": "import sys; sys.path.insert(0, '/verif/tools'); from props import c15; "
                                  f"print(c15.impl_prim({c!r}))"})

    # ---- stream op
    ocases = [prepare_op_case(c) for c in gen_op_cases(tier, rng)]
    order = sorted(range(len(ocases)), key=lambda i: (TYPES.index(ocases[i]["t"]), i))
    groups = {}
    for i in order:
        groups.setdefault(ocases[i]["t"], []).append(i)
    obatches = []
    for t in TYPES:
        idxs = groups.get(t, [])
        h = (len(idxs) + 1) // 2
        for part in (idxs[:h], idxs[h:]):       # two halves per dtype, adjacent in the queue
            if part:
                obatches.append(part)
    bres = vlib.run_impl("props.c15", "impl_op_batch", [{"items": [ocases[i] for i in b]} for b in obatches],
                         workers=6, per_case_timeout=300.0)
    ores = [None] * len(ocases)
    for b, rs in zip(obatches, bres, strict=True):
        for k, i in enumerate(b):
            ores[i] = rs[k] if isinstance(rs, list) else dict(rs)
    olits, oidx = [], []
    for i, (c, r) in enumerate(zip(ocases, ores, strict=True)):
        lit = op_literal(c, r)
        if lit is not None:
            olits.append(lit)
            oidx.append(i)
    lap("op_impl")
    tagged = build.judge("c15_op", imports, "op_case", "judge_op_tagged", olits, chunk=100)
    lap("op_coq")
    bad = [(j, v % 1000) for j, v in tagged if v % 1000]
    for j, code in bad:
        c, r = ocases[oidx[j]], ores[oidx[j]]
        kind = "representation" if code in (1, 9) else "value"
        clause = CLAUSES.get(code - 10) or CLAUSES.get(code - 30)
        viol.append({"property": "C15", "op": c["kind"], "kind": kind, "clause": clause, "code": code,
                     "idx_dtype": c["t"], "case": {k: v for k, v in c.items() if k not in ("lin",)}, "impl": r,
                     "replay_py": replay_op(c)})
    # branch tags of the op stream (computed in Coq together with the verdicts)
    tag_hist = {}
    names = {1: "concat", 2: "flip", 3: "roll", 4: "roll_tuple", 5: "getitem", 6: "reshape", 7: "reduce", 8: "triu_tril",
             9: "kron", 10: "pad", 11: "stack", 12: "ctor_idx_dtype", 13: "gcxs_from_coo", 14: "gcxs_join", 15: "uncompress",
             16: "gcxs_join_then_transpose", 17: "ctor_canonicalisation", 18: "diagonal"}
    sub = {0: "equal", 1: "guard_ValueError", 2: "outside_domain"}
    assert len(tagged) == len(olits), (len(tagged), len(olits))
    for _j, v in tagged:
        v //= 1000
        key = f"{names.get(v // 100, v // 100)}/{sub.get(v % 100, v % 100)}"
        tag_hist[key] = tag_hist.get(key, 0) + 1

    # ---- stream diff (differential only)
    items = gen_diff_items(tier, rng)
    batches = []
    for heavy in (True, False):                      # one dtype per batch: kernels compile once per dtype
        for t in TYPES:
            its = [it for it in items if it[3] == t and (it[0] in JIT_HEAVY) == heavy]
            its.sort(key=lambda it: it[0])
            nsplit = 1 if tier == "quick" else 3
            for k in range(nsplit):
                part = its[k * len(its) // nsplit:(k + 1) * len(its) // nsplit]   # the same calls stay together
                if part:
                    batches.append({"items": part})
    dres = vlib.run_impl("props.c15", "impl_diff", batches, workers=6, per_case_timeout=400.0)
    lap("diff_impl")
    d_total = d_same = d_valueerr = d_bothexc = 0
    for b, rs in zip(batches, dres, strict=True):
        if not isinstance(rs, list):
            viol.append({"property": "C15", "op": "diff_batch", "kind": "value", "clause": None, "case": {"n": len(b["items"])},
                         "impl": rs, "replay_py": "# a whole differential batch hung or crashed"})
            continue
        for (name, shape, coords, t, how), r in zip(b["items"], rs, strict=True):
            d_total += 1
            ref, got = r["ref"], r["got"]
            if _norm_plain(ref) == _norm_plain(got):
                d_same += 1
                continue
            if got.get("k") == "exc" and got["exc"] == "ValueError" and not name.startswith(NO_REJECT):
                d_valueerr += 1
                continue
            if ref.get("k") == "exc" and got.get("k") == "exc" and ref.get("cls") == got.get("cls"):
                d_bothexc += 1
                continue
            viol.append({"property": "C15", "op": "api:" + name, "kind": "value", "clause": diff_clause(name, t, got),
                         "idx_dtype": t, "case": {"call": name, "shape": shape, "coords": coords, "how": how, "t": t},
                         "impl": {"intp": _short(ref), "typed": _short(got)},
                         "replay_py": "import sys; sys.path.insert(0, '/verif/tools'); from props import c15; "
                                      f"print(c15.impl_diff({{'items': [({name!r}, {shape!r}, {coords!r}, {t!r}, {how!r})]}}))"})

    # ---- stream idxarr: fancy indexing with index arrays of every integer dtype, against NumPy
    icases = gen_idxarr_cases(tier, rng)
    ib = [icases[k::6] for k in range(6)]
    ibres = vlib.run_impl("props.c15", "impl_idxarr_batch", [{"items": b} for b in ib], workers=6, per_case_timeout=300.0)
    ires = [None] * len(icases)
    for k, rs in enumerate(ibres):
        for j, r in enumerate(rs if isinstance(rs, list) else [dict(rs)] * len(ib[k])):
            ires[k + 6 * j] = r
    i_bad = 0
    for c, r in zip(icases, ires, strict=True):
        if r.get("got") == r.get("want") and "want" in r:
            continue
        i_bad += 1
        clause = None     # (index_array_dtype_posify_overflow was repaired by 5e6e40f: a recurrence is a plain violation)
        viol.append({"property": "C15", "op": "fancy_index_array:" + c["fmt"], "kind": "value", "clause": clause,
                     "case": c, "impl": r,
                     "replay_py": "import sys; sys.path.insert(0, '/verif/tools'); from props import c15; "
                                  f"print(c15.impl_idxarr({c!r}))"})
    lap("idxarr")
    # ---- stream ctoridx: constructions with an explicit idx_dtype, both the accepting and the rejecting side
    ccases = gen_ctoridx_cases(tier, rng)
    cb = [ccases[k::6] for k in range(6)]
    cbres = vlib.run_impl("props.c15", "impl_ctoridx_batch", [{"items": b} for b in cb], workers=6, per_case_timeout=300.0)
    c_bad = 0
    for k, rs in enumerate(cbres):
        for j, c in enumerate(cb[k]):
            r = rs[j] if isinstance(rs, list) else dict(rs)
            why = ctoridx_expect(c, r) if ("ok" in r or "exc" in r) else "hang/crash"
            if why is None:
                continue
            c_bad += 1
            viol.append({"property": "C15", "op": "ctor_idx_dtype:" + c["kind"], "kind": "value", "clause": None,
                         "idx_dtype": c["t"], "case": c, "impl": r, "why": why,
                         "replay_py": "import sys; sys.path.insert(0, '/verif/tools'); from props import c15; "
                                      f"print(c15.impl_ctoridx({c!r}))"})
    cov.setdefault("streams_extra", {})["ctoridx"] = len(ccases)
    cov["streams_extra"]["ctoridx_bad"] = c_bad
    lap("ctoridx")
    # ---- stream emptyidx: library-made arrays without stored elements combined with ordinary arrays, against NumPy
    ecases = gen_emptyidx_cases(tier, rng)
    eb = [ecases[k::6] for k in range(6)]
    ebres = vlib.run_impl("props.c15", "impl_emptyidx_batch", [{"items": b} for b in eb], workers=6, per_case_timeout=300.0)
    e_bad = 0
    for k, rs in enumerate(ebres):
        for j, c in enumerate(eb[k]):
            r = rs[j] if isinstance(rs, list) else dict(rs)
            if r.get("ok"):
                continue
            if r.get("exc") == "ValueError":        # names the index type: allowed outcome
                continue
            e_bad += 1
            clause = "uint64_promotes_to_float" if c["t"] == "uint64" and r.get("cls") in ("TypeError", "IndexError", "TypingError") else None
            viol.append({"property": "C15", "op": "empty_then:" + c["op"], "kind": "value", "clause": clause,
                         "idx_dtype": c["t"], "case": c, "impl": r,
                         "replay_py": "import sys; sys.path.insert(0, '/verif/tools'); from props import c15; "
                                      f"print(c15.impl_emptyidx({c!r}))"})
    cov.setdefault("streams_extra", {})["emptyidx"] = len(ecases)
    cov["streams_extra"]["emptyidx_bad"] = e_bad
    lap("emptyidx")
    report["notes"].append(f"timing (s): {timing}")
    cov["evaluations"] = len(pcases) + len(ocases) + d_total + len(icases) + len(ecases) + len(ccases)
    cov["distinct_nontrivial"] = len({json.dumps(c, sort_keys=True, default=str) for c in ocases}) + \
        len({json.dumps(c, sort_keys=True) for c in pcases}) + len({json.dumps(i) for i in items})
    cov["rule"] = ("prim: NumPy rules on the eight index types with operands at each type's limits; op: every modelled "
                   "operation x eight index types x extents/element counts just below, at and above 127/128, 255/256, "
                   "32767/32768, 65535/65536 that the type can hold, judged in Coq against the model in the type and the "
                   "unbounded reference; diff: API calls on typed vs intp coordinates (differential only)")
    cov["streams"] = {"prim": len(pcases), "prim_float_inexact_skipped": inexact, "op": len(ocases), "op_judged": len(olits),
                      "diff": d_total, "diff_identical": d_same, "diff_allowed_ValueError": d_valueerr,
                      "diff_both_raise_same": d_bothexc, "idxarr": len(icases), "idxarr_differs_from_numpy": i_bad}
    cov["multi_step"] = ("op: join of narrow-index GCXS members (total nnz just below/at/above the 8-bit limits, extents "
                         "small) followed by change_compressed_axes, judged against Model m_transpose; diff: 3 members joined "
                         "(nnz crossing 127/255/32767/65535) then todense / re-compress / transpose / reshape / reductions")
    cov["differential_only"] = ("stream diff: elementwise/broadcast, dot, sort, diagonal, transpose, broadcast_to, "
                                "GCXS getitem/sum/T/reshape/dot and sparse.random(idx_dtype=) have no Coq model here")
    cov["branch_tags"] = dict(sorted(tag_hist.items()))
    pick = [0, len(ocases) // 3, 2 * len(ocases) // 3, len(ocases) - 1]
    cov["samples"] = [dict(case={k: v for k, v in ocases[i].items() if k != "lin"}, impl=_short(ores[i])) for i in pick]
    cov["unproved_statements"] = [
        "den-level statement per API operation (C15 is stated and proved on the coordinate computations; the dense "
        "meaning of the operations is the subject of C01-C10)",
        "GCXS getitem / reshape / transpose index arithmetic (convert.py kernels): differential only"]
    return viol


def _short(p):
    s = json.dumps(p, default=str)
    return p if len(s) < 600 else {"k": p.get("k"), "shape": p.get("shape"), "abbrev": s[:500]}


def diff_clause(name, t, got):
    """clause tag of a differential violation: only the defect classes still open in /repo"""
    cls = got.get("cls")
    if t == "uint64" and cls in ("TypeError", "IndexError", "TypingError"):
        return "uint64_promotes_to_float"
    if name == "gcxs_fancy_rep" and not t.startswith("u"):
        return "gcxs_fancy_getitem_indptr_dtype"
    if name.startswith("gcxs_getitem") or (name.startswith("gcxs") and cls == "AttributeError"):
        return "gcxs_getitem_unsigned_indices"
    if t == "uint64" and cls in ("TypeError", "IndexError", "TypingError"):
        return "uint64_promotes_to_float"
    if name == "gcxs_fancy_rep":
        return "gcxs_fancy_getitem_indptr_dtype"
    return None


def replay(path):
    v = json.load(open(path))
    print(json.dumps(v, indent=1, default=str)[:3000])
    if "replay_py" in v and not v["replay_py"].startswith("#"):
        import subprocess
        p = subprocess.run([vlib.PY, "-c", v["replay_py"]], env=vlib.env_clean(), capture_output=True, text=True)
        print(p.stdout[-3000:], p.stderr[-800:])
    return 0
