"""C01 — element-wise operations and broadcasting.

Implementation side (worker processes, PYTHONPATH=/repo): operators, ufuncs, sparse.elemwise, element-wise
methods, in-place and out= forms on COO / GCXS (every compressed-axes choice) / DOK / scipy.sparse / Python
scalar / NumPy scalar / 0-d array / ndarray operands; and the kernels _match_arrays,
_get_expanded_coords_data, _get_broadcast_shape, _get_nary_broadcast_shape, _get_broadcast_parameters.
Coq side (Corr/C01Judge.v): the model Model/Elemwise.v and the Spec Spec/NpElemwise.v are evaluated on the
same inputs by vm_compute and compared with the implementation's concrete result (shape, fill = f(fills),
every element, canonical + pruned, output format, representation).  Functions range over integer-exact
ones only; the remaining ufuncs x float dtypes are compared with NumPy on the densified operands in Python
(coverage.differential_only — not a theorem)."""
import itertools
import json
import random
import time

import vlib
from vlib import vZ, vbool, vlist, vopt, vpair

LEVEL = "proof"
TRUSTED_BASE = [
    "Coq 8.16.1 kernel + vm_compute (case evaluation); no native_compute",
    "axioms: none (Print Assumptions: Closed under the global context for every C01 theorem)",
    "tools/py2v.py (statement skeleton of _get_broadcast_shape) and tools/sitegen/umath.py (per-axis expressions of "
    "the comprehensions translated with py2v's expression translator; comprehension headers, n-ary fold order, mask "
    "alphabet and constructor promises checked syntactically, fail-closed)",
    "Model/Elemwise.v is a hand transcription of the loops of _umath.py (match_arrays, expansion, match_coo, mask "
    "enumeration, fill-value rule); it is tied to the code by the kernel-level and API-level correspondence of this "
    "campaign, not by translation",
    "Spec/NpElemwise.v as a description of NumPy broadcasting / element-wise application, cross-checked against "
    "np.broadcast_shapes and NumPy on the densified operands on every generated case",
    "the function table Corr/C01Judge.v:ftable as a description of the integer-exact NumPy functions used (checked "
    "against NumPy on dense operands by the same cases)",
    "correspondence harness tools/props/c01.py, tools/vlib.py",
]
ASSUMPTIONS = [
    "element values are integers (int64, small): dtype resolution, casting, float semantics and overflow are not "
    "modelled (differential_only)",
    "np.argsort inside _match_coo returns SOME sorting permutation (is_argsort): all theorems quantify over it and "
    "argsort_irrelevant shows the result does not depend on it; the correspondence runs the stable instance",
    "the memo `cache=` of _match_coo and the object swap of out= / in-place forms are not modelled (C11)",
]

# ------------------------------------------------------------------ operation table
# name -> (function id in Corr/C01Judge.v:ftable, arity)
FID = {"add": 0, "sub": 1, "mul": 2, "minimum": 3, "maximum": 4, "eq": 5, "ne": 6, "lt": 7, "le": 8, "gt": 9, "ge": 10,
       "and": 11, "or": 12, "xor": 13, "floor_divide": 14, "mod": 15,
       "abs": 20, "neg": 21, "sign": 22, "invert": 23, "ident": 24, "zero": 25, "clip2": 26, "clipmin": 27,
       "clipmax": 28, "square": 29, "where": 30, "fma": 31, "clip3": 32, "add3": 33, "addk": 34,
       "fma4": 35, "mul3": 36}
BINARY = ["add", "sub", "mul", "minimum", "maximum", "eq", "ne", "lt", "le", "gt", "ge", "and", "or", "xor",
          "floor_divide", "mod"]
HAS_OPERATOR = {"add", "sub", "mul", "eq", "ne", "lt", "le", "gt", "ge", "and", "or", "xor", "floor_divide", "mod"}
HAS_INPLACE = {"add", "sub", "mul", "and", "or", "xor", "floor_divide", "mod"}
UNARY = ["abs", "neg", "sign", "invert", "pos", "square", "astype", "round", "conj", "real", "imag", "isnan", "isinf",
         "clip2", "clipmin", "clipmax", "addk"]
UNARY_FID = {"pos": "ident", "astype": "ident", "round": "ident", "conj": "ident", "real": "ident", "imag": "zero",
             "isnan": "zero", "isinf": "zero"}
TERNARY = ["where", "fma", "clip3", "add3"]


def fid_of(op):
    return FID[UNARY_FID.get(op, op)]


def apply_op(op, form, args, params):
    """run one operation of the implementation; args are already-built operands"""
    import operator

    import numpy as np
    import sparse
    uf = {"add": np.add, "sub": np.subtract, "mul": np.multiply, "minimum": np.minimum, "maximum": np.maximum,
          "eq": np.equal, "ne": np.not_equal, "lt": np.less, "le": np.less_equal, "gt": np.greater,
          "ge": np.greater_equal, "and": np.bitwise_and, "or": np.bitwise_or, "xor": np.bitwise_xor,
          "floor_divide": np.floor_divide, "mod": np.remainder, "abs": np.abs, "neg": np.negative, "sign": np.sign,
          "invert": np.invert, "pos": np.positive, "square": np.square}
    opr = {"add": operator.add, "sub": operator.sub, "mul": operator.mul, "eq": operator.eq, "ne": operator.ne,
           "lt": operator.lt, "le": operator.le, "gt": operator.gt, "ge": operator.ge, "and": operator.and_,
           "or": operator.or_, "xor": operator.xor, "floor_divide": operator.floordiv, "mod": operator.mod,
           "abs": operator.abs, "neg": operator.neg, "invert": operator.invert, "pos": operator.pos}
    iop = {"add": operator.iadd, "sub": operator.isub, "mul": operator.imul, "and": operator.iand,
           "or": operator.ior, "xor": operator.ixor, "floor_divide": operator.ifloordiv, "mod": operator.imod}
    if form == "operator":
        return opr[op](*args)
    if form == "ufunc":
        return uf[op](*args)
    if form == "elemwise":
        if op in uf:
            return sparse.elemwise(uf[op], *args)
        if op == "where":
            return sparse.elemwise(np.where, *args)
        if op == "fma":
            return sparse.elemwise(lambda a, b, c: a * b + c, *args)
        if op == "add3":
            return sparse.elemwise(lambda a, b, c: a + b + c, *args)
        if op == "mul3":
            return sparse.elemwise(lambda a, b, c: a * b * c, *args)
        if op == "fma4":
            return sparse.elemwise(lambda a, b, c, d: a * b + c * d, *args)
        if op == "clip3":
            return sparse.elemwise(np.clip, *args)
        if op == "addk":
            k = params[0]
            return sparse.elemwise(lambda a: a + k, *args)
    if form == "inplace":
        import copy
        a = copy.deepcopy(args[0])
        r = iop[op](a, *args[1:])
        return r
    if form == "out":
        import copy
        o = copy.deepcopy(args[0])
        r = uf[op](*args, out=o)
        if r is not o:
            raise RuntimeError("out= did not return the out object")
        return r
    if form == "npwhere":
        return np.where(*args)
    if form == "function":
        if op == "where":
            return sparse.where(*args)
        if op == "npwhere":
            return np.where(*args)
    if form == "method":
        x = args[0]
        if op == "astype":
            return x.astype(np.int32 if params[0] == 32 else np.int16 if params[0] == 16 else np.int64)
        if op == "round":
            return x.round()
        if op == "conj":
            return x.conj()
        if op == "real":
            return x.real
        if op == "imag":
            return x.imag
        if op == "isnan":
            return x.isnan()
        if op == "isinf":
            return x.isinf()
        if op == "clip2":
            return x.clip(params[0], params[1])
        if op == "clipmin":
            return x.clip(min=params[0])
        if op == "clipmax":
            return x.clip(max=params[0])
    raise KeyError((op, form))


def build_arg(a):
    import numpy as np
    k = a["kind"]
    if k == "sparse":
        return vlib.build_array(a["spec"], idx_dtype=a.get("idx_dtype"))
    if k == "scipy":
        import scipy.sparse as sps
        d = vlib.spec_dense(a["spec"])
        return {"csr": sps.csr_matrix, "csc": sps.csc_matrix, "coo": sps.coo_matrix}[a["cls"]](d)
    if k == "pyint":
        return int(a["v"])
    if k == "npint":
        return np.int64(a["v"])
    if k == "np0d":
        return np.array(a["v"], dtype=np.int64)
    if k == "dense":
        return np.array(a["flat"], dtype=np.int64).reshape(tuple(a["shape"]))
    raise KeyError(k)


def impl_api(case):
    import warnings

    import numpy as np
    warnings.filterwarnings("ignore")
    args = [build_arg(a) for a in case["args"]]
    with np.errstate(all="ignore"):
        try:
            r = apply_op(case["op"], case["form"], args, case.get("params", []))
        except Exception as ex:  # noqa: BLE001
            r = ex
    try:
        return {"out": vlib.plain(r)}
    except Exception as ex:  # noqa: BLE001  (the returned object is not a self-consistent array)
        return {"out": {"k": "other", "cls": "corrupt-" + type(r).__name__,
                        "repr": f"{type(ex).__name__}: {ex}"[:160]}}


# ------------------------------------------------------------------ kernel-level workers
def impl_kernel(case):
    import numpy as np
    from sparse.numba_backend import _umath as U
    k = case["k"]
    if k == "match":
        a = np.array(case["a"], dtype=np.intp)
        b = np.array(case["b"], dtype=np.intp)
        ia, ib = U._match_arrays(a, b)
        return {"ia": [int(v) for v in ia], "ib": [int(v) for v in ib]}
    if k == "expand":
        nd = case["ndim"]
        n = len(case["coords"])
        coords = np.array(case["coords"], dtype=np.intp).reshape(n, nd).T if n else np.zeros((nd, 0), dtype=np.intp)
        coords = coords.astype(case.get("idx_dtype", "intp"))
        data = np.array(case["data"], dtype=np.int64)
        params = [None if p == 2 else bool(p) for p in case["params"]]
        try:
            c, d = U._get_expanded_coords_data(coords, data, params, tuple(case["bshape"]))
            c = np.asarray(c)
            return {"coords": [[int(v) for v in col] for col in c.T.tolist()], "data": [int(v) for v in d],
                    "intp": bool(c.dtype == np.intp)}
        except Exception as ex:  # noqa: BLE001
            return {"exc": type(ex).__name__}
    if k == "mcoo":
        import warnings
        warnings.filterwarnings("ignore")
        arrs = [vlib.build_array(sp) for sp in case["specs"]]
        try:
            m = U._Elemwise._match_coo(*arrs, broadcast_shape=tuple(case["bshape"]))
            c = np.asarray(m[0].coords)
            cols = c.T.tolist() if c.size else [[] for _ in range(m[0].nnz)]
            return {"rows": [[[int(v) for v in col], [int(a.data[i]) for a in m]] for i, col in enumerate(cols)],
                    "shape": [int(d) for d in m[0].shape]}
        except Exception as ex:  # noqa: BLE001
            return {"exc": type(ex).__name__, "msg": str(ex)[:100]}
    if k == "bc2":
        try:
            r = [int(v) for v in U._get_broadcast_shape(tuple(case["s1"]), tuple(case["s2"]), case["isr"])]
        except ValueError:
            r = None
        try:
            n = [int(v) for v in np.broadcast_shapes(tuple(case["s1"]), tuple(case["s2"]))]
        except ValueError:
            n = None
        return {"impl": r, "np": n}
    if k == "nary":
        shs = [tuple(s) for s in case["shapes"]]
        try:
            r = [int(v) for v in U._get_nary_broadcast_shape(*shs)]
        except ValueError:
            r = None
        try:
            n = [int(v) for v in np.broadcast_shapes(*shs)]
        except ValueError:
            n = None
        return {"impl": r, "np": n}
    if k == "params":
        r = U._get_broadcast_parameters(tuple(case["sh"]), tuple(case["bsh"]))
        return {"ps": [2 if p is None else int(bool(p)) for p in r]}
    raise KeyError(k)


# ------------------------------------------------------------------ differential only (floats, other ufuncs)
DIFF_UFUNCS_1 = ["sqrt", "exp", "expm1", "log1p", "sin", "cos", "tan", "arctan", "sinh", "tanh", "floor", "ceil",
                 "trunc", "rint", "negative", "absolute", "sign", "square", "reciprocal", "isnan", "isinf", "isfinite",
                 "signbit", "deg2rad", "cbrt", "logical_not", "conjugate"]
DIFF_UFUNCS_2 = ["add", "subtract", "multiply", "true_divide", "power", "hypot", "arctan2", "fmax", "fmin", "maximum",
                 "minimum", "copysign", "nextafter", "logical_and", "logical_or", "logical_xor", "greater", "less_equal",
                 "not_equal", "fmod", "floor_divide", "remainder", "logaddexp", "heaviside"]


def impl_diff(case):
    """sparse result vs NumPy on the densified operands (values bit-for-bit incl. NaN, dtype, fill)"""
    import warnings

    import numpy as np
    import sparse
    warnings.filterwarnings("ignore")
    rng = np.random.default_rng(case["seed"])
    uf = getattr(np, case["ufunc"])
    dt = np.dtype(case["dtype"])
    args, dense = [], []
    for sh, fill, fmt in zip(case["shapes"], case["fills"], case["formats"], strict=True):
        fill = float("nan") if fill == "nan" else fill
        d = rng.integers(-3, 4, size=tuple(sh)).astype(np.float64) * 0.5
        mask = rng.random(tuple(sh)) < 0.5
        d = np.where(mask, d, fill)
        if dt.kind == "c":
            d = d + 1j * np.where(mask, 0.5, 0.0)
        if dt.kind in "iub":
            d = np.where(mask, rng.integers(0 if dt.kind != "i" else -3, 4, size=tuple(sh)), int(fill))
        d = d.astype(dt)
        if fmt == "dense":           # a plain ndarray operand of a mixed sparse / dense call
            args.append(d)
            dense.append(d)
            continue
        x = sparse.COO.from_numpy(d, fill_value=dt.type(fill))
        if fmt == "gcxs":
            x = sparse.GCXS.from_coo(x)
        elif fmt == "dok":
            x = sparse.DOK.from_coo(x)
        args.append(x)
        dense.append(d)
    with np.errstate(all="ignore"):
        try:
            want = uf(*dense)
            werr = None
        except Exception as ex:  # noqa: BLE001
            want, werr = None, type(ex).__name__
        try:
            got = uf(*args)
            gerr = None
        except Exception as ex:  # noqa: BLE001
            got, gerr = None, type(ex).__name__
    if werr or gerr:
        return {"ok": werr == gerr or (werr is None and gerr == "ValueError" and False), "werr": werr, "gerr": gerr}
    gd = got.todense() if hasattr(got, "todense") else np.asarray(got)
    same = gd.shape == want.shape and gd.dtype == want.dtype and \
        bool(np.array_equal(gd, want, equal_nan=want.dtype.kind in "fc"))
    fills = [dt.type(float("nan") if f == "nan" else f) for f in case["fills"]]
    with np.errstate(all="ignore"):
        wf = uf(*fills)
    fill_ok = True
    if hasattr(got, "fill_value"):
        gf = got.fill_value
        fill_ok = bool(np.array_equal(np.asarray(gf), np.asarray(wf), equal_nan=np.asarray(wf).dtype.kind in "fc"))
    return {"ok": bool(same and fill_ok), "same": bool(same), "fill_ok": fill_ok,
            "got_dtype": str(gd.dtype), "want_dtype": str(want.dtype)}



# ------------------------------------------------------------------ programs (2-5 steps) against NumPy
PROG_BIN = {"add": "add", "sub": "subtract", "mul": "multiply", "maximum": "maximum", "minimum": "minimum"}
PROG_IOP = {"add": "iadd", "sub": "isub", "mul": "imul"}


def _prog_operand(env, o):
    return env[o[1]] if o[0] == "v" else o[1]


def _prog_step(env, st, lib):
    """execute one step on the environment env (list of arrays, NumPy or sparse alike);
    returns (index of the variable bound/updated, fresh-object obligations [(new, operand)])"""
    import operator

    import numpy as np
    k = st["k"]
    if k == "astype":
        src = env[st["src"]]
        kw = {} if st["copy"] is None else {"copy": st["copy"]}
        r = src.astype(np.dtype(st["dtype"]) if st["spell"] == "dtype" else st["dtype"], **kw)
        env.append(r)
        return [(r, src)] if st["copy"] is not False else []
    if k == "unary":
        src = env[st["src"]]
        fn = st["fn"]
        if fn == "round":
            r = src.round()
        elif fn == "clip":
            r = src.clip(st["lo"], st["hi"])
        elif fn == "abs":
            r = abs(src)
        elif fn == "neg":
            r = -src
        elif fn == "conjugate":
            r = np.conjugate(src)
        elif fn == "conj":
            r = src.conj()
        elif fn == "real":
            r = src.real
        else:
            raise KeyError(fn)
        env.append(r)
        return [(r, src)] if fn in ("round", "clip", "abs", "neg", "conjugate") else []
    if k == "binary":
        a, b = _prog_operand(env, st["a"]), _prog_operand(env, st["b"])
        r = getattr(np, PROG_BIN[st["op"]])(a, b)
        env.append(r)
        return [(r, x) for x in (a, b) if not isinstance(x, (int, float))]
    if k == "iop":
        t = env[st["t"]]
        r = getattr(operator, PROG_IOP[st["op"]])(t, _prog_operand(env, st["b"]))
        if r is not t:
            raise RuntimeError("in-place operator returned another object")
        return []
    if k == "out":
        t = env[st["t"]]
        r = getattr(np, PROG_BIN[st["op"]])(_prog_operand(env, st["a"]), _prog_operand(env, st["b"]), out=t)
        if r is not t:
            raise RuntimeError("out= returned another object")
        return []
    if k == "mout":
        t, src = env[st["t"]], env[st["src"]]
        r = src.round(out=t) if st["fn"] == "round" else src.clip(st["lo"], st["hi"], out=t)
        if r is not t:
            raise RuntimeError("out= returned another object")
        return []
    raise KeyError(k)


def impl_program(case):
    """run the program on NumPy arrays and on sparse arrays; compare every variable at the end (shape, dtype,
    every element) and the fresh-object obligations (the result of astype(copy=True/default), round, clip,
    abs, neg, a ufunc must not BE one of its operands)"""
    import warnings

    import numpy as np
    import sparse
    warnings.filterwarnings("ignore")
    mk = {"coo": sparse.COO.from_numpy, "gcxs": sparse.GCXS.from_numpy, "dok": sparse.DOK.from_numpy}[case["format"]]
    envn, envs = [], []
    for a in case["init"]:
        x = np.array(a["flat"], dtype=a["dtype"]).reshape(tuple(a["shape"]))
        envn.append(x.copy())
        envs.append(mk(x))
    problems = []
    with np.errstate(all="ignore"):
        for i, st in enumerate(case["steps"]):
            nn, ns = len(envn), len(envs)
            en = es = None
            try:
                _prog_step(envn, st, np)
            except Exception as ex:  # noqa: BLE001
                en = type(ex).__name__
                del envn[nn:]
            try:
                fresh = _prog_step(envs, st, sparse)
            except Exception as ex:  # noqa: BLE001
                es = type(ex).__name__ + ": " + str(ex)[:80]
                del envs[ns:]
                fresh = []
            if (en is None) != (es is None):
                problems.append({"step": i, "what": "exception", "numpy": en, "sparse": es})
                break
            for r, operand in fresh:
                if r is operand:
                    problems.append({"step": i, "what": "fresh_object", "detail": f"step {st['k']} returned its operand itself"})
    if not any(p["what"] == "exception" for p in problems):
        for j, (xn, xs) in enumerate(zip(envn, envs, strict=True)):
            try:
                d = xs.todense() if hasattr(xs, "todense") else np.asarray(xs)
            except Exception as ex:  # noqa: BLE001
                problems.append({"var": j, "what": "unreadable", "detail": type(ex).__name__ + ": " + str(ex)[:80]})
                continue
            if d.shape != xn.shape:
                problems.append({"var": j, "what": "shape", "sparse": list(d.shape), "numpy": list(xn.shape)})
            elif not np.array_equal(d, xn, equal_nan=True):
                bad = np.argwhere(d != xn)
                idx = tuple(int(v) for v in bad[0])
                problems.append({"var": j, "what": "value", "n": int(len(bad)), "at": list(idx),
                                 "sparse": float(d[idx]), "numpy": float(xn[idx])})
            elif d.dtype != xn.dtype:
                problems.append({"var": j, "what": "dtype", "sparse": str(d.dtype), "numpy": str(xn.dtype)})
    return {"ok": not problems, "problems": problems[:6]}


def gen_program_cases(tier, rng):
    out = []
    n = 1500 if tier == "quick" else 8000
    for _ in range(n):
        nd = rng.choice([1, 2, 2, 3])
        full = [rng.choice([1, 2, 3]) for _ in range(nd)]
        fmt = rng.choice(["coo", "coo", "coo", "gcxs", "dok"])
        dt0 = rng.choice(["float64", "float64", "float64", "float32", "int64"])

        def arr(shape, dt):
            m = 1
            for d in shape:
                m *= d
            vals = [rng.choice([0, 0, 0, 1, 2, -1, 3]) * (1 if dt == "int64" else rng.choice([1, 0.5])) for _ in range(m)]
            return {"shape": list(shape), "flat": vals, "dtype": dt}
        sub = [d if rng.random() < 0.6 else 1 for d in full][rng.choice([0, 0, rng.randint(0, nd - 1)]):]
        init = [arr(full, dt0), arr(sub, rng.choice([dt0, "float64"]))]
        # python-side bookkeeping: which variables have the full shape / may be in-place targets
        shapes = [list(full), list(sub)]
        dts = [dt0, init[1]["dtype"]]
        target_ok = [True, False]
        steps = []

        def operand(allow_scalar=True):
            if allow_scalar and rng.random() < 0.35:
                return ["s", rng.choice([1.5, 2, -1, 0.5, 3, 0])]
            return ["v", rng.randrange(len(shapes))]

        def bshape(a, b):
            sa = shapes[a[1]] if a[0] == "v" else []
            sb = shapes[b[1]] if b[0] == "v" else []
            return np_bshape([sa, sb])
        nsteps = rng.randint(2, 5)
        # the first step is biased to the element-wise methods, a later one to in-place forms
        for si in range(nsteps):
            targets = [i for i, ok in enumerate(target_ok) if ok and shapes[i] == full]
            r = rng.random()
            if si == 0 or r < 0.3:
                src = rng.randrange(len(shapes))
                if rng.random() < 0.6:
                    same = rng.random() < 0.6
                    dt = dts[src] if same else rng.choice([d for d in ("float64", "float32", "int64") if d != dts[src]])
                    spell = rng.choice(["dtype", "str"])
                    copy = rng.choice([None, None, True, False])
                    code = {"float64": "f8", "float32": "f4", "int64": "i8"}[dt] if spell == "str" and rng.random() < 0.5 else dt
                    steps.append({"k": "astype", "src": src, "dtype": code, "spell": spell, "copy": copy})
                    shapes.append(shapes[src])
                    dts.append(dt)
                    # with copy=False and an unchanged dtype NumPy returns the operand itself: same aliasing expected
                    target_ok.append(True)
                else:
                    fn = rng.choice(["round", "clip", "abs", "neg", "conjugate"])   # ndarray.conj()/.real alias their operand in NumPy
                    st = {"k": "unary", "src": src, "fn": fn}
                    if fn == "clip":
                        st["lo"] = rng.choice([-1, 0, 0.5])
                        st["hi"] = st["lo"] + rng.choice([0.5, 1, 2])
                    steps.append(st)
                    shapes.append(shapes[src])
                    dts.append(dts[src] if not (fn == "clip" and dts[src] == "int64") else "float64")
                    target_ok.append(fn not in ("conj", "real"))        # ndarray.conj()/.real may alias in NumPy
            elif r < 0.5 or not targets:
                a, b = operand(False), operand()
                if bshape(a, b) is None:
                    continue
                steps.append({"k": "binary", "op": rng.choice(sorted(PROG_BIN)), "a": a, "b": b})
                shapes.append(bshape(a, b))
                dts.append("float64")
                target_ok.append(True)
            else:
                t = rng.choice(targets)
                kind = rng.choice(["iop", "iop", "out", "mout"])
                if kind == "iop":
                    b = operand()
                    if bshape(["v", t], b) != full:
                        continue
                    steps.append({"k": "iop", "op": rng.choice(sorted(PROG_IOP)), "t": t, "b": b})
                elif kind == "out":
                    a, b = ["v", t] if rng.random() < 0.6 else operand(False), operand()
                    if bshape(a, b) != full:
                        continue
                    steps.append({"k": "out", "op": rng.choice(sorted(PROG_BIN)), "t": t, "a": a, "b": b})
                else:
                    cands = [i for i in range(len(shapes)) if shapes[i] == full]
                    st = {"k": "mout", "fn": rng.choice(["round", "clip"]), "t": t, "src": rng.choice(cands)}
                    if st["fn"] == "clip":
                        st["lo"] = rng.choice([-1, 0, 0.5])
                        st["hi"] = st["lo"] + rng.choice([0.5, 1, 2])
                    steps.append(st)
        if len(steps) >= 2:
            out.append({"format": fmt, "init": init, "steps": steps})
    # the directed shape  y = x.astype(...); y op= ...; r = x - y  for every dtype spelling / copy / format
    for fmt in ("coo", "gcxs", "dok"):
        for dt0 in ("float64", "float32", "int64"):
            for same in (True, False):
                for copy in (None, True, False):
                    for form in ("iop", "out", "mout"):
                        dt = dt0 if same else ("float32" if dt0 == "float64" else "float64")
                        init = [{"shape": [2, 3], "flat": [0, 1.0, 0, 2, 0, 3], "dtype": dt0},
                                {"shape": [3], "flat": [2, 0, 1], "dtype": dt0}]
                        upd = {"iop": {"k": "iop", "op": "add", "t": 2, "b": ["s", 2]},
                               "out": {"k": "out", "op": "mul", "t": 2, "a": ["v", 2], "b": ["v", 1]},
                               "mout": {"k": "mout", "fn": "clip", "lo": 0, "hi": 1, "t": 2, "src": 0}}[form]
                        out.append({"format": fmt, "init": init, "steps": [
                            {"k": "astype", "src": 0, "dtype": dt, "spell": "dtype", "copy": copy}, upd,
                            {"k": "binary", "op": "sub", "a": ["v", 0], "b": ["v", 2]}]})
    return out

# ------------------------------------------------------------------ generators
EXT = (0, 1, 2, 3)


def shapes_upto(maxd, ext=EXT):
    out = []
    for d in range(maxd + 1):
        out.extend(list(p) for p in itertools.product(ext, repeat=d))
    return out


def np_bshape(shapes):
    """NumPy's rule, written out (the harness must not depend on the implementation)"""
    n = max((len(s) for s in shapes), default=0)
    r = []
    for k in range(1, n + 1):
        ds = {s[-k] for s in shapes if len(s) >= k and s[-k] != 1}
        if len(ds) > 1:
            return None
        r.append(ds.pop() if ds else 1)
    return r[::-1]


def layout_tag(shapes):
    b = np_bshape(shapes)
    if b is None:
        return "incompatible"
    tags = set()
    for s in shapes:
        if list(s) == b:
            continue
        if len(s) < len(b):
            tags.add("leading")
        al = b[len(b) - len(s):]
        kept = [i for i, (x, y) in enumerate(zip(s, al, strict=True)) if x == y and not (x == 1 and y == 1)]
        br = [i for i, (x, y) in enumerate(zip(s, al, strict=True)) if x == 1 and y != 1]
        if br:
            tags.add("len1")
            if kept and any(min(kept) < i < max(kept) for i in br):
                tags.add("nonadjacent-kept")
    if 0 in b:
        tags.add("zero-extent")
    return "+".join(sorted(tags)) if tags else "same-shape"


def rand_gcxs_axes(rng, nd):
    if nd < 2:
        return None
    subsets = [list(c) for k in range(1, nd) for c in itertools.combinations(range(nd), k)]
    return rng.choice(subsets)


def sparse_arg(rng, shape, fills, formats, density=None):
    spec = vlib.gen_array_spec(rng, shape=shape, fills=fills, formats=("coo",), density=density)
    fmt = rng.choice(formats)
    spec["format"] = fmt
    spec["caxes"] = rand_gcxs_axes(rng, len(shape)) if fmt == "gcxs" else None
    return {"kind": "sparse", "spec": spec}


def scipy_arg(rng, shape):
    spec = vlib.gen_array_spec(rng, shape=shape, fills=(0,), formats=("coo",))
    return {"kind": "scipy", "spec": spec, "cls": rng.choice(["csr", "csc", "coo"])}


def dense_arg(rng, shape, const=None):
    n = 1
    for d in shape:
        n *= d
    if const is not None:
        flat = [const] * n
    else:
        flat = [rng.choice([-2, -1, 0, 0, 1, 2, 3]) for _ in range(n)]
    return {"kind": "dense", "shape": list(shape), "flat": flat}


def scalar_arg(rng):
    return {"kind": rng.choice(["pyint", "npint", "np0d"]), "v": rng.choice([-2, -1, 0, 0, 1, 2, 3])}


def arg_shape(a):
    if a["kind"] in ("sparse", "scipy"):
        return a["spec"]["shape"]
    if a["kind"] == "dense":
        return a["shape"]
    return []


FILLSETS = [(0,), (0,), (0,), (2,), (-1,), (0, 2, -1), (1,)]
FORMATS_ALL = ("coo", "coo", "gcxs", "gcxs", "dok")


def pick_binary_form(rng, op, args):
    forms = ["ufunc", "elemwise"]
    sp0 = args[0]["kind"] == "sparse"
    any_scipy = any(a["kind"] == "scipy" for a in args)
    if op in HAS_OPERATOR and not any_scipy and (sp0 or args[0]["kind"] in ("pyint", "npint", "np0d", "dense")):
        forms += ["operator", "operator"]
    if any_scipy:
        forms = ["elemwise"] if args[0]["kind"] != "sparse" else ["elemwise", "ufunc"]
    return rng.choice(forms)


def gen_api_cases(tier, rng):
    cases = []
    quick = tier == "quick"

    def add(op, form, args, params=None, group=""):
        cases.append({"op": op, "form": form, "args": args, "params": params or [], "group": group})

    # (1) unary: every shape of <= 3-d (4-d sample when thorough)
    sh3 = shapes_upto(3)
    for sh in sh3:
        for _ in range(1 if quick else 3):
            op = rng.choice(UNARY)
            a = sparse_arg(rng, sh, rng.choice(FILLSETS), FORMATS_ALL)
            params = []
            if op in ("abs", "neg", "invert", "pos"):
                form = rng.choice(["operator", "ufunc", "elemwise"])
            elif op in ("sign", "square"):
                form = rng.choice(["ufunc", "elemwise"])
            elif op == "addk":
                form, params = "elemwise", [rng.choice([-1, 0, 2])]
            else:
                form = "method"
                if op == "astype":
                    params = [rng.choice([16, 32, 64])]
                elif op == "clip2":
                    lo = rng.choice([-2, -1, 0, 1])
                    params = [lo, lo + rng.choice([0, 1, 3])]
                elif op in ("clipmin", "clipmax"):
                    params = [rng.choice([-2, -1, 0, 1, 2])]
            add(op, form, [a], params, "unary")
    # (2) binary sparse x sparse: ALL ordered pairs of shapes of <= 3-d, compatible or not
    reps = 1 if quick else 2
    for s1 in sh3:
        for s2 in sh3:
            compat = np_bshape([s1, s2]) is not None
            if not compat and quick and rng.random() < 0.75:
                continue            # incompatible pairs are covered exhaustively at kernel level (bc2)
            for _ in range(reps if compat else 1):
                op = rng.choice(BINARY)
                fs = rng.choice(FILLSETS)
                args = [sparse_arg(rng, s1, fs, FORMATS_ALL), sparse_arg(rng, s2, fs, FORMATS_ALL)]
                add(op, pick_binary_form(rng, op, args), args, None, "binary")
    # (3) sparse with scalar / 0-d / ndarray / scipy operands
    n3 = 1400 if quick else 6000
    for _ in range(n3):
        nd = rng.choice([0, 1, 1, 2, 2, 2, 3])
        sh = [rng.choice(EXT) for _ in range(nd)]
        a = sparse_arg(rng, sh, rng.choice(FILLSETS), FORMATS_ALL)
        kind = rng.choice(["scalar", "scalar", "dense", "dense", "dense", "scipy", "sparse0d"])
        op = rng.choice(BINARY)
        if kind == "scalar":
            b = scalar_arg(rng)
        elif kind == "sparse0d":
            b = sparse_arg(rng, [], rng.choice(FILLSETS), ("coo", "coo", "gcxs", "dok"), density=rng.choice([0.0, 1.0]))
        elif kind == "scipy":
            sh = [rng.choice(EXT), rng.choice(EXT)]
            lay = rng.choice(["same", "same", "row", "col", "1d", "3d"])
            s1 = {"same": sh, "row": [1, sh[1]], "col": [sh[0], 1], "1d": [sh[1]], "3d": [rng.choice([1, 2])] + sh}[lay]
            a = sparse_arg(rng, s1, rng.choice(FILLSETS), FORMATS_ALL)
            b = scipy_arg(rng, sh)
        else:
            # a dense operand: same shape, broadcastable sub-shape, larger shape, or incompatible
            lay = rng.choice(["same", "same", "sub", "super", "cross", "any"])
            if lay == "same":
                dsh = list(sh)
            elif lay == "sub":
                dsh = [d if rng.random() < 0.5 else 1 for d in sh][rng.randint(0, nd):]
            elif lay == "super":
                dsh = [rng.choice([1, 2])] + list(sh)
            elif lay == "cross":
                dsh = [rng.choice(EXT) if d == 1 else rng.choice([d, 1]) for d in sh]
            else:
                dsh = [rng.choice(EXT) for _ in range(rng.choice([0, 1, 2, 3]))]
            # often a constant array or a multiplication (constant fill image) so that a sparse result exists
            const = rng.choice([None, None, 0, 1, 2])
            b = dense_arg(rng, dsh, const)
            if rng.random() < 0.4:
                op = rng.choice(["mul", "and", "mul", "minimum"])
        args = [a, b] if rng.random() < 0.6 else [b, a]
        add(op, pick_binary_form(rng, op, args), args, None, "mixed-" + kind)
    # (4) ternary
    n4 = 900 if quick else 5000
    for _ in range(n4):
        nd = rng.choice([1, 2, 2, 3])
        full = [rng.choice(EXT) for _ in range(nd)]
        op = rng.choice(TERNARY)
        fs = rng.choice(FILLSETS)
        args = []
        for i in range(3):
            r = rng.random()
            sub = [d if rng.random() < 0.65 else 1 for d in full][rng.choice([0, 0, 0, rng.randint(0, nd)]):]
            if i > 0 and r < 0.2:
                args.append(scalar_arg(rng))
            elif i > 0 and r < 0.3:
                args.append(dense_arg(rng, sub, rng.choice([None, 0, 1])))
            else:
                args.append(sparse_arg(rng, sub, fs, FORMATS_ALL))
        if not any(a["kind"] == "sparse" for a in args):
            args[0] = sparse_arg(rng, full, fs, FORMATS_ALL)
        if op == "where":
            form = rng.choice(["function", "elemwise"]) if args[0]["kind"] == "sparse" else "elemwise"
        else:
            form = "elemwise"
        add(op, form, args, None, "ternary")
    # (5) in-place and out= forms (same format or scalar second operand; shape-preserving)
    n5 = 300 if quick else 1500
    for _ in range(n5):
        nd = rng.choice([1, 2, 3])
        sh = [rng.choice(EXT) for _ in range(nd)]
        fmt = rng.choice(["coo", "gcxs", "dok"])
        fs = rng.choice(FILLSETS)
        a = sparse_arg(rng, sh, fs, (fmt,))
        if rng.random() < 0.4:
            b = scalar_arg(rng)
        else:
            sub = [d if rng.random() < 0.7 else 1 for d in sh][rng.choice([0, 0, rng.randint(0, nd)]):]
            b = sparse_arg(rng, sub, fs, (fmt,))
            if fmt == "gcxs":
                b["spec"]["caxes"] = a["spec"]["caxes"] if len(sub) == nd else b["spec"]["caxes"]
        op = rng.choice(sorted(HAS_INPLACE))
        add(op, rng.choice(["inplace", "out"]), [a, b], None, "inplace-out")
    # (6) 4-d (thorough: many; quick: a few) and 3-operand all-sparse programs of distinct layouts
    n6 = 150 if quick else 4000
    for _ in range(n6):
        full = [rng.choice(EXT) for _ in range(4)]
        k = rng.choice([2, 2, 3])
        fs = rng.choice(FILLSETS)
        args = []
        for _i in range(k):
            sub = [d if rng.random() < 0.6 else 1 for d in full][rng.choice([0, 0, rng.randint(0, 4)]):]
            args.append(sparse_arg(rng, sub, fs, FORMATS_ALL, density=rng.choice([0.0, 0.2, 0.5, 1.0])))
        if k == 2:
            op = rng.choice(BINARY)
            add(op, pick_binary_form(rng, op, args), args, None, "4d")
        else:
            add(rng.choice(["fma", "add3", "where", "clip3"]), "elemwise", args, None, "4d")
    # (8) ternary sparse x sparse x sparse: ALL ordered triples of mutually broadcastable shapes of <= 2-d with extents
    # {1,2,3,4} (every operand order, every layout: row/column vectors against matrices, leading axes, length-1
    # axes), dense patterns so that positions stored by all three exist; 3-d and 4-operand samples
    sh2 = shapes_upto(2, (1, 2, 3, 4))
    triples = [(a, b, c) for a in sh2 for b in sh2 for c in sh2 if np_bshape([a, b, c]) is not None]
    if quick:
        keep = [t for t in triples if len({tuple(x) for x in t}) > 1 and max(len(x) for x in t) == 2]
        rest = [t for t in triples if t not in keep]
        triples = keep + rng.sample(rest, min(len(rest), 150))
    for (a, b, c) in triples:
        for _rep in range(1 if quick else 2):
            op = rng.choice(["mul3", "mul3", "where", "fma", "add3", "clip3"])
            fs = rng.choice([(0,), (0,), (0,), (2,), (0, 1)])
            args = [sparse_arg(rng, sh, fs, FORMATS_ALL, density=rng.choice([0.7, 1.0, 1.0])) for sh in (a, b, c)]
            form = "elemwise"
            if op == "where":
                form = rng.choice(["function", "elemwise", "npwhere"])
            add("where" if op == "where" else op, form, args, None, "ternary-exhaustive")
    sh3 = shapes_upto(3, (1, 2, 3))
    for _ in range(250 if quick else 3000):
        full = [rng.choice([2, 3, 4]) for _ in range(rng.choice([2, 3]))]
        k = rng.choice([3, 3, 4])
        shs = []
        for _i in range(k):
            sub = [d if rng.random() < 0.6 else 1 for d in full][rng.choice([0, 0, rng.randint(0, len(full))]):]
            shs.append(sub)
        if rng.random() < 0.5:
            shs[rng.randrange(k)] = list(full)
        fs = rng.choice([(0,), (0,), (2,), (0, 1)])
        args = [sparse_arg(rng, sh, fs, FORMATS_ALL, density=rng.choice([0.7, 1.0])) for sh in shs]
        if k == 3:
            add(rng.choice(["mul3", "fma", "where", "add3"]), "elemwise", args, None, "ternary-3d")
        else:
            add("fma4", "elemwise", args, None, "quaternary")
    # (7) narrow index dtypes: a COO operand with uint8 / int8 coordinates broadcast along an axis that crosses
    # 127 / 255 (the other extents stay tiny), as the single matched operand of a mask (add / sub / maximum with a
    # sparse partner, or a full-shape / constant dense partner)
    n7 = 36 if quick else 150
    for _ in range(n7):
        L = rng.choice([128, 130, 256, 260, 300])
        k = rng.choice([1, 2, 3])
        idt = rng.choice(["uint8", "uint8", "int8"])
        lay = rng.choice(["lead", "len1"])
        xsh = [k] if lay == "lead" else [1, k]
        x = sparse_arg(rng, xsh, (0,), ("coo",), density=rng.choice([0.5, 1.0]))
        x["idx_dtype"] = idt
        partner = rng.choice(["sparse", "sparse", "dense", "densecol"])
        if partner == "sparse":
            y = sparse_arg(rng, [L, 1], (0,), ("coo", "coo", "gcxs"), density=0.02)
            op = rng.choice(["add", "sub", "maximum", "add"])
        elif partner == "dense":
            y = dense_arg(rng, [L, k], 1)
            op = "mul"
        else:
            y = dense_arg(rng, [L, 1], 2)
            op = rng.choice(["mul", "add"])
        args = [x, y] if rng.random() < 0.5 else [y, x]
        add(op, pick_binary_form(rng, op, args), args, None, "narrow-index")
    return cases


def gen_kernel_cases(tier, rng):
    quick = tier == "quick"
    ks = []
    # _match_arrays: sorted arrays with repeated keys, disjoint / nested / equal value sets
    for _ in range(1500 if quick else 8000):
        hi = rng.choice([1, 2, 3, 5, 8])
        na, nb = rng.choice([0, 1, 2, 3, 5, 8, 12]), rng.choice([0, 1, 2, 3, 5, 8, 12])
        mode = rng.choice(["rep", "rep", "strict", "disjoint"])
        if mode == "strict":
            a = sorted(rng.sample(range(20), min(na, 20)))
            b = sorted(rng.sample(range(20), min(nb, 20)))
        elif mode == "disjoint":
            a = sorted(2 * rng.randint(0, hi) for _ in range(na))
            b = sorted(2 * rng.randint(0, hi) + 1 for _ in range(nb))
        else:
            a = sorted(rng.randint(0, hi) for _ in range(na))
            b = sorted(rng.randint(0, hi) for _ in range(nb))
        ks.append({"k": "match", "a": a, "b": b})
    # _get_expanded_coords_data
    for _ in range(700 if quick else 4000):
        nb_ = rng.choice([1, 2, 3, 4])
        bshape = [rng.choice([1, 2, 3]) for _ in range(nb_)]
        nd = rng.randint(0, nb_)
        params = [2] * (nb_ - nd)
        sh = []
        for d in bshape[nb_ - nd:]:
            if rng.random() < 0.55:
                params.append(1)
                sh.append(d)
            else:
                params.append(0)
                sh.append(1)
        allidx = list(itertools.product(*[range(d) for d in sh]))
        dens = rng.choice([0.0, 0.3, 0.7, 1.0])
        pos = [list(p) for p in allidx if rng.random() < dens]
        if rng.random() < 0.3:
            rng.shuffle(pos)                      # the function does not need sorted input
        ks.append({"k": "expand", "ndim": nd, "coords": pos, "data": [rng.randint(1, 9) for _ in pos],
                   "params": params, "bshape": bshape})
    # _match_coo on two..four canonical operands (its own unsorted intermediate is the left input from the third on)
    sh2k = [x for x in shapes_upto(2, (1, 2, 3, 4)) if x]      # 0-d operands never reach _match_coo
    for _ in range(700 if quick else 4000):
        k = rng.choice([2, 3, 3, 3, 4])
        while True:
            shs = [rng.choice(sh2k) for _ in range(k)]
            if np_bshape(shs) is not None:
                break
        specs = []
        for sh in shs:
            sp = vlib.gen_array_spec(rng, shape=sh, fills=(0,), formats=("coo",), density=rng.choice([0.5, 0.8, 1.0]))
            specs.append(sp)
        ks.append({"k": "mcoo", "specs": specs, "bshape": np_bshape(shs)})
    # the same with narrow coordinate dtypes and a broadcast axis crossing 127 / 255
    for _ in range(40 if quick else 200):
        L = rng.choice([128, 130, 256, 260, 300])
        lay = rng.choice(["lead", "len1", "mid"])
        k = rng.choice([1, 2, 3])
        if lay == "lead":
            bshape, params, sh = [L, k], [2, 1], [k]
        elif lay == "len1":
            bshape, params, sh = [L, k], [0, 1], [1, k]
        else:
            bshape, params, sh = [k, L, 2], [1, 0, 1], [k, 1, 2]
        allidx = list(itertools.product(*[range(d) for d in sh]))
        pos = [list(p) for p in allidx if rng.random() < 0.6] or [list(allidx[0])]
        ks.append({"k": "expand", "ndim": len(sh), "coords": pos, "data": [rng.randint(1, 9) for _ in pos],
                   "params": params, "bshape": bshape, "idx_dtype": rng.choice(["uint8", "int8", "uint8", "int16"])})
    # _get_broadcast_shape: ALL ordered pairs of shapes of <= 3-d, both values of is_result
    sh3 = shapes_upto(3)
    for s1 in sh3:
        for s2 in sh3:
            ks.append({"k": "bc2", "s1": s1, "s2": s2, "isr": False})
            if quick and rng.random() < 0.5:
                continue
            ks.append({"k": "bc2", "s1": s1, "s2": s2, "isr": True})
    sh4 = shapes_upto(4)
    for _ in range(600 if quick else 5000):
        k = rng.choice([0, 1, 2, 3, 3, 4, 5])
        if rng.random() < 0.6:
            full = [rng.choice(EXT) for _ in range(rng.randint(0, 4))]
            shs = [[d if rng.random() < 0.6 else 1 for d in full][rng.randint(0, len(full)):] for _ in range(k)]
        else:
            shs = [rng.choice(sh4) for _ in range(k)]
        ks.append({"k": "nary", "shapes": shs})
    for _ in range(800 if quick else 4000):
        bsh = [rng.choice(EXT) for _ in range(rng.randint(0, 4))]
        if rng.random() < 0.8:
            sh = [d if rng.random() < 0.6 else 1 for d in bsh][rng.randint(0, len(bsh)):]
        else:
            sh = rng.choice(sh4)
        ks.append({"k": "params", "sh": sh, "bsh": bsh})
    return ks


def gen_diff_cases(tier, rng):
    out = []
    n = 500 if tier == "quick" else 4000
    for i in range(n):
        un = rng.random() < 0.4
        uf = rng.choice(DIFF_UFUNCS_1 if un else DIFF_UFUNCS_2)
        dt = rng.choice(["float64", "float64", "float32", "complex128", "int32", "uint8", "bool", "int8"])
        if dt == "complex128" and uf in ("floor", "ceil", "trunc", "rint", "signbit", "deg2rad", "cbrt", "hypot", "arctan2",
                                         "fmax", "fmin", "copysign", "nextafter", "fmod", "floor_divide", "remainder",
                                         "logaddexp", "heaviside", "maximum", "minimum", "greater", "less_equal", "sign"):
            dt = "float64"
        nd = rng.choice([1, 2, 2, 3])       # 0-d operands are the integer campaign's business
        full = [rng.choice((1, 2, 3)) for _ in range(nd)]
        k = 1 if un else 2
        shapes = [[d if rng.random() < 0.7 else 1 for d in full][rng.choice([0, 0, rng.randint(0, nd - 1)]):] for _ in range(k)]
        shapes[0] = full if rng.random() < 0.5 else shapes[0]
        out.append({"ufunc": uf, "dtype": dt, "shapes": shapes, "fills": [rng.choice([0, 0, 1, 2]) for _ in range(k)],
                    "formats": [rng.choice(["coo", "gcxs", "dok"]) for _ in range(k)], "seed": i})
    # mixed sparse / dense-ndarray calls whose func(fill, dense) is uniformly NaN: a NaN-filled sparse result exists and is
    # returned (the fill-value array must be compared NaN-aware; seeded C01-m6: plain == raised ValueError / densified)
    for j in range(40 if tier == "quick" else 200):
        uf = rng.choice(["add", "subtract", "multiply"])
        dt = rng.choice(["float64", "float64", "float32"])
        full = [rng.choice((2, 3)) for _ in range(rng.choice([1, 2, 3]))]
        other = full if rng.random() < 0.4 else full[rng.randint(0, len(full) - 1):]
        fmt = rng.choice(["coo", "gcxs", "dok"])
        if rng.random() < 0.5:
            shapes, fills, formats = [full, other], ["nan", 1], [fmt, "dense"]
        else:
            shapes, fills, formats = [other, full], [1, "nan"], ["dense", fmt]
        out.append({"ufunc": uf, "dtype": dt, "shapes": shapes, "fills": fills, "formats": formats, "seed": n + j})
    return out


# ------------------------------------------------------------------ Coq literals
def fmt_lit(a):
    if a["kind"] == "scipy":
        return "AScipy"
    f = a["spec"]["format"]
    if f == "coo":
        return "ACoo"
    if f == "dok":
        return "ADok"
    ca = a["spec"].get("caxes")
    nd = len(a["spec"]["shape"])
    if nd < 2:
        return "(AGcxs [])"
    if ca is None:
        ca = [min(range(nd), key=lambda i: a["spec"]["shape"][i])]      # GCXS default: argmin(shape)
    return "(AGcxs %s)" % vlist(ca)


def jarg_lit(a):
    if a["kind"] in ("sparse", "scipy"):
        return "(JSp %s %s)" % (fmt_lit(a), vlib.spec_coo_lit(a["spec"]))
    if a["kind"] == "dense":
        return "(JDn (mkDense %s %s))" % (vlist(a["shape"]), vlist(a["flat"]))
    if a["kind"] == "np0d":
        return "(JDn (mkDense [] [%s]))" % vZ(a["v"])
    return "(JSc %s)" % vZ(a["v"])


def api_lit(case, res):
    fd = vpair(vZ(fid_of(case["op"])), vlist(case.get("params", []) if case["op"] in ("clip2", "clipmin", "clipmax", "addk") else []))
    via = not (case["form"] == "method" and case["op"] in ("isnan", "isinf"))
    return vpair(fd, vbool(via), vlist(case["args"], jarg_lit), vlib.sarr_lit(res.get("out") if "out" in res else res))


def py_arg(a):
    if a["kind"] == "sparse":
        s = a["spec"]
        nd = len(s["shape"])
        idt = a.get("idx_dtype") or "intp"
        base = (f"sparse.COO(np.array({s['coords']!r}, dtype=np.{idt}).reshape({len(s['coords'])}, {nd}).T, "
                f"np.array({s['data']!r}, dtype=np.int64), shape={tuple(s['shape'])!r}, fill_value=np.int64({s['fill']}))")
        if s["format"] == "gcxs":
            ca = "" if s.get("caxes") is None or nd < 2 else f", compressed_axes={tuple(s['caxes'])!r}"
            return f"sparse.GCXS.from_coo({base}{ca})"
        if s["format"] == "dok":
            return f"sparse.DOK.from_coo({base})"
        return base
    if a["kind"] == "scipy":
        s = a["spec"]
        return (f"scipy.sparse.{a['cls']}_matrix(sparse.COO(np.array({s['coords']!r}, dtype=np.intp).reshape({len(s['coords'])}, 2).T, "
                f"np.array({s['data']!r}, dtype=np.int64), shape={tuple(s['shape'])!r}).todense())")
    if a["kind"] == "dense":
        return f"np.array({a['flat']!r}, dtype=np.int64).reshape({tuple(a['shape'])!r})"
    if a["kind"] == "pyint":
        return repr(int(a["v"]))
    if a["kind"] == "npint":
        return f"np.int64({a['v']})"
    return f"np.array({a['v']}, dtype=np.int64)"


def replay_line(case):
    return ("import json, sys; sys.path.insert(0, '/verif/tools'); import numpy as np, sparse, scipy.sparse; "
            "from props import c01; "
            f"args = [{', '.join(py_arg(a) for a in case['args'])}]; "
            f"r = c01.apply_op({case['op']!r}, {case['form']!r}, args, {case.get('params', [])!r}); "
            "print(type(r).__name__, getattr(r, 'shape', None), getattr(r, 'fill_value', None)); "
            "print(r.todense() if hasattr(r, 'todense') else r)")


API_CODES = {
    1: ("value", "no_sparse_array_operand_must_raise_ValueError"),
    2: ("value", "outcome_class_error_expected"),
    3: ("value", "outcome_class_sparse_expected"),
    4: ("value", "dense_mix_values"),
    5: ("value", "outcome_class_dense_expected"),
    6: ("value", "result_not_canonical"),
    7: ("value", "element_or_shape_differs_from_numpy"),
    8: ("value", "fill_value_not_f_of_fills"),
    9: ("value", "result_not_pruned"),
    10: ("value", "output_format"),
    11: ("representation", None),
    12: ("representation", "model_disagrees_with_spec"),
    13: ("value", "fill_value_of_0d_sparse_operand"),
}


def classify_api(case, res, code):
    kind, clause = API_CODES.get(code, ("value", f"code{code}"))
    out = res.get("out", res)
    if code in (2, 3, 5) and isinstance(out, dict):
        got = str(out.get("cls") or out.get("k") or ("hang" if out.get("hang") else "exc"))
        clause = f"{clause}:got_{got}"
    return {"property": "C01", "op": "elemwise", "call": f"{case['op']}/{case['form']}", "kind": kind, "clause": clause,
            "code": code, "group": case["group"], "layout": layout_tag([arg_shape(a) for a in case["args"]]),
            "case": case, "impl": out, "replay_py": replay_line(case)}


# ------------------------------------------------------------------ campaign
def campaign(build, tier, seed, report, budget=1):
    rng = random.Random(seed)
    viol = []
    t0 = time.time()
    api = gen_api_cases(tier, rng)
    kern = gen_kernel_cases(tier, rng)
    diff = gen_diff_cases(tier, rng)
    progs = gen_program_cases(tier, rng)
    if budget > 1:
        rng2 = random.Random(seed + 1)
        for _ in range(budget - 1):
            api += gen_api_cases(tier, rng2)
    res_api = vlib.run_impl("props.c01", "impl_api", api, workers=6)
    res_k = vlib.run_impl("props.c01", "impl_kernel", kern, workers=6)
    res_d = vlib.run_impl("props.c01", "impl_diff", diff, workers=6)
    res_p = vlib.run_impl("props.c01", "impl_program", progs, workers=6)
    t_impl = time.time() - t0

    imports = "From Verif Require Import Py Shape COO GCXS NpElemwise Elemwise SArr C01Judge."
    # ---- API level
    lits = [api_lit(c, r) for c, r in zip(api, res_api, strict=True)]
    small = [i for i, c in enumerate(api) if c["group"] != "narrow-index"]
    big = [i for i, c in enumerate(api) if c["group"] == "narrow-index"]        # ~10^3 elements each: small chunks
    bad = [(small[j], code) for j, code in
           build.judge("c01_api", imports, "api_case", "judge_api", [lits[i] for i in small], chunk=250)]
    bad += [(big[j], code) for j, code in
            build.judge("c01_apin", imports, "api_case", "judge_api", [lits[i] for i in big], chunk=3, timeout=600)]
    for i, code in bad:
        viol.append(classify_api(api[i], res_api[i], code))
    # ---- the written-out same-shape binary model = the general model
    e2 = [(c, [a["spec"] for a in c["args"]]) for c in api
          if c["group"] == "binary" and all(a["kind"] == "sparse" for a in c["args"])
          and c["args"][0]["spec"]["shape"] == c["args"][1]["spec"]["shape"]]
    lits2 = [vpair(vpair(vZ(fid_of(c["op"])), "[]"), vlib.spec_coo_lit(s[0]), vlib.spec_coo_lit(s[1])) for c, s in e2]
    bad2 = build.judge("c01_e2", imports, "(Z * list Z) * coo Z * coo Z", "judge_elemwise2", lits2, chunk=250)
    for i, code in bad2:
        viol.append({"property": "C01", "op": "elemwise2_vs_elemwise", "kind": "representation", "clause": None,
                     "code": code, "case": e2[i][0], "impl": None,
                     "replay_py": "print('model-internal: Model.Elemwise.elemwise2 differs from elemwise on this case')"})
    # ---- kernel level
    groups = {"match": [], "expand": [], "bc2": [], "nary": [], "params": [], "mcoo": []}
    for i, (c, r) in enumerate(zip(kern, res_k, strict=True)):
        groups[c["k"]].append(i)
    kinfo = {
        "match": ("list Z * list Z * list Z * list Z", "judge_match_arrays",
                  lambda c, r: vpair(vlist(c["a"]), vlist(c["b"]), vlist(r.get("ia", [-1])), vlist(r.get("ib", [])))),
        "expand": ("list idx * list Z * list Z * shape * list idx * list Z * bool", "judge_expand",
                   lambda c, r: vpair(vlist(c["coords"], vlist), vlist(c["data"]), vlist(c["params"]), vlist(c["bshape"]),
                                      vlist(r.get("coords", [[-1]]), vlist), vlist(r.get("data", [])),
                                      vbool(r.get("intp", False)))),
        "mcoo": ("list (coo Z) * shape * list (idx * list Z)", "judge_match_coo",
                 lambda c, r: vpair(vlist(c["specs"], vlib.spec_coo_lit), vlist(c["bshape"]),
                                    vlist(r.get("rows", [[[-1], []]]), lambda rw: vpair(vlist(rw[0]), vlist(rw[1]))))),
        "bc2": ("shape * shape * bool * option shape * option shape", "judge_broadcast2",
                lambda c, r: vpair(vlist(c["s1"]), vlist(c["s2"]), vbool(c["isr"]), vopt(r.get("impl"), vlist), vopt(r.get("np"), vlist))),
        "nary": ("list shape * option shape * option shape", "judge_nary",
                 lambda c, r: vpair(vlist(c["shapes"], vlist), vopt(r.get("impl"), vlist), vopt(r.get("np"), vlist))),
        "params": ("shape * shape * list Z", "judge_params",
                   lambda c, r: vpair(vlist(c["sh"]), vlist(c["bsh"]), vlist(r.get("ps", [9])))),
    }
    kernel_bad = {}
    for g, idxs in groups.items():
        ty, fn, mk = kinfo[g]
        kl = [mk(kern[i], res_k[i]) for i in idxs]
        badk = build.judge("c01_k_" + g, imports, ty, fn, kl, chunk=1000)
        kernel_bad[g] = len(badk)
        for j, code in badk:
            c = kern[idxs[j]]
            r = res_k[idxs[j]]
            spec_fail = g in ("bc2", "nary") and code == 2
            viol.append({"property": "C01", "op": "kernel:" + g,
                         "kind": "value" if (g in ("bc2", "nary") and r.get("impl") != r.get("np") and
                                             not (g == "bc2" and c.get("isr"))) else "representation",
                         "clause": "spec_vs_numpy" if spec_fail else None, "code": code, "case": c, "impl": r,
                         "replay_py": "import sys; sys.path.insert(0, '/verif/tools'); from props import c01; "
                                      f"print(c01.impl_kernel({c!r}))"})
    # ---- differential only
    dbad = [(c, r) for c, r in zip(diff, res_d, strict=True) if not r.get("ok")]
    for c, r in dbad:
        viol.append({"property": "C01", "op": "ufunc:" + c["ufunc"], "kind": "value", "clause": "differential_only",
                     "case": c, "impl": r,
                     "replay_py": "import sys; sys.path.insert(0, '/verif/tools'); from props import c01; "
                                  f"print(c01.impl_diff({c!r}))"})
    # ---- programs (multi-step, in-place / out= / re-use of earlier values) against NumPy
    pbad = [(c, r) for c, r in zip(progs, res_p, strict=True) if not r.get("ok")]
    for c, r in pbad:
        probs = r.get("problems") or [{"what": "worker", "detail": str(r)[:200]}]
        what = probs[0].get("what")
        clause = {"fresh_object": "programs_fresh_object_obligation", "value": "programs_value_after_inplace_or_reuse",
                  "exception": "programs_exception_mismatch", "dtype": "programs_dtype"}.get(what, "programs_" + str(what))
        viol.append({"property": "C01", "op": "program", "kind": "value", "clause": clause, "format": c["format"],
                     "step_kinds": [st["k"] for st in c["steps"]], "case": c, "impl": r,
                     "replay_py": "import sys; sys.path.insert(0, '/verif/tools'); from props import c01; "
                                  f"print(c01.impl_program({c!r}))"})
    # ---- coverage
    cov = report["coverage"]
    tags = {}
    for c, r in zip(api, res_api, strict=True):
        o = r.get("out", r)
        cls = o.get("k", "hang" if o.get("hang") else "exc") if isinstance(o, dict) else "?"
        if cls == "exc":
            cls = "exc:" + str(o.get("cls") or o.get("exc"))
        key = f"{c['group']}|{layout_tag([arg_shape(a) for a in c['args']])}|{cls}"
        tags[key] = tags.get(key, 0) + 1
    nontrivial = set()
    for c, r in zip(api, res_api, strict=True):
        o = r.get("out", {})
        if isinstance(o, dict) and o.get("k") in ("coo", "gcxs", "dok") and len(o.get("data", o.get("items", []))) > 0:
            nontrivial.add(vlib.digest([c["op"], c["form"], c["args"]]))
    cov["evaluations"] = len(api) + len(kern) + len(e2) + len(progs)
    cov["program_cases"] = {"cases": len(progs), "mismatches": len(pbad),
                            "with_inplace_or_out": sum(1 for c in progs if any(st["k"] in ("iop", "out", "mout") for st in c["steps"])),
                            "with_same_dtype_astype_then_update": sum(
                                1 for c in progs if any(st["k"] == "astype" for st in c["steps"])
                                and any(st["k"] in ("iop", "out", "mout") for st in c["steps"])),
                            "note": "2-5 step programs run on NumPy arrays and on sparse arrays; every variable compared at the "
                                    "end (shape, dtype, every element) + fresh-object obligations (differential, plus the "
                                    "theorems astype_object_spec / astype_copy_fresh about the generated astype condition)"}
    cov["api_cases"] = len(api)
    cov["kernel_cases"] = {g: len(v) for g, v in groups.items()}
    cov["kernel_mismatches"] = kernel_bad
    cov["elemwise2_vs_elemwise_cases"] = len(e2)
    cov["distinct_nontrivial"] = len(nontrivial)
    cov["rule"] = ("API: every shape of <= 3-d (extents 0..3) for unary ops; ALL ordered pairs of such shapes for binary "
                   "sparse x sparse (incompatible pairs sampled at 25% in the quick tier, exhaustively at kernel level); "
                   "seeded samples of sparse x {scalar, 0-d, ndarray, scipy}, ternary, in-place/out=, 4-d; operator / ufunc "
                   "/ sparse.elemwise / method forms; formats COO, GCXS (random compressed axes), DOK; fills 0 / nonzero / "
                   "mixed.  distinct_nontrivial = distinct (op, form, operands) whose result stores at least one element")
    cov["exhaustive"] = False
    cov["exhaustive_scopes"] = ("all shapes of <= 3-d with extents {0,1,2,3}: unary ops; all ordered COMPATIBLE pairs of such "
                                "shapes: binary sparse x sparse; all ordered pairs: _get_broadcast_shape (is_result=False)")
    cov["samples"] = [dict(case=api[i], impl=res_api[i]) for i in (0, len(api) // 3, 2 * len(api) // 3, len(api) - 1)]
    cov["branch_tags"] = dict(sorted(tags.items()))
    cov["differential_only"] = {
        "cases": len(diff), "mismatches": len(dbad),
        "ufuncs": sorted(set(c["ufunc"] for c in diff)), "dtypes": sorted(set(c["dtype"] for c in diff)),
        "note": "sparse result vs NumPy on the densified operands (values incl. NaN, result dtype, fill = ufunc(fills)); "
                "not covered by any theorem"}
    cov["unproved_statements"] = UNPROVED
    cov["wall_impl_s"] = round(t_impl, 1)
    return viol


UNPROVED = [
    "elemwise_api_den holds under one named domain clause of the final asformat conversion (api_hop_ok): the hop is "
    "accepted for the result's shape (Convert.hop_okb: valid compressed axes); scipy.sparse operands "
    "(COO.from_scipy_sparse) are covered by correspondence only",
    "store_programs_den models objects as whole attribute dictionaries (C11's shallow_copy_of): views of the coords/data "
    "buffers and DOK item assignment are not in the statement language; dtype changes of astype are value-preserving only",
    "ufunc dtype resolution, astype casting, float / complex semantics, overflow: differential only (coverage.differential_only)",
]


def replay(path):
    v = json.load(open(path))
    print(json.dumps({k: v[k] for k in v if k != "replay_py"}, indent=1, default=str)[:3000])
    if "replay_py" in v:
        import subprocess
        p = subprocess.run([vlib.PY, "-c", v["replay_py"]], env=vlib.env_clean(), capture_output=True, text=True)
        print("\n".join(l for l in p.stdout.splitlines() if "conda" not in l), p.stderr[-800:])
    return 0
