"""C20 — MLIR backend.  Correspondence / differential campaign.

Implementation side (worker processes with SPARSE_BACKEND=MLIR; a crash of a worker is an outcome):
  * formats._determine_format on generated format lists           -> judge_detfmt   (Model/Mlir.v)
  * asarray / to_numpy / to_scipy / add / reshape / asformat / copy on generated arrays of every
    storage format, dtype, index width, shape (1-d..4-d)           -> judge_layout (constituent arrays
    read through the Coq layout model must denote NumPy's result), judge_opfmt (inferred format),
    judge_tonumpy (order inversion); inputs' bytes compared before/after
  * lifetime scripts: every order of deleting operands/results between uses, gc.collect() after every
    step, `free_memref` instrumented: number of frees and "a held result points into freed memory"
    after every step                                               -> judge_life (ownership model)
Exclusions: exactly the combinations sparse/mlir_backend/tests/test_simple.py marks xfail (parsed from
the test file on every run and listed in the evidence)."""
import ast
import itertools
import json
import os
import random
import subprocess

import vlib
from vlib import vZ, vbool, vlist, vnat, vopt, vpair

LEVEL = "proof"
TRUSTED_BASE = [
    "Coq 8.16.1 kernel + vm_compute (case evaluation); no native_compute",
    "axioms: none (Print Assumptions: Closed under the global context for every C20 theorem)",
    "ORACLE: the numerical work of the JIT-compiled MLIR modules (linalg.generic / sparse_tensor.convert / "
    "tensor.reshape lowered by the sparsifier) is not modelled: an operation yields fresh buffers with "
    "unspecified contents; their contents are checked differentially against NumPy only",
    "NOT MODELLED: MLIR's runtime allocator and real memory safety inside the compiled code (double free / "
    "aliasing of an output with an input inside the runtime); claimed = proof of the ownership PROTOCOL "
    "(owns_memory, _hold_ref, NumPy bases) + correspondence (instrumented free_memref, pointer checks)",
    "mlir_finch.runtime.ranked_memref_to_numpy / to_numpy (outside /repo): which dtypes get a view of a view "
    "is a hand-written model function (wrapped_dtype) tied by correspondence (judge_wrapped)",
    "NumPy's rule for the base of a view of a view (base-chain collapse) as modelled by EDerive; CPython "
    "reference counting as 'collect everything unreachable after every statement' (judge side only; the "
    "theorem quantifies over every valid collector)",
    "tools/sitegen/mlir.py (AST extractor of _hold_ref / owns_memory / keyword / array-order facts), fail-closed",
    "formats._determine_format: scalar decisions translated by tools/py2v.py into Gen/S_mlir_df.v and proved equal "
    "to the model's sub-expressions (determine_format_source_tie); loop header, the tuple-slicing order update and "
    "keyword wiring are pinned by text in tools/sitegen/mlir.py and transcribed by hand (order_step), additionally "
    "tied by correspondence (judge_detfmt on generated format lists, judge_opfmt on every add/reshape result)",
    "correspondence harness tools/props/c20.py, tools/vlib.py; the Python builders of constituent arrays for "
    "CSF/COO inputs (cross-checked: every built array is read back through the Coq layout model)",
]
ASSUMPTIONS = [
    "element values are integers (complex: small integer real and imaginary parts) so that every dtype is exact",
    "add is exercised on operands of equal shape and equal dtype (the backend has no dtype promotion and no "
    "size-1 broadcasting); float rounding, overflow of narrow integers are not exercised",
    "index/pointer widths 8/16/32/64 are exercised through from_constituent_arrays (SciPy itself picks 32 or 64)",
]

TEST_FILE = "sparse/mlir_backend/tests/test_simple.py"
DT_PLAIN = ["int8", "uint8", "int16", "uint16", "int32", "uint32", "int64", "uint64", "float32", "float64"]
DT_WRAPPED = {"complex64": 1, "complex128": 2, "float16": 3}


def dt_class(dt):
    return DT_WRAPPED.get(dt, 0)


# ===================================================================== xfail table of the project
KNOWN_XFAIL = {
    ("test_add", "format1 == 'coo' or format2 == 'coo'"): "add_scipy_coo",
    ("test_add_dense_sparse", "format == 'coo'"): "add_scipy_coo",
    ("test_sparse_vector_format", "sparse.asdtype(dtype) in {sparse.complex64, sparse.complex128}"): "complex_coo1",
    ("test_reshape", "param format='csc'"): "reshape_csc",
    ("test_asformat", "'coo' in {src_fmt, dst_fmt}"): "asformat_scipy_coo",
}


def xfail_table(repo):
    """every xfail/skip mark of the backend's own tests: [(test, condition text, reason)]"""
    tree = ast.parse(open(os.path.join(repo, TEST_FILE)).read())
    out = []
    for fn in tree.body:
        if not isinstance(fn, ast.FunctionDef):
            continue
        for node in ast.walk(fn):
            if isinstance(node, ast.If):
                for st in node.body:
                    for c in ast.walk(st):
                        if isinstance(c, ast.Call) and ast.unparse(c.func) in ("pytest.xfail", "pytest.skip"):
                            reason = ast.unparse(c.args[0]) if c.args else ast.unparse(c.keywords[0].value)
                            out.append((fn.name, ast.unparse(node.test), reason))
        for dec in fn.decorator_list:
            for c in ast.walk(dec):
                if isinstance(c, ast.Call) and ast.unparse(c.func) == "pytest.param":
                    marks = [k.value for k in c.keywords if k.arg == "marks"]
                    if marks and ("xfail" in ast.unparse(marks[0]) or "skip" in ast.unparse(marks[0])):
                        argname = ast.unparse(dec.args[0]).strip("'\"") if isinstance(dec, ast.Call) else "?"
                        out.append((fn.name, f"param {argname}={ast.unparse(c.args[0])}", ast.unparse(marks[0])))
        # unconditional xfail/skip decorators
        for dec in fn.decorator_list:
            s = ast.unparse(dec)
            if s.startswith("pytest.mark.xfail") or s.startswith("pytest.mark.skip"):
                out.append((fn.name, "always", s))
    return out


def exclusions(repo, report):
    tab = xfail_table(repo)
    classes = set()
    unknown = []
    for t, cond, reason in tab:
        k = KNOWN_XFAIL.get((t, cond))
        if k is None:
            unknown.append((t, cond, reason))
        else:
            classes.add(k)
    report["coverage"]["project_xfail_marks"] = [dict(test=t, condition=c, reason=r, excluded_class=KNOWN_XFAIL.get((t, c)))
                                                 for t, c, r in tab]
    if unknown:
        raise RuntimeError(f"unrecognised xfail/skip marks in {TEST_FILE}: {unknown} — update KNOWN_XFAIL")
    return classes


def excluded(case, classes):
    """name of the project-xfail class a numeric case falls in, or None"""
    op = case["op"]
    kinds = [s["kind"] for s in case["operands"]]
    dst = case.get("dst", {}).get("kind")
    if "complex_coo1" in classes and case["dtype"].startswith("complex") and \
            any(s["kind"] == "coo" and s["ndim"] == 1 for s in case["operands"] + ([case["dst"]] if "dst" in case else [])):
        return "complex_coo1"
    if op == "add" and "add_scipy_coo" in classes and any(_is_coo2(s) for s in case["operands"]):
        return "add_scipy_coo"
    if op == "asformat" and "asformat_scipy_coo" in classes and (_is_coo2(case["operands"][0]) or _is_coo2(case["dst"])):
        return "asformat_scipy_coo"
    if op == "reshape" and "reshape_csc" in classes and kinds[0] in ("scipy_csc",) :
        return "reshape_csc"
    if op == "reshape" and "reshape_csc" in classes and kinds[0] == "csf" and case["operands"][0]["ndim"] == 2 \
            and case["operands"][0].get("order") == [1, 0]:
        return "reshape_csc"
    del dst
    return None


def _is_coo2(s):
    return s["kind"] == "scipy_coo" or (s["kind"] == "coo" and s["ndim"] == 2)


# ===================================================================== worker side (MLIR process)
_W = {}


def _setup():
    """import the backend once per worker; instrument free_memref"""
    if _W:
        return _W
    import warnings
    warnings.filterwarnings("ignore")
    import numpy as np
    import scipy.sparse as sps
    import sparse
    assert sparse._BACKEND.value == "MLIR", sparse._BACKEND
    from sparse.mlir_backend import formats as F
    log = []
    orig = F.free_memref

    def logged_free(obj):
        log.append(int(obj.allocated))
        orig(obj)
    F.free_memref = logged_free
    _W.update(np=np, sps=sps, sparse=sparse, F=F, free_log=log)
    return _W


def _enc(np, a):
    """integer encoding of integer-valued arrays (complex: re*1024+im)"""
    a = np.asarray(a)
    if np.iscomplexobj(a):
        return [int(round(float(v.real))) * 1024 + int(round(float(v.imag))) for v in a.reshape(-1)]
    return [int(v) for v in a.reshape(-1).astype(object)] if a.dtype.kind in "iu" else [int(round(float(v))) for v in a.reshape(-1)]


def _make_dense(np, shape, dtype, seed, density=0.5):
    rng = np.random.default_rng(seed)
    n = int(np.prod(shape)) if len(shape) else 1
    mask = rng.random(n) < density
    dt = np.dtype(dtype)
    if dt.kind == "u":
        vals = rng.integers(1, 10, size=n)
    else:
        vals = rng.integers(1, 10, size=n) * rng.choice([-1, 1], size=n)
    out = (vals * mask).astype(np.int64)
    if dt.kind == "c":
        im = rng.integers(0, 10, size=n) * mask
        return (out + 1j * im).astype(dt).reshape(shape)
    return out.astype(dt).reshape(shape)


def _relayout(np, a, layout):
    """the same values in another memory layout: F (np.asfortranarray), Fcopy (copy(order="F")), T (transposed
    view of a C array), sliced (every other element of the last axis of a larger array), rev (reversed first axis)"""
    if layout in (None, "C") or a.ndim == 0:
        return a
    if layout == "F":
        return np.asfortranarray(a)
    if layout == "Fcopy":
        return a.copy(order="F")
    if layout == "T":
        base = np.ascontiguousarray(a.T)          # C array of the reversed shape
        return base.T
    if layout == "sliced":
        big = np.zeros(a.shape[:-1] + (2 * a.shape[-1],), dtype=a.dtype)
        big[..., ::2] = a
        return big[..., ::2]
    if layout == "rev":
        return np.ascontiguousarray(a[::-1])[::-1]
    raise ValueError(layout)


def _levels(F, kind, ndim):
    if kind == "dense":
        return F.Dense()._get_levels_from_ndim(ndim)
    if kind == "csf":
        return F.Csf()._get_levels_from_ndim(ndim)
    if kind == "coo":
        return F.Coo()._get_levels_from_ndim(ndim)
    raise ValueError(kind)


def _build_arrays(np, dense, levels, order, pw, cw):
    """constituent arrays (pos/crd..., values) of `dense` under the level list and dimension order.
    Independent of the backend (used to build CSF / COO / permuted-dense inputs)."""
    T = np.transpose(dense, order) if dense.ndim else dense
    lsh = T.shape
    nd = len(lsh)
    fm = [lv.format.value for lv in levels]
    pdt, cdt = np.dtype(f"int{pw}"), np.dtype(f"int{cw}")
    arrays = []
    if nd and fm[0] == "compressed" and all(f == "singleton" for f in fm[1:]):
        nz = np.argwhere(T != 0)                      # lexicographic
        arrays.append(np.array([0, len(nz)], dtype=pdt))
        for ax in range(nd):
            arrays.append(nz[:, ax].astype(cdt))
        arrays.append(np.array([T[tuple(ix)] for ix in nz], dtype=dense.dtype))
        return arrays
    prefixes = [()]
    for l in range(nd):
        if fm[l] == "dense":
            prefixes = [p + (i,) for p in prefixes for i in range(lsh[l])]
        elif fm[l] == "compressed":
            pos, crd, new = [0], [], []
            for p in prefixes:
                for i in range(lsh[l]):
                    if np.any(T[p + (i,)] != 0):
                        crd.append(i)
                        new.append(p + (i,))
                pos.append(len(crd))
            arrays.append(np.array(pos, dtype=pdt))
            arrays.append(np.array(crd, dtype=cdt))
            prefixes = new
        else:
            raise ValueError("builder: unsupported level mix")
    arrays.append(np.array([T[p] for p in prefixes], dtype=dense.dtype))
    return arrays


def _densify(np, fmt, shape, arrays):
    """dense meaning of constituent arrays (mirror of Model/Mlir.v walk); duplicates are summed"""
    order = list(fmt.order)
    fm = [lv.format.value for lv in fmt.levels]
    lsh = [shape[o] for o in order]
    out = np.zeros(shape, dtype=arrays[-1].dtype)
    idx = 0
    per = []
    for f in fm:
        if f == "compressed":
            per.append((arrays[idx], arrays[idx + 1]))
            idx += 2
        elif f == "singleton":
            per.append((None, arrays[idx]))
            idx += 1
        else:
            per.append(None)
    vals = arrays[-1]

    def rec(l, p, lc):
        if l == len(fm):
            d = [0] * len(fm)
            for k, o in enumerate(order):
                d[o] = lc[k]
            out[tuple(d)] += vals[p]
            return
        if fm[l] == "dense":
            for i in range(lsh[l]):
                rec(l + 1, p * lsh[l] + i, lc + [i])
        elif fm[l] == "compressed":
            pos, crd = per[l]
            for k in range(int(pos[p]), int(pos[p + 1])):
                rec(l + 1, k, lc + [int(crd[k])])
        else:
            rec(l + 1, p, lc + [int(per[l][1][p])])
    rec(0, 0, [])
    return out


def _fmt_of_spec(W, spec, dtype):
    F = W["F"]
    fac = {"dense": F.Dense, "csf": F.Csf, "coo": F.Coo}[spec["kind"]]()
    fac = fac.with_ndim(spec["ndim"]).with_dtype(W["np"].dtype(dtype)).with_pos_width(spec.get("pw", 64)) \
             .with_crd_width(spec.get("cw", 64))
    if spec.get("order") is not None:
        fac = fac.with_order(tuple(spec["order"]))
    return fac.build()


def _noncanonical(np, sps, m, how):
    """a csr/csc container denoting the same matrix as the canonical m, with unsorted indices inside each
    row ("unsorted") or every stored entry split in two entries at the same index ("dup")"""
    ptr, idx, dat = m.indptr, m.indices, m.data
    nptr, nidx, ndat = [0], [], []
    for r in range(len(ptr) - 1):
        js = list(range(int(ptr[r]), int(ptr[r + 1])))
        if how == "unsorted":
            js = js[::-1]
        for k in js:
            if how == "dup":
                v = dat[k]
                a, b = (v, v - v) if m.dtype.kind == "u" else (v + v, -v)
                nidx += [idx[k], idx[k]]
                ndat += [a, b]
            else:
                nidx.append(idx[k])
                ndat.append(dat[k])
        nptr.append(len(nidx))
    cls = sps.csr_array if m.format == "csr" else sps.csc_array
    return cls((np.array(ndat, dtype=m.dtype), np.array(nidx, dtype=idx.dtype), np.array(nptr, dtype=ptr.dtype)),
               shape=m.shape)


def _strided(np, a):
    """the same values as a non-contiguous view (every other element of a larger buffer)"""
    big = np.zeros(2 * a.size + 1, dtype=a.dtype)
    big[::2][:a.size] = a
    v = big[::2][:a.size]
    assert a.size < 2 or not v.flags["C_CONTIGUOUS"]
    return v


def _make_operand(W, spec, dense, copy=None):
    """-> (Array, inputs kept alive [ndarrays], the scipy object or None)"""
    np, sps, sparse = W["np"], W["sps"], W["sparse"]
    k = spec["kind"]
    if k.startswith("scipy_"):
        m = {"scipy_csr": sps.csr_array, "scipy_csc": sps.csc_array, "scipy_coo": sps.coo_array}[k](dense)
        if spec.get("stored_zeros") and dense.ndim == 2:
            # the same matrix with up to three of its zeros STORED explicitly (canonical for scipy: sorted, no duplicates);
            # the earliest zeros are taken so that stored non-zeros follow them (seeded C20-m5: pos[1] = count_nonzero)
            d2 = dense.copy()
            for q in np.argwhere(dense == 0)[:3]:
                d2[tuple(q)] = 1
            mc = sps.coo_array(d2)
            mc.data[dense[mc.row, mc.col] == 0] = 0
            m = {"scipy_csr": mc.tocsr, "scipy_csc": mc.tocsc, "scipy_coo": lambda: mc}[k]()
            assert np.array_equal(m.toarray(), dense)
        if spec.get("noncanon"):
            m = _noncanonical(np, sps, m, spec["noncanon"])
        if k == "scipy_coo":
            ins = [m.row, m.col, m.data]
        else:
            ins = [m.indptr, m.indices, m.data]
        return sparse.asarray(m, copy=copy), ins, m
    if k == "dense" and spec.get("order") in (None, list(range(spec["ndim"]))) and spec.get("via") != "arrays" \
            and not spec.get("strided"):
        src = _relayout(np, dense, spec.get("layout"))
        assert np.array_equal(src, dense)
        return sparse.asarray(src, copy=copy), [src], None
    fmt = _fmt_of_spec(W, spec, dense.dtype)
    arrs = _build_arrays(np, dense, fmt.levels, fmt.order, fmt.pos_width, fmt.crd_width)
    if spec.get("strided"):
        arrs = [_strided(np, a) for a in arrs]
    return sparse.from_constituent_arrays(format=fmt, arrays=tuple(arrs), shape=dense.shape), arrs, None


def _fmt_lit(fmt):
    code = {"dense": 0, "compressed": 1, "singleton": 2}
    return [[[code[lv.format.value], int(lv.properties.value)] for lv in fmt.levels], [int(o) for o in fmt.order],
            int(fmt.pos_width), int(fmt.crd_width)]


def _describe(W, arr):
    np = W["np"]
    arrs = arr.get_constituent_arrays()
    return {"fmt": _fmt_lit(arr.format), "shape": [int(s) for s in arr.shape],
            "idx": [[int(v) for v in a] for a in arrs[:-1]], "data": _enc(np, arrs[-1]),
            "dtype": str(arr.dtype.np_dtype), "idx_dtypes": [str(a.dtype) for a in arrs[:-1]],
            "fields": [f[0] for f in arr._storage._fields_]}


def impl_detfmt(case):
    W = _setup()
    np, F = W["np"], W["F"]
    fl, union, out_ndim = case
    LF = {0: F.LevelFormat.Dense, 1: F.LevelFormat.Compressed, 2: F.LevelFormat.Singleton}
    fmts = []
    for lv, order, pw, cw in fl:
        levels = tuple(F.Level(LF[c], F.LevelProperties(p)) for c, p in lv)
        fmts.append(F.get_concrete_format(levels=levels, order=tuple(order), pos_width=pw, crd_width=cw, dtype=np.float64))
    try:
        r = F._determine_format(*fmts, dtype=np.float64, union=union, out_ndim=out_ndim)
        return {"fmt": _fmt_lit(r), "exc": None}
    except ValueError:
        return {"fmt": None, "exc": "ValueError"}
    except Exception as ex:  # noqa: BLE001
        return {"fmt": None, "exc": type(ex).__name__}


def impl_wrapped(dtype):
    W = _setup()
    np, sparse = W["np"], W["sparse"]
    a = sparse.asarray(np.arange(4).astype(dtype))
    (v,) = a.get_constituent_arrays()
    return {"base_is_ndarray": isinstance(v.base, np.ndarray)}


def impl_numeric(case):
    W = _setup()
    np, sps, sparse = W["np"], W["sps"], W["sparse"]
    op, dtype = case["op"], case["dtype"]
    denses = [_make_dense(np, tuple(s["shape"]), dtype, case["seed"] + 17 * i, case.get("density", 0.5))
              for i, s in enumerate(case["operands"])]
    ops, keep, snaps = [], [], []
    out = {"inputs": []}
    for s, d in zip(case["operands"], denses, strict=True):
        if case.get("copy") is False and s["kind"] == "dense" and s.get("layout") \
                and not _relayout(np, d, s["layout"]).flags["C_CONTIGUOUS"]:
            try:
                _make_operand(W, s, d, copy=False)
            except NotImplementedError:
                return {"rejected_noncontiguous_copy_false": True}      # the documented behaviour
            return {"exc": "NoError", "msg": "copy=False accepted a non-C-contiguous array (it cannot alias it)"}
        a, ins, m = _make_operand(W, s, d, copy=case.get("copy"))
        if s["kind"] == "dense":
            out.setdefault("layout_flags", []).append([bool(ins[0].flags["C_CONTIGUOUS"]), bool(ins[0].flags["F_CONTIGUOUS"])])
        ops.append(a)
        keep.append((ins, m))
        snaps.append([x.tobytes() for x in ins])
        out["inputs"].append(_describe(W, a))
        out["inputs"][-1]["expected"] = _enc(np, d)
    res = None
    if op == "roundtrip":
        a = ops[0]
        spec = case["operands"][0]
        if spec["kind"].startswith("scipy_"):
            back = sparse.to_scipy(a)
            m = keep[0][1]
            same = back.format == m.format and back.shape == m.shape and back.dtype == m.dtype
            if m.format == "coo":
                same = same and np.array_equal(back.row, m.row) and np.array_equal(back.col, m.col)
            else:
                same = same and np.array_equal(back.indptr, m.indptr) and np.array_equal(back.indices, m.indices)
            same = same and np.array_equal(back.data, m.data) and np.array_equal(back.toarray(), denses[0])
            out["roundtrip_ok"] = bool(same)
        elif sparse.formats.Dense.is_this_format(a.format):
            back = sparse.to_numpy(a)
            out["roundtrip_ok"] = bool(back.shape == denses[0].shape and back.dtype == denses[0].dtype
                                       and np.array_equal(back, denses[0]))
            out["tonumpy"] = {"order": [int(o) for o in a.format.order], "shape": [int(x) for x in a.shape],
                              "data": out["inputs"][0]["data"], "rshape": [int(x) for x in back.shape],
                              "rflat": _enc(np, np.ascontiguousarray(back))}
        else:
            back = _densify(np, a.format, a.shape, a.get_constituent_arrays())
            out["roundtrip_ok"] = bool(np.array_equal(back, denses[0]))
        expected = denses[0]
    elif op == "copy":
        a = ops[0]
        c = a.copy()
        before = _describe(W, c)
        orig = denses[0].copy()
        for x in keep[0][0]:
            if x.size:
                x.reshape(-1)[0] = x.reshape(-1)[0] + 1      # mutate the inputs behind `a`
        after = _describe(W, c)
        out["copy_independent"] = before == after
        snaps[0] = [x.tobytes() for x in keep[0][0]]
        res, expected = c, orig
    elif op == "add":
        res = sparse.add(ops[0], ops[1])
        expected = denses[0] + denses[1]
    elif op == "reshape":
        res = sparse.reshape(ops[0], tuple(case["new_shape"]))
        expected = denses[0].reshape(tuple(case["new_shape"]))
    elif op == "add_reshape":
        mid = sparse.add(ops[0], ops[1])
        out["mid"] = _describe(W, mid)
        out["mid_expected"] = _enc(np, denses[0] + denses[1])
        res = sparse.reshape(mid, tuple(case["new_shape"]))
        expected = (denses[0] + denses[1]).reshape(tuple(case["new_shape"]))
    elif op == "asformat":
        dst = _fmt_of_spec(W, case["dst"], dtype) if not case["dst"]["kind"].startswith("scipy_") else \
            sparse.asarray({"scipy_csr": sps.csr_array, "scipy_csc": sps.csc_array,
                            "scipy_coo": sps.coo_array}[case["dst"]["kind"]](denses[0])).format
        res = ops[0].asformat(dst)
        out["dst_fmt"] = _fmt_lit(dst)
        expected = denses[0]
    else:
        raise ValueError(op)
    out["expected"] = _enc(np, expected)
    out["expected_shape"] = [int(s) for s in expected.shape]
    if res is not None:
        out["result"] = _describe(W, res)
        out["dtype_ok"] = bool(res.dtype.np_dtype == np.dtype(dtype))
        # API-level read-back
        try:
            if sparse.formats.Dense.is_this_format(res.format):
                back = sparse.to_numpy(res)
                out["api_ok"] = bool(back.shape == expected.shape and np.array_equal(back, expected))
                out["tonumpy"] = {"order": [int(o) for o in res.format.order], "shape": [int(x) for x in res.shape],
                                  "data": out["result"]["data"], "rshape": [int(x) for x in back.shape],
                                  "rflat": _enc(np, np.ascontiguousarray(back))}
            else:
                try:
                    back = sparse.to_scipy(res)
                    out["api_ok"] = bool(np.array_equal(back.toarray(), expected))
                except RuntimeError:
                    out["api_ok"] = None
        except Exception as ex:  # noqa: BLE001
            out["api_ok"] = False
            out["api_exc"] = type(ex).__name__
    out["inputs_unchanged"] = all(x.tobytes() == s for (ins, _m), sn in zip(keep, snaps, strict=True)
                                  for x, s in zip(ins, sn, strict=True))
    return out


def impl_wide(case):
    """add / add->reshape of 2-d CSF operands given by explicit entries, with extents beyond what a dense
    array can hold (coordinates that need the full coordinate width)"""
    W = _setup()
    np, sparse = W["np"], W["sparse"]
    F = sparse.formats
    shape, pw, cw, dtype = tuple(case["shape"]), case["pw"], case["cw"], case["dtype"]

    def mk(entries):
        rows = {}
        for (i, j, v) in sorted(entries):
            rows.setdefault(i, []).append((j, v))
        pos, crd, data = [0], [], []
        for i in range(shape[0]):
            for j, v in rows.get(i, []):
                crd.append(j)
                data.append(v)
            pos.append(len(crd))
        fmt = F.Csf().with_ndim(2).with_dtype(np.dtype(dtype)).with_pos_width(pw).with_crd_width(cw).build()
        arrs = (np.array(pos, dtype=f"int{pw}"), np.array(crd, dtype=f"int{cw}"), np.array(data, dtype=dtype))
        return sparse.from_constituent_arrays(format=fmt, arrays=arrs, shape=shape), arrs
    (a, ka), (b, kb) = mk(case["e1"]), mk(case["e2"])
    snaps = [x.tobytes() for x in ka + kb]
    out = {"inputs": [_describe(W, a), _describe(W, b)]}
    r = sparse.add(a, b)
    out["add"] = _describe(W, r)
    if case.get("new_shape"):
        q = sparse.reshape(r, tuple(case["new_shape"]))
        out["reshape"] = _describe(W, q)
    out["inputs_unchanged"] = all(x.tobytes() == s_ for x, s_ in zip(ka + kb, snaps, strict=True))
    return out


# ---------------------------------------------------------------- lifetime scripts
def impl_life(case):
    """run a script; after every instruction: gc.collect(), number of free_memref calls so far, whether a held
    result points into memory freed since it was created, whether every held object still has its value"""
    import gc
    W = _setup()
    np, sps, sparse = W["np"], W["sps"], W["sparse"]
    log = W["free_log"]
    base = len(log)
    dtype, shape = case["dtype"], tuple(case["shape"])
    V, EXP, BORN, KIND, META = {}, {}, {}, {}, {}
    obs = []
    import weakref
    nplog = []          # (address, nbytes) of NumPy-owned buffers whose owner has died
    tracked = []

    def track(arr):
        """log the death of the ndarray that owns arr's memory (NumPy frees the buffer then)"""
        owner = arr
        while isinstance(owner.base, np.ndarray):
            owner = owner.base
        if owner.base is not None or not owner.flags["OWNDATA"] or any(t() is owner for t in tracked):
            return
        tracked.append(weakref.ref(owner))
        weakref.finalize(owner, nplog.append, (int(owner.__array_interface__["data"][0]), int(owner.nbytes)))

    def track_held_by(storage):
        """the ndarrays a storage keeps alive through _hold_ref (weakref.finalize registry)"""
        for info in list(weakref.finalize._registry.values()):
            try:
                if info.weakref() is storage and info.args and hasattr(info.args[0], "value") \
                        and isinstance(info.args[0].value, np.ndarray):
                    track(info.args[0].value)
            except Exception:  # noqa: BLE001
                pass
    nbs = []
    seedc = [case["seed"]]

    def comps(x):
        if isinstance(x, np.ndarray):
            return [x]
        if isinstance(x, tuple):
            return list(x)
        if sps.issparse(x):
            return [x.data] + ([x.row, x.col] if x.format == "coo" else [x.indices, x.indptr])
        return []

    def value(name):
        x = V[name]
        k = KIND[name]
        if k == "np":
            return x
        if k == "sps":
            return x.toarray()
        if k == "array":
            if sparse.formats.Dense.is_this_format(x.format) and list(x.format.order) == list(range(x.ndim)):
                return np.array(sparse.to_numpy(x))
            return _densify(np, x.format, x.shape, x.get_constituent_arrays())
        if k == "arrays":
            fmt, shp = META[name]
            return _densify(np, fmt, shp, x)
        raise ValueError(k)

    for ins in case["script"]:
        t = ins[0]
        nb = 0
        if t == "np":
            seedc[0] += 1
            V[ins[1]] = _make_dense(np, shape, dtype, seedc[0]).copy()
            track(V[ins[1]])
            KIND[ins[1]] = "np"
            EXP[ins[1]] = V[ins[1]].copy()
        elif t == "sps":
            seedc[0] += 1
            d = _make_dense(np, shape, dtype, seedc[0])
            V[ins[1]] = {"csr": sps.csr_array, "csc": sps.csc_array, "coo": sps.coo_array}[ins[2]](d)
            for comp in comps(V[ins[1]]):
                track(comp)
            comp = None
            KIND[ins[1]] = "sps"
            EXP[ins[1]] = d.copy()
        elif t in ("asarray", "asarray_sps"):
            V[ins[1]] = sparse.asarray(V[ins[2]])
            track_held_by(V[ins[1]]._storage)
            KIND[ins[1]] = "array"
            EXP[ins[1]] = EXP[ins[2]].copy()
        elif t == "op":
            _t, opn, d, args, extra = ins
            xs = [V[a] for a in args]
            if opn == "add":
                r = sparse.add(xs[0], xs[1])
                e = EXP[args[0]] + EXP[args[1]]
            elif opn == "reshape":
                r = sparse.reshape(xs[0], tuple(extra))
                e = EXP[args[0]].reshape(tuple(extra))
            else:
                if extra == "csc":
                    fmt = sparse.asarray(sps.csc_array(EXP[args[0]])).format
                elif extra == "csr":
                    fmt = sparse.asarray(sps.csr_array(EXP[args[0]])).format
                else:
                    fmt = sparse.formats.Dense().with_ndim(xs[0].ndim).with_dtype(np.dtype(dtype)).build()
                r = xs[0].asformat(fmt)
                e = EXP[args[0]].copy()
            del xs
            nb = len(r._storage._fields_)
            V[d], KIND[d], EXP[d] = r, "array", e
        elif t == "same":
            V[ins[1]] = V[ins[2]].asformat(V[ins[2]].format)
            KIND[ins[1]], EXP[ins[1]] = "array", EXP[ins[2]].copy()
        elif t == "to_numpy":
            V[ins[1]] = sparse.to_numpy(V[ins[2]])
            KIND[ins[1]], EXP[ins[1]] = "np", EXP[ins[2]].copy()
        elif t == "arrays":
            a = V[ins[2]]
            arrs = a.get_constituent_arrays()
            nb = len(arrs)
            V[ins[1]] = arrs
            META[ins[1]] = (a.format, tuple(a.shape))
            KIND[ins[1]], EXP[ins[1]] = "arrays", EXP[ins[2]].copy()
        elif t == "to_scipy":
            a = V[ins[2]]
            nb = len(a._storage._fields_)
            V[ins[1]] = sparse.to_scipy(a)
            KIND[ins[1]], EXP[ins[1]] = "sps", EXP[ins[2]].copy()
        elif t == "copy":
            a = V[ins[2]]
            nb = len(a._storage._fields_)
            V[ins[1]] = a.copy()
            track_held_by(V[ins[1]]._storage)
            KIND[ins[1]], EXP[ins[1]] = "array", EXP[ins[2]].copy()
        elif t == "del":
            V.pop(ins[1], None)
            META.pop(ins[1], None)
            KIND.pop(ins[1], None)
            EXP.pop(ins[1], None)
            BORN.pop(ins[1], None)
        else:
            raise ValueError(t)
        if t != "del":
            BORN[ins[1] if t not in ("op",) else ins[2]] = (len(log), len(nplog))
        a = r = xs = arrs = None  # noqa: F841
        gc.collect()
        dang = False
        for name, k in KIND.items():
            if k in ("np", "sps", "arrays"):
                for c in comps(V[name]):
                    if not c.size:
                        continue
                    addr = int(c.__array_interface__["data"][0])
                    if addr in log[BORN[name][0]:] or any(a0 <= addr < a0 + nb0 for a0, nb0 in nplog[BORN[name][1]:]):
                        dang = True
                c = None
        ok = True
        if not dang:
            for name, k in list(KIND.items()):
                got = value(name)
                if got.shape != EXP[name].shape or not np.array_equal(got, EXP[name]):
                    ok = False
                got = None
            gc.collect()
        obs.append([len(log) - base, dang, ok])
        nbs.append(nb)
    V.clear()
    gc.collect()
    return {"obs": obs, "nbs": nbs}


# ===================================================================== generators (checker side)
SHAPES = {1: [(5,), (1,), (8,)], 2: [(3, 4), (1, 5), (4, 1), (2, 2)], 3: [(2, 3, 4), (1, 2, 3), (3, 1, 2)],
          4: [(2, 3, 2, 2), (1, 2, 1, 3)]}
RESHAPES = [((3, 4), (2, 6)), ((3, 4), (12,)), ((3, 4), (2, 3, 2)), ((4, 1), (4,)), ((4, 1), (2, 2)),
            ((2, 3, 4), (4, 6)), ((2, 3, 4), (2, 12)), ((2, 3, 4), (6, 4, 1)), ((2, 3, 4), (24,)),
            ((2, 2, 4), (4, 4, 1)), ((2, 2, 4), (2, 1, 8)), ((12,), (3, 4)), ((12,), (2, 3, 2)), ((8,), (2, 2, 2)),
            ((2, 3, 2, 2), (6, 4)), ((2, 3, 2, 2), (2, 3, 4)), ((3, 4), (1, 3, 2, 2)), ((2, 3, 4), (2, 3, 2, 2))]


def spec_variants(ndim, rng, widths=(64,)):
    """storage-format specs available at a rank"""
    out = [dict(kind="dense", ndim=ndim)]
    if ndim >= 2:
        # the same dense input in another memory layout (F-contiguous-only, transposed view, non-contiguous)
        out.append(dict(kind="dense", ndim=ndim, layout=rng.choice(["F", "T", "Fcopy"])))
        out.append(dict(kind="dense", ndim=ndim, layout=rng.choice(["sliced", "rev", "T"])))
    w = rng.choice(widths)
    if ndim == 2:
        out += [dict(kind="scipy_csr", ndim=2), dict(kind="scipy_csc", ndim=2), dict(kind="scipy_coo", ndim=2),
                dict(kind="scipy_coo", ndim=2, stored_zeros=True),
                dict(kind=rng.choice(["scipy_csr", "scipy_csc"]), ndim=2, stored_zeros=True),
                dict(kind="csf", ndim=2, pw=w, cw=w), dict(kind="csf", ndim=2, order=[1, 0], pw=w, cw=w)]
    if ndim >= 2:
        out.append(dict(kind="csf", ndim=ndim, pw=w, cw=w))
        pw_, cw_ = rng.choice([(8, 16), (16, 32), (32, 64), (8, 64)])
        out.append(dict(kind="csf", ndim=ndim, pw=pw_, cw=cw_))                          # pointer narrower than coordinate
        out.append(dict(kind="dense", ndim=ndim, order=list(reversed(range(ndim)))))      # "F" level order
    if ndim in (1, 3, 4):
        out.append(dict(kind="coo", ndim=ndim, pw=w, cw=w))
    return out


def numeric_cases(tier, rng):
    quick = tier == "quick"
    dts_main = ["float64", "int32", "complex128"] if quick else DT_PLAIN + ["complex64", "complex128"]
    widths = (64, 32) if quick else (8, 16, 32, 64)
    cases = []
    seed = rng.randrange(10 ** 6)

    def shp(spec, shape):
        s = dict(spec)
        s["shape"] = list(shape)
        return s
    # --- roundtrips: every format x dtype x some shapes (all dtypes even in quick: no JIT involved)
    for dt in DT_PLAIN + ["complex64", "complex128", "float16"]:
        for nd in (1, 2, 3, 4):
            shapes = SHAPES[nd] if not quick else SHAPES[nd][:2]
            for shape in shapes:
                for spec in spec_variants(nd, rng, (8, 16, 32, 64)):
                    if quick and rng.random() < 0.5 and spec["kind"] != "dense":
                        continue
                    if dt == "float16" and spec["kind"].startswith("scipy_"):
                        continue            # scipy.sparse has no float16
                    seed += 1
                    cases.append(dict(op="roundtrip", dtype=dt, operands=[shp(spec, shape)], seed=seed,
                                      copy=rng.choice([None, None, True, False])))
    # dense inputs of every memory layout x copy mode (conversion stream); shapes include the degenerate ones
    # that are both C- and F-contiguous
    for dt in (["float64", "int32", "complex64"] if quick else DT_PLAIN + ["complex64", "complex128", "float16"]):
        for shape in [(3, 4), (1, 5), (4, 1), (2, 3, 4), (2, 1, 3), (2, 3, 2, 2), (5,)]:
            if quick and dt != "float64" and shape not in [(3, 4), (2, 3, 4)]:
                continue
            for layout in ("C", "F", "Fcopy", "T", "sliced", "rev"):
                for cp in (None, True, False):
                    seed += 1
                    cases.append(dict(op="roundtrip", dtype=dt, seed=seed, copy=cp,
                                      operands=[shp(dict(kind="dense", ndim=len(shape), layout=layout), shape)]))
    # dense level orders (asformat to a permuted dense format, then to_numpy)
    for nd in (2, 3, 4):
        perms = list(itertools.permutations(range(nd)))
        if quick and nd == 4:
            perms = rng.sample(perms, 6)
        for p in perms:
            seed += 1
            cases.append(dict(op="asformat", dtype=rng.choice(["int32", "float64", "int64"]),
                              operands=[shp(dict(kind="dense", ndim=nd), SHAPES[nd][0])],
                              dst=dict(kind="dense", ndim=nd, order=list(p)), seed=seed))
    # copy
    for dt in (["float64", "int16"] if quick else DT_PLAIN):
        for nd in (1, 2, 3):
            for spec in spec_variants(nd, rng):
                seed += 1
                cases.append(dict(op="copy", dtype=dt, operands=[shp(spec, SHAPES[nd][0])], seed=seed))
    # --- add: all pairs of formats at each rank
    for dt in dts_main:
        for nd in (1, 2, 3, 4):
            specs = spec_variants(nd, rng, widths)
            shapes = SHAPES[nd][:1] if quick else SHAPES[nd][:2]
            for shape in shapes:
                pairs = list(itertools.product(specs, specs))
                if quick and len(pairs) > 12:
                    pairs = rng.sample(pairs, 12)
                for a, b in pairs:
                    seed += 1
                    cases.append(dict(op="add", dtype=dt, operands=[shp(a, shape), shp(b, shape)], seed=seed))
    # --- reshape
    for dt in dts_main:
        rs = RESHAPES if not quick else rng.sample(RESHAPES, 9)
        for s0, s1 in rs:
            specs = spec_variants(len(s0), rng, widths)
            if quick:
                specs = rng.sample(specs, min(3, len(specs)))
            for a in specs:
                seed += 1
                cases.append(dict(op="reshape", dtype=dt, operands=[shp(a, s0)], new_shape=list(s1), seed=seed))
    # --- two-step add -> reshape with pointer width < coordinate width (dense-judged, small extents)
    for dt in (["float64"] if quick else ["float64", "int32", "int16"]):
        for pw_, cw_, s0, s1 in ((8, 16, (4, 100), (400,)), (8, 16, (2, 150), (300,)), (16, 32, (3, 50), (150,))):
            a = dict(kind="csf", ndim=2, pw=pw_, cw=cw_)
            seed += 1
            # few enough stored entries for the POINTER width (nnz < 2^(pos_width-1)); the coordinates of the
            # flattened result need the coordinate width
            cases.append(dict(op="add_reshape", dtype=dt, operands=[shp(a, s0), shp(a, s0)], new_shape=list(s1),
                              seed=seed, density=0.08))
    # --- asformat: all ordered pairs of formats at each rank
    for dt in (["float64", "int32"] if quick else dts_main):
        for nd in (1, 2, 3, 4):
            specs = spec_variants(nd, rng, widths)
            pairs = [(a, b) for a in specs for b in specs]
            if quick and len(pairs) > 10:
                pairs = rng.sample(pairs, 10)
            for a, b in pairs:
                seed += 1
                cases.append(dict(op="asformat", dtype=dt, operands=[shp(a, SHAPES[nd][0])], dst=dict(b), seed=seed))
    return cases


WIDE = [  # (pos_width, crd_width, shape for add, (shape, new_shape) for add->reshape)
    (8, 16, (3, 300), ((4, 100), (400,))),
    (16, 32, (2, 40000), ((4, 10000), (40000,))),
    (32, 64, (2, 2 ** 31 + 1000), ((2, 2 ** 30 + 8), (2 ** 31 + 16,))),
]


def wide_cases(tier, rng):
    """operands whose pointer width is narrower than their coordinate width, with coordinates that do not fit
    the pointer width: the result must keep the coordinate width (max over the operands' crd_width)"""
    cases = []
    reps = 1 if tier == "quick" else 4
    for pw, cw, shape, (s2, new) in WIDE:
        lim = 2 ** (pw - 1)
        for dt in (["float64", "int32"] if tier == "quick" else ["float64", "int32", "int64", "float32", "complex128"]):
            for _ in range(reps):
                def ents(shp, must_exceed):
                    n = rng.randint(3, 6)
                    cols = {rng.randrange(0, min(shp[1], lim)) for _ in range(n)}
                    if must_exceed:
                        cols |= {rng.randrange(lim, shp[1]) for _ in range(3)} | {shp[1] - 1}
                    return sorted({(rng.randrange(shp[0]), j) for j in cols})
                def vals(keys):
                    return [[i, j, rng.randint(1, 9)] for (i, j) in keys]
                cases.append(dict(op="add", dtype=dt, pw=pw, cw=cw, shape=list(shape),
                                  e1=vals(ents(shape, True)), e2=vals(ents(shape, True))))
                # two-step: every coordinate of the sum fits the pointer width; the flattened ones do not
                cases.append(dict(op="add_reshape", dtype=dt, pw=pw, cw=cw, shape=list(s2), new_shape=list(new),
                                  e1=vals(ents((s2[0], min(s2[1], lim)), False)),
                                  e2=vals(ents((s2[0], min(s2[1], lim)), False))))
    return cases


def special_cases(tier, rng):
    """input classes reported against the unchanged backend: non-canonical SciPy containers (duplicates /
    unsorted indices), non-contiguous constituent arrays.  Run one per fresh interpreter."""
    cases = []
    seed = rng.randrange(10 ** 6)
    dts = ["float64", "int32"] if tier == "quick" else ["float64", "int32", "int8", "uint16", "complex64"]

    def shp(spec, shape):
        s_ = dict(spec)
        s_["shape"] = list(shape)
        return s_
    for dt in dts:
        for how in (("dup", "unsorted") if tier != "quick" or dt == "float64" else ("dup",)):
            for kind in (("scipy_csr",) if tier == "quick" else ("scipy_csr", "scipy_csc")):
                nc = dict(kind=kind, ndim=2, noncanon=how)
                seed += 1
                cases.append(dict(op="roundtrip", dtype=dt, operands=[shp(nc, (3, 4))], seed=seed, density=0.8))
                seed += 1
                cases.append(dict(op="add", dtype=dt, operands=[shp(nc, (3, 4)), shp(nc, (3, 4))], seed=seed, density=0.8))
                if tier != "quick" or dt == "float64":
                    seed += 1
                    cases.append(dict(op="add", dtype=dt, density=0.8, seed=seed,
                                      operands=[shp(nc, (3, 4)), shp(dict(kind="dense", ndim=2), (3, 4))]))
                    seed += 1
                    cases.append(dict(op="reshape", dtype=dt, operands=[shp(nc, (3, 4))], new_shape=[2, 6], seed=seed,
                                      density=0.8))
        for spec, shape in ((dict(kind="dense", ndim=1, strided=True), (6,)),
                            (dict(kind="csf", ndim=2, strided=True), (3, 4)),
                            (dict(kind="dense", ndim=2, strided=True), (3, 4))):
            seed += 1
            cases.append(dict(op="roundtrip", dtype=dt, operands=[shp(spec, shape)], seed=seed, density=0.8))
            seed += 1
            cases.append(dict(op="add", dtype=dt, operands=[shp(spec, shape), shp(spec, shape)], seed=seed, density=0.8))
    return cases


def detfmt_cases(tier, rng):
    n = 1500 if tier == "quick" else 12000
    cases = []
    for _ in range(n):
        k = rng.choice([0, 1, 1, 2, 2, 2, 3])
        fl = []
        for _j in range(k):
            r = rng.randint(0, 4)
            lv = [[rng.choice([0, 1, 1, 2]), rng.choice([0, 0, 2, 4, 6, 3])] for _ in range(r)]
            order = list(range(r))
            mode = rng.random()
            if mode < 0.35:
                rng.shuffle(order)
            elif mode < 0.5:
                order.reverse()
            fl.append([lv, order, rng.choice([8, 16, 32, 64]), rng.choice([8, 16, 32, 64])])
        out_ndim = rng.choice([None, None, 0, 1, 2, 3, 4, 5])
        cases.append((fl, rng.random() < 0.5, out_ndim))
    return cases


# lifetime scenarios: (name, program [(instruction, ...)], deletable variables with the index of the program
# step after which they may be dropped, applicable when)
def life_scenarios():
    S = []
    S.append(("dense_add_tonumpy", (3, 4),
              [("np", "a"), ("asarray", "x", "a"), ("op", "add", "y", ["x", "x"], None), ("to_numpy", "o", "y")],
              {"a": 1, "x": 2, "y": 3}))
    S.append(("dense_add2_tonumpy", (2, 3),
              [("np", "a"), ("np", "b"), ("asarray", "x", "a"), ("asarray", "z", "b"),
               ("op", "add", "y", ["x", "z"], None), ("to_numpy", "o", "y")],
              {"a": 2, "b": 3, "x": 4, "z": 4, "y": 5}))
    S.append(("csr_add_toscipy", (3, 4),
              [("sps", "a", "csr"), ("asarray_sps", "x", "a"), ("op", "add", "y", ["x", "x"], None),
               ("to_scipy", "o", "y")], {"a": 1, "x": 2, "y": 3}))
    S.append(("csr_reshape_arrays", (3, 4),
              [("sps", "a", "csr"), ("asarray_sps", "x", "a"), ("op", "reshape", "y", ["x"], [2, 6]),
               ("arrays", "o", "y")], {"a": 1, "x": 2, "y": 3}))
    S.append(("csr_asformat_csc_toscipy", (3, 4),
              [("sps", "a", "csr"), ("asarray_sps", "x", "a"), ("op", "asformat", "y", ["x"], "csc"),
               ("to_scipy", "o", "y")], {"a": 1, "x": 2, "y": 3}))
    S.append(("dense_reshape_tonumpy", (3, 4),
              [("np", "a"), ("asarray", "x", "a"), ("op", "reshape", "y", ["x"], [2, 6]), ("to_numpy", "o", "y")],
              {"a": 1, "x": 2, "y": 3}))
    S.append(("dense_roundtrip", (2, 3, 2),
              [("np", "a"), ("asarray", "x", "a"), ("to_numpy", "o", "x")], {"a": 1, "x": 2}))
    S.append(("coo_roundtrip", (3, 4),
              [("sps", "a", "coo"), ("asarray_sps", "x", "a"), ("to_scipy", "o", "x")], {"a": 1, "x": 2}))
    S.append(("csc_roundtrip_arrays", (3, 4),
              [("sps", "a", "csc"), ("asarray_sps", "x", "a"), ("arrays", "o", "x")], {"a": 1, "x": 2}))
    S.append(("dense_copy", (3, 4),
              [("np", "a"), ("asarray", "x", "a"), ("copy", "c", "x"), ("to_numpy", "o", "c")],
              {"a": 1, "x": 2, "c": 3}))
    S.append(("dense_same_format", (3, 4),
              [("np", "a"), ("asarray", "x", "a"), ("same", "y", "x"), ("to_numpy", "o", "y")],
              {"a": 1, "x": 2, "y": 3}))
    S.append(("dense_chain", (2, 3),
              [("np", "a"), ("asarray", "x", "a"), ("op", "add", "y", ["x", "x"], None),
               ("op", "add", "w", ["y", "y"], None), ("to_numpy", "o", "w")], {"x": 2, "y": 3, "w": 4}))
    S.append(("csr_dense_add", (3, 4),
              [("sps", "a", "csr"), ("np", "b"), ("asarray_sps", "x", "a"), ("asarray", "z", "b"),
               ("op", "add", "y", ["x", "z"], None), ("arrays", "o", "y")], {"a": 2, "b": 3, "y": 5}))
    S.append(("dense_asformat_csr", (3, 4),
              [("np", "a"), ("asarray", "x", "a"), ("op", "asformat", "y", ["x"], "csr"), ("to_scipy", "o", "y")],
              {"a": 1, "x": 2, "y": 3}))
    return S


def schedules(prog, deletable, max_del=3):
    """all scripts: the program with every subset (<= max_del) of the deletable variables dropped, each at any
    slot at or after its earliest one, in every order within a slot; then the final result dropped too"""
    names = sorted(deletable)
    n = len(prog)
    out = []
    for k in range(0, min(max_del, len(names)) + 1):
        for sub in itertools.combinations(names, k):
            slot_choices = [range(deletable[v], n) for v in sub]
            for slots in itertools.product(*slot_choices):
                by_slot = {}
                for v, sl in zip(sub, slots, strict=True):
                    by_slot.setdefault(sl, []).append(v)
                per_slot_orders = [list(itertools.permutations(vs)) for _sl, vs in sorted(by_slot.items())]
                for combo in itertools.product(*per_slot_orders):
                    order_at = dict(zip(sorted(by_slot), combo, strict=True))
                    script = []
                    for i, ins in enumerate(prog):
                        script.append(ins)
                        for v in order_at.get(i, ()):
                            script.append(("del", v))
                    script.append(("del", "o"))
                    out.append(script)
    return out


def life_cases(tier, rng):
    quick = tier == "quick"
    dts = ["float64", "int32", "complex128"] if quick else \
        ["float64", "float32", "int8", "uint16", "int32", "int64", "complex64", "complex128", "float16"]
    cases = []
    seed = rng.randrange(10 ** 6)
    for name, shape, prog, deletable in life_scenarios():
        scr = schedules(prog, deletable)
        for dt in dts:
            if dt == "float16" and any(i[0] in ("sps", "to_scipy") or (i[0] == "op" and i[4] in ("csr", "csc"))
                                       for i in prog):
                continue            # scipy.sparse has no float16
            sel = scr
            lim = (10 if dt != "float64" else 22) if quick else 10 ** 9
            if len(sel) > lim:
                sel = [scr[0], scr[-1]] + rng.sample(scr[1:-1], lim - 2)
            for s in sel:
                seed += 3
                cases.append(dict(scenario=name, dtype=dt, shape=list(shape), script=[list(i) for i in s], seed=seed))
    return cases


# ===================================================================== Coq literals
def v_fmt(f):
    lv, order, pw, cw = f
    return vpair("[" + "; ".join(vpair(vZ(c), vZ(p)) for c, p in lv) + "]", vlist(order), vZ(pw), vZ(cw))


def v_instr(ins, nb, names):
    def n(x):
        return vnat(names.setdefault(x, len(names)))
    t = ins[0]
    if t == "np":
        return f"INp {n(ins[1])}"
    if t == "sps":
        return f"ISps {n(ins[1])} 3%nat"
    if t == "asarray":
        return f"IAsarray {n(ins[1])} {n(ins[2])}"
    if t == "asarray_sps":
        return f"IAsarraySps {n(ins[1])} {n(ins[2])} {vbool(ins[3])}"
    if t == "op":
        opn = {"add": "OAdd", "reshape": "OReshape", "asformat": "OAsformat"}[ins[1]]
        args = "[" + "; ".join(n(a) for a in ins[3]) + "]"
        return f"IOp {opn} {n(ins[2])} {args} {vnat(nb)} {vbool(ins[1] == 'reshape')}"
    if t == "same":
        return f"ISame {n(ins[1])} {n(ins[2])}"
    if t == "to_numpy":
        return f"IToNumpy {n(ins[1])} {n(ins[2])}"
    if t == "arrays":
        return f"IArrays {n(ins[1])} {n(ins[2])} {vnat(nb)} false"
    if t == "to_scipy":
        return f"IArrays {n(ins[1])} {n(ins[2])} {vnat(nb)} {vbool(nb == 4)}"
    if t == "copy":
        return f"ICopy {n(ins[1])} {n(ins[2])} {vnat(nb)}"
    if t == "del":
        return f"IDel {n(ins[1])}"
    raise ValueError(t)


def life_lit(case, r):
    """Coq literal of a lifetime case; sps kinds decide the `coo` flag of IAsarraySps"""
    kinds = {}
    names = {}
    ins_l = []
    nbs = r["nbs"] if r and "nbs" in r else [1] * len(case["script"])
    for ins, nb in zip(case["script"], nbs, strict=True):
        ins = list(ins)
        if ins[0] == "sps":
            kinds[ins[1]] = ins[2]
        if ins[0] == "asarray_sps":
            ins = ins + [kinds.get(ins[2]) == "coo"]
        ins_l.append("(" + v_instr(ins, nb, names) + ")")
    obs = r["obs"] if r and "obs" in r else []
    return vpair(vZ(dt_class(case["dtype"])), "[" + "; ".join(ins_l) + "]",
                 "[" + "; ".join(vpair(vZ(o[0]), vbool(o[1])) for o in obs) + "]")


# ===================================================================== campaign
IMPORTS = "From Verif Require Import Py Shape S_mlir Mlir C20Judge."


def _run_mlir(fname, cases, workers=12, timeout=60.0):
    old = os.environ.get("SPARSE_BACKEND")
    os.environ["SPARSE_BACKEND"] = "MLIR"
    try:
        return vlib.run_impl("props.c20", fname, cases, workers=workers, per_case_timeout=timeout)
    finally:
        if old is None:
            os.environ.pop("SPARSE_BACKEND", None)
        else:
            os.environ["SPARSE_BACKEND"] = old


def _isolated(fname, case, timeout=180):
    """re-run one case in a fresh interpreter (confirmation of crashes / violations)"""
    code = ("import sys, json; sys.path.insert(0, %r); import props.c20 as m; "
            "print('RESULT' + json.dumps(m.%s(json.loads(sys.stdin.read())), default=str))" %
            (os.path.join(vlib.VERIF, "tools"), fname))
    env = vlib.env_clean()
    env["SPARSE_BACKEND"] = "MLIR"
    try:
        p = subprocess.run([vlib.PY, "-W", "ignore", "-c", code], input=json.dumps(case), env=env, capture_output=True,
                           text=True, timeout=timeout)
    except subprocess.TimeoutExpired:
        return {"hang": True}
    for line in p.stdout.splitlines():
        if line.startswith("RESULT"):
            r = json.loads(line[6:])
            if p.returncode < 0 or p.returncode in (134, 139):
                r["abort_at_exit"] = p.returncode        # e.g. glibc "double free or corruption" while finalising
            return r
    if p.returncode < 0 or p.returncode in (134, 139):
        return {"crash": p.returncode}
    for cls in ("MLIRError", "NotImplementedError", "ValueError", "TypeError", "RuntimeError", "AssertionError"):
        if cls in (p.stderr or ""):
            return {"exc": cls, "msg": (p.stderr or "")[-300:], "rc": p.returncode}
    return {"exc": "Unknown", "msg": (p.stderr or "")[-300:], "rc": p.returncode}


def _isolated_many(fname, cases, jobs=8):
    from concurrent.futures import ThreadPoolExecutor
    with ThreadPoolExecutor(max_workers=jobs) as ex:
        return list(ex.map(lambda c: _isolated(fname, c), cases))


def _replay_line(fname, case):
    return ("SPARSE_BACKEND=MLIR PYTHONPATH=/repo:/verif/tools /venv/bin/python -W ignore -c \"import json, props.c20 as m; "
            f"print(m.{fname}(json.loads(r'''{json.dumps(case)}''')))\"")


def campaign(build, tier, seed, report, budget=1):
    rng = random.Random(seed)
    cov = report["coverage"]
    viol = []
    tags = {}

    def tag(t, n=1):
        tags[t] = tags.get(t, 0) + n
    classes = exclusions(vlib.REPO, report)
    build.make(["Corr/C20Judge.vo"], timeout=600)

    # ------------------------------------------------------------ 0. wrapped dtypes
    dts_all = DT_PLAIN + ["complex64", "complex128", "float16"]
    wr = _run_mlir("impl_wrapped", dts_all, workers=2)
    lits = []
    for dt, r in zip(dts_all, wr, strict=True):
        lits.append(vpair(vZ(dt_class(dt)), vbool(bool(r.get("base_is_ndarray")))))
    for i, code in build.judge("c20_wrapped", IMPORTS, "Z * bool", "judge_wrapped", lits):
        viol.append(dict(property="C20", op="memref_view", kind="representation", clause=None,
                         case=dict(dtype=dts_all[i]), impl=wr[i], code=code,
                         replay_py=_replay_line("impl_wrapped", dts_all[i])))
    tag("wrapped_dtype_probe", len(dts_all))

    # ------------------------------------------------------------ 1. _determine_format
    dcases = detfmt_cases(tier, rng) * 1
    dres = _run_mlir("impl_detfmt", dcases, workers=6)
    lits = []
    for (fl, union, on), r in zip(dcases, dres, strict=True):
        exc = {None: 0, "ValueError": 1}.get(r.get("exc"), 2)
        lits.append(vpair("[" + "; ".join(v_fmt(f) for f in fl) + "]", vbool(union), vopt(on, vnat),
                          "None" if not r.get("fmt") else f"(Some {v_fmt(r['fmt'])})", vZ(exc)))
        tag("detfmt/" + ("raise" if exc else "ok") + f"/n{len(fl)}")
    for i, code in build.judge("c20_detfmt", IMPORTS, "detfmt_case", "judge_detfmt", lits):
        viol.append(dict(property="C20", op="_determine_format", kind="representation", clause=None,
                         case=dict(formats=dcases[i][0], union=dcases[i][1], out_ndim=dcases[i][2]), impl=dres[i],
                         code=code, replay_py=_replay_line("impl_detfmt", dcases[i])))

    # ------------------------------------------------------------ 2. numeric / layout
    ncases_all = numeric_cases(tier, rng)
    ncases, skipped = [], {}
    for c in ncases_all:
        e = excluded(c, classes)
        if e:
            skipped[e] = skipped.get(e, 0) + 1
        else:
            ncases.append(c)
    # input classes that can corrupt the heap: one fresh interpreter per case (started now, collected below)
    scases = special_cases(tier, rng)
    from concurrent.futures import ThreadPoolExecutor
    bg = ThreadPoolExecutor(max_workers=1)
    sfut = bg.submit(_isolated_many, "impl_numeric", scases, 6)
    nres = _run_mlir("impl_numeric", ncases, workers=12, timeout=90.0)
    sres = sfut.result()
    bg.shutdown()
    ncases = ncases + scases
    nres = nres + sres
    lay_lits, lay_ref = [], []
    fmt_lits, fmt_ref = [], []
    tn_lits, tn_ref = [], []

    def clause_of(c):
        """named class of a case outside the domain the theorems/project cover, or None"""
        if any(o.get("noncanon") for o in c["operands"]):
            return "scipy_noncanonical_input"
        if any(o.get("strided") for o in c["operands"]):
            return "noncontiguous_constituent_arrays"
        if c["op"] == "reshape" and c["operands"][0].get("order") not in (None, list(range(c["operands"][0]["ndim"]))):
            return "reshape_nonidentity_order"
        return None

    def nviol(i, what, kind="value", clause=None, **kw):
        c = ncases[i]
        viol.append(dict(property="C20", op=c["op"], kind=kind, clause=clause if clause else clause_of(c), what=what,
                         case=c, impl={k: v for k, v in (nres[i] or {}).items() if k not in ("inputs",)}, **kw,
                         replay_py=_replay_line("impl_numeric", c)))

    for i, (c, r) in enumerate(zip(ncases, nres, strict=True)):
        kinds = "+".join(s["kind"] + str(s["ndim"]) for s in c["operands"])
        tag(f"{c['op']}/{kinds}" + ("->" + c["dst"]["kind"] if "dst" in c else ""))
        if r.get("crash") is not None or r.get("hang"):
            nviol(i, "worker crashed or hung" + (f" (signal/exit {r.get('crash')})" if r.get("crash") else ""))
            continue
        if r.get("abort_at_exit") is not None:
            nviol(i, f"the interpreter aborted while finalising (exit {r['abort_at_exit']}: heap corruption / double free)")
        if r.get("rejected_noncontiguous_copy_false"):
            tag("copy=False on a non-C-contiguous ndarray rejected (documented)")
            continue
        if "exc" in r and "expected" not in r:
            nviol(i, f"raised {r['exc']}: {r.get('msg')}")
            continue
        if not r.get("inputs_unchanged", True):
            nviol(i, "an input buffer was modified")
        if r.get("roundtrip_ok") is False:
            nviol(i, "conversion to the backend and back does not return the original values")
        if r.get("copy_independent") is False:
            nviol(i, "Array.copy() shares memory with its source")
        if r.get("api_ok") is False:
            nviol(i, "result read back through to_numpy/to_scipy differs from NumPy")
        if r.get("dtype_ok") is False:
            nviol(i, "result dtype differs from the operands' dtype")
        # inputs: the constituent arrays must denote the input
        for inp in r.get("inputs", []):
            lay_lits.append(vpair(vlist([l[0] for l in inp["fmt"][0]]), vlist(inp["fmt"][1]), vlist(inp["shape"]),
                                  vlist(inp["idx"], vlist), vlist(inp["data"]), vlist(inp["expected"])))
            lay_ref.append((i, "input"))
        if "result" in r:
            res = r["result"]
            if res["shape"] != r["expected_shape"]:
                nviol(i, f"result shape {res['shape']} != {r['expected_shape']}")
            else:
                lay_lits.append(vpair(vlist([l[0] for l in res["fmt"][0]]), vlist(res["fmt"][1]), vlist(res["shape"]),
                                      vlist(res["idx"], vlist), vlist(res["data"]), vlist(r["expected"])))
                lay_ref.append((i, "result"))
            if c["op"] in ("add", "reshape"):
                fmt_lits.append(vpair(vZ(0 if c["op"] == "add" else 1),
                                      "[" + "; ".join(v_fmt(x["fmt"]) for x in r["inputs"]) + "]",
                                      vnat(len(r["expected_shape"])), v_fmt(res["fmt"])))
                fmt_ref.append(i)
            if c["op"] == "asformat" and res["fmt"] != r["dst_fmt"]:
                nviol(i, "asformat returned another format than requested", kind="representation")
        if "tonumpy" in r:
            t = r["tonumpy"]
            tn_lits.append(vpair(vlist(t["order"]), vlist(t["shape"]), vlist(t["data"]), vlist(t["rshape"]),
                                 vlist(t["rflat"])))
            tn_ref.append(i)
    for k, code in build.judge("c20_layout", IMPORTS, "layout_case", "judge_layout", lay_lits, chunk=300):
        i, which = lay_ref[k]
        if which == "input":
            nviol(i, f"constituent arrays of an INPUT do not denote it (judge_layout code {code})",
                  kind="representation" if code in (1, 4) else "value", code=code)
        else:
            nviol(i, f"constituent arrays of the result do not denote NumPy's result (judge_layout code {code})",
                  kind="representation" if code in (1, 4) else "value", code=code)
    for k, code in build.judge("c20_opfmt", IMPORTS, "opfmt_case", "judge_opfmt", fmt_lits):
        nviol(fmt_ref[k], f"result format differs from the model's determine_format (code {code})",
              kind="representation", code=code)
    for k, code in build.judge("c20_tonumpy", IMPORTS, "tonumpy_case", "judge_tonumpy", tn_lits):
        nviol(tn_ref[k], f"to_numpy (judge_tonumpy code {code})", kind="representation" if code == 1 else "value",
              code=code)

    # ------------------------------------------------------------ 2b. pointer width < coordinate width, wide extents
    wcases = wide_cases(tier, rng)
    wres = _run_mlir("impl_wide", wcases, workers=6, timeout=90.0)
    sp_lits, sp_ref, wf_lits, wf_ref = [], [], [], []

    def wviol(i, what, kind="value", **kw):
        viol.append(dict(property="C20", op="wide_" + wcases[i]["op"], kind=kind, clause=None, what=what,
                         case=wcases[i], impl=wres[i], replay_py=_replay_line("impl_wide", wcases[i]), **kw))

    def sp_lit(d, expected):
        return vpair(vlist([l[0] for l in d["fmt"][0]]), vlist(d["fmt"][1]), vlist(d["shape"]),
                     vlist(d["idx"], vlist), vlist(d["data"]),
                     "[" + "; ".join(vpair(vlist(ix), vZ(v)) for ix, v in expected) + "]")
    for i, (c, r) in enumerate(zip(wcases, wres, strict=True)):
        tag(f"wide/{c['op']}/pos{c['pw']}crd{c['cw']}")
        if "add" not in r:
            wviol(i, "crashed / hung / raised: " + json.dumps(r)[:300])
            continue
        scale = 1024 if c["dtype"].startswith("complex") else 1
        total = {}
        for (a_, b_, v) in c["e1"] + c["e2"]:
            total[(a_, b_)] = total.get((a_, b_), 0) + v * scale
        for k_, src in enumerate((c["e1"], c["e2"])):
            sp_lits.append(sp_lit(r["inputs"][k_], [([a_, b_], v * scale) for a_, b_, v in src]))
            sp_ref.append((i, "an input"))
        if not r.get("inputs_unchanged", True):
            wviol(i, "an input buffer was modified")
        if r["add"]["shape"] != c["shape"]:
            wviol(i, "shape of the sum")
        else:
            sp_lits.append(sp_lit(r["add"], [([a_, b_], v) for (a_, b_), v in sorted(total.items())]))
            sp_ref.append((i, "the sum"))
        wf_lits.append(vpair(vZ(0), "[" + "; ".join(v_fmt(x["fmt"]) for x in r["inputs"]) + "]", vnat(2), v_fmt(r["add"]["fmt"])))
        wf_ref.append(i)
        if "reshape" in r:
            cols = c["shape"][1]
            new = c["new_shape"]

            def unravel(flat, shp=new):
                out_ = []
                for d_ in reversed(shp):
                    out_.append(flat % d_)
                    flat //= d_
                return out_[::-1]
            if r["reshape"]["shape"] != new:
                wviol(i, "shape of the reshaped sum")
            else:
                sp_lits.append(sp_lit(r["reshape"], [(unravel(a_ * cols + b_), v) for (a_, b_), v in sorted(total.items())]))
                sp_ref.append((i, "the reshaped sum (the sum itself is right; only its recorded widths feed the reshape)"))
            wf_lits.append(vpair(vZ(1), "[" + v_fmt(r["add"]["fmt"]) + "]", vnat(len(new)), v_fmt(r["reshape"]["fmt"])))
            wf_ref.append(i)
    for k, code in build.judge("c20_wide", IMPORTS, "sparse_case", "judge_sparse", sp_lits, chunk=200):
        i, which = sp_ref[k]
        wviol(i, f"the constituent arrays of {which} do not denote the expected entries (judge_sparse code {code}: "
                 + {2: "a stored coordinate lies outside the shape — coordinates were truncated to a narrower width",
                    3: "stored entries differ"}.get(code, "array list does not fit the levels") + ")",
              kind="representation" if code in (1, 4) or which == "an input" else "value", code=code)
    for k, code in build.judge("c20_wide_fmt", IMPORTS, "opfmt_case", "judge_opfmt", wf_lits):
        wviol(wf_ref[k], f"result format differs from the model's determine_format (code {code})",
              kind="representation", code=code)

    # ------------------------------------------------------------ 3. lifetimes
    lcases = life_cases(tier, rng)
    lres = _run_mlir("impl_life", lcases, workers=12, timeout=90.0)
    # cases that crashed, hung or raised in a pooled worker are confirmed in a fresh interpreter
    confirm = [i for i, r in enumerate(lres) if "obs" not in r]
    for i in confirm[:40]:
        lres[i] = dict(_isolated("impl_life", lcases[i]), pooled=lres[i])
    llits = [life_lit(c, r) for c, r in zip(lcases, lres, strict=True)]
    predicted = {i for i, _code in build.judge("c20_life_pred", IMPORTS, "life_case", "predict_life", llits, chunk=200)}
    judged = [i for i, r in enumerate(lres) if "obs" in r]
    jl = build.judge("c20_life", IMPORTS, "life_case", "judge_life", [llits[i] for i in judged], chunk=200)
    LCODE = {1: ("representation", None, "number of free_memref calls differs from the ownership model"),
             2: ("value", None, "a held result points into freed memory (model: safe)"),
             3: ("value", "wrapped_dtype_view", "a held result points into freed memory (model predicts it: the "
                                                 "_hold_ref finaliser sits on a view whose base NumPy skips)"),
             4: ("representation", None, "model predicts a dangling result, implementation shows none"),
             5: ("representation", None, "observation/script length mismatch")}
    bad = set()
    for k, code in jl:
        i = judged[k]
        bad.add(i)
        kind, clause, what = LCODE[code]
        if code == 3 and not dt_class(lcases[i]["dtype"]):
            # the model itself predicts the dangling result for a PLAIN dtype: a required edge is missing
            # from the extracted site table (sites_ok no longer proves)
            clause, what = "required_edge_missing", "a held result points into freed memory (plain dtype; the " \
                                                    "extracted site table lacks a required edge)"
        viol.append(dict(property="C20", op="lifetime", kind=kind, clause=clause, what=what, case=lcases[i],
                         impl=lres[i], code=code, replay_py=_replay_line("impl_life", lcases[i])))
    for i, (c, r) in enumerate(zip(lcases, lres, strict=True)):
        tag(f"life/{c['scenario']}/{'wrapped' if dt_class(c['dtype']) else 'plain'}")
        if "obs" not in r:
            viol.append(dict(property="C20", op="lifetime", kind="value",
                             clause="wrapped_dtype_view" if i in predicted and dt_class(c["dtype"]) else None,
                             what="script crashed / hung / raised: " + json.dumps(r)[:300], case=c, impl=r,
                             replay_py=_replay_line("impl_life", c)))
        elif i not in bad and any(o[2] is False for o in r["obs"]):
            viol.append(dict(property="C20", op="lifetime", kind="value",
                             clause="wrapped_dtype_view" if i in predicted and dt_class(c["dtype"]) else None,
                             what="a held object's value changed after deleting other objects", case=c, impl=r,
                             replay_py=_replay_line("impl_life", c)))
    tag("life/model_predicts_dangling", len(predicted))

    # ------------------------------------------------------------ coverage
    cov["evaluations"] = len(dcases) + len(ncases) + len(wcases) + len(lcases) + len(dts_all)
    cov["distinct_nontrivial"] = (len({json.dumps(c, sort_keys=True) for c in dcases if c[0]})
                                  + len({json.dumps({k: v for k, v in c.items() if k != "seed"}, sort_keys=True)
                                         for c in ncases})
                                  + len({json.dumps([c["scenario"], c["dtype"], c["script"]]) for c in lcases}))
    cov["rule"] = ("_determine_format: seeded random well-formed format lists (0-3 operands, ranks 0-4, orders "
                   "identity/reversed/shuffled, widths 8-64, out_ndim None/0-5); numeric: every storage format "
                   "(dense, SciPy csr/csc/coo, CSF 2-4-d incl. order (1,0), COO 1/3/4-d) x dtypes x shapes 1-4-d for "
                   "round-trips, all format pairs for add/asformat, a table of reshapes, every dense level order; "
                   "wide: 2-d CSF operands with pos_width < crd_width (8/16, 16/32, 32/64) and coordinates beyond the "
                   "pointer width (extents up to 2^31+1000), add and add->reshape, judged on their entries; isolated: "
                   "non-canonical SciPy csr/csc (duplicates, unsorted) and non-contiguous constituent arrays, one fresh "
                   "interpreter each; lifetimes: per scenario every subset (<=3) of deletable objects, every admissible deletion slot, "
                   "every order inside a slot (quick tier: seeded sample); distinct = distinct case descriptions")
    cov["excluded_project_xfail"] = skipped
    cov["component_counts"] = dict(determine_format=len(dcases), numeric=len(ncases), numeric_isolated=len(scases),
                                   wide_pos_lt_crd=len(wcases), sparse_judged=len(sp_lits), layout_judged=len(lay_lits),
                                   opfmt_judged=len(fmt_lits), tonumpy_judged=len(tn_lits), lifetime=len(lcases),
                                   lifetime_model_predicts_dangling=len(predicted),
                                   lifetime_confirmed_in_fresh_interpreter=len(confirm[:40]))
    cov["differential_only"] = ["values of add / reshape / asformat results (MLIR-compiled code is an oracle)",
                                "inputs' bytes before/after"]
    cov["samples"] = [dict(case=dcases[0], impl=dres[0]),
                      dict(case=ncases[len(ncases) // 2], impl={k: v for k, v in nres[len(ncases) // 2].items()
                                                                  if k in ("result", "expected", "api_ok")}),
                      dict(case=lcases[len(lcases) // 3], impl=lres[len(lcases) // 3])]
    cov["branch_tags"] = dict(sorted(tags.items()))
    if os.environ.get("VERIF_C20_DUMP"):
        json.dump(viol, open(os.environ["VERIF_C20_DUMP"], "w"), default=str)
    cov["unproved_statements"] = [
        "values computed inside JIT-compiled MLIR modules (oracle; differential only)",
        "MLIR runtime allocator behaviour / memory safety inside compiled code (outside the model)",
        "_determine_format's order update (tuple slicing) and loop structure: pinned by text + correspondence, "
        "not translated",
        "build-then-read inverse for CSF/COO patterns (that the nonzeros of an arbitrary dense array, laid out as "
        "pos/crd/values, read back to that array): checked per case by judge_layout, not proved; "
        "roundtrip_layout_* prove the reading = the nested-loop meaning for every array contents",
        "NumPy's base-collapse rule and mlir_finch's view wrapping are modelled by hand (EDerive/ECollapse, "
        "wrapped_dtype), tied by correspondence only",
    ]
    return viol


def replay(path):
    v = json.load(open(path))
    print(json.dumps({k: v[k] for k in v if k not in ("impl",)}, indent=1)[:3000])
    if "replay_py" in v:
        p = subprocess.run(v["replay_py"], shell=True, capture_output=True, text=True)
        print(p.stdout[-3000:], p.stderr[-800:])
    return 0
