"""C08 — shape manipulation.  Correspondence campaign.

impl side : the real functions (methods and sparse.* namespace functions) on COO / GCXS (every
            compressed-axes choice) / DOK where offered, raw result via vlib.plain;
Coq side  : Corr/C08Judge.v runs the MODEL (Model/ShapeOps.v over the generated fragments
            Gen/G_shapeops.v) and the SPEC (Spec/NpShapeOps.v on the dense meaning of the input) and
            compares: exact coords/data for COO results, dense meaning for the others, exception
            class for rejected arguments; a second judge compares the SPEC with real NumPy on the
            densified input (validates the Spec)."""
import itertools
import json
import random

import vlib
from vlib import vZ, vlist, vpair

LEVEL = "proof"
TRUSTED_BASE = [
    "Coq 8.16.1 kernel + vm_compute (case evaluation); no native_compute",
    "axioms: none (Print Assumptions: Closed under the global context for every C08 theorem)",
    "tools/py2v.py fragment translator; the extern terms of tools/frags/shapeops.py (hand-written meaning of the "
    "tuple-wide expressions `reduce(operator.mul, (d for d in shape if d != -1), 1)` and "
    "`tuple([d if d != -1 else extra for d in shape])` of COO.reshape); the two `if` tests of COO.reshape that "
    "select the fragments are tied by their exact source text only and transcribed by hand (coo_reshape_shape)",
    "Spec/NpShapeOps.v as a description of NumPy (np.transpose/reshape/squeeze/expand_dims/flip/roll/pad/"
    "broadcast_to/moveaxis), cross-checked against NumPy itself on every small generated case (judge_spec_np)",
    "Model/ShapeOps.v as a transcription of the COO code paths (transpose, T, mT, swapaxes, moveaxis, reshape, flatten, "
    "squeeze, expand_dims, flip, roll, pad, broadcast_to, and the constructor's sort), checked against the "
    "implementation's concrete coords/data/fill/exception class on every generated case",
    "Model/ShapeOpsG.v as a transcription of GCXS.transpose/_2d_transpose/reshape and convert._transpose/_1d_reshape, "
    "checked against the implementation's raw data/indices/indptr/compressed_axes on every GCXS case (judge_c08g), "
    "against the functions _1d_reshape/_transpose called directly with arbitrary compressed axes (judge_kfun) and, one "
    "iteration at a time, against the kernels _convert_coords/_linearize/_c_ordering; the order in which the call "
    "sites bind values to kernel parameters is extracted from the source (tools/sitegen/shapeops.py -> Gen/S_shapeops.v)",
    "Model/Convert.v (property C05): gcxs_from_coo and the NumPy primitives stable_sort/indptr_of/unravel_k/ravel_k, and "
    "its theorems gcxs_from_coo_wf/den; DOK inputs/results are compared with the Spec only",
    "correspondence harness tools/props/c08.py, tools/vlib.py, Corr/SArr.v, Corr/C08Judge.v",
]
ASSUMPTIONS = [
    "element values are opaque (V arbitrary with decidable equality); dtype handling is not modelled, the campaign "
    "checks that data values and the fill value are carried over unchanged (int64 data)",
    "the models compute coordinates in unbounded Z; the campaign's narrow stream (int8/uint8/int16 coordinates, extents and "
    "results crossing the type's maximum) checks that the implementation's coordinates equal them, i.e. never wrap; roll's "
    "can_store guard (a documented ValueError on compact index types, property C15) is accepted as a refusal there",
    "the constructor's duplicate-merging pass is the identity on the duplicate-free coordinates every producer hands over "
    "(proved: results are canonical) and is not modelled; the operation cache (enable_caching) is not modelled either "
    "(its protocol is C11/C13): the campaign's cache stream runs sequences of transpose/reshape calls on one cache-enabled "
    "object and judges every step like a single call, i.e. checks that the cache is unobservable",
]
UNPROVED = [
    "the *_any GCXS theorems hold for every record accepted by gcxs_strictb = gcxs_wfb plus, for ndim < 2, empty "
    "compressed_axes / indptr (the unused fields, which GCXS.__init__ keeps empty but gcxs_wfb does not constrain)",
    "moveaxis_order = np_moveaxis_perm is proved for ndim <= 5 (the property's scope; exhaustive evaluation inside Coq, "
    "bound in the statement), not for arbitrary ndim",
    "index dtypes chosen by get_out_dtype in _transpose/_1d_reshape (C15) and the DOK paths (conversion to COO; C05/C12)",
]

CLAUSES = {
    21: "roll_tuple_shift_single_axis",      # documented restriction of sparse.roll; the only clause left (round 7)
}


# ------------------------------------------------------------------ implementation side
class NotOffered(Exception):
    pass


def _need(x, attr):
    if not hasattr(type(x), attr):
        raise NotOffered(attr)


def _tup(v):
    return tuple(v) if isinstance(v, list) else v


def apply_op(sparse, x, op):
    k = op["op"]
    api = op.get("api", "method")
    if k == "transpose":
        _need(x, "transpose")
        axes = _tup(op["axes"])
        return x.transpose(axes) if api == "method" else sparse.permute_dims(x, axes)
    if k == "T":
        _need(x, "T")
        return x.T
    if k == "mT":
        if api == "method":
            _need(x, "mT")
            return x.mT
        return sparse.matrix_transpose(x)
    if k == "swapaxes":
        _need(x, "swapaxes")
        return x.swapaxes(op["a"], op["b"])
    if k == "moveaxis":
        _need(x, "transpose")
        return sparse.moveaxis(x, _tup(op["s"]), _tup(op["d"]))
    if k == "reshape":
        _need(x, "reshape")
        sh = op["shape"] if op.get("int_shape") else tuple(op["shape"])
        if op.get("int_shape"):
            sh = op["shape"][0]
        return x.reshape(sh) if api == "method" else sparse.reshape(x, sh)
    if k == "flatten":
        _need(x, "flatten")
        return x.flatten()
    if k == "squeeze":
        _need(x, "squeeze")
        ax = _tup(op["axis"])
        return x.squeeze(ax) if api == "method" else sparse.squeeze(x, ax)
    if k == "expand_dims":
        return sparse.expand_dims(x, axis=op["axis"])
    if k == "flip":
        return sparse.flip(x, axis=_tup(op["axis"]))
    if k == "roll":
        return sparse.roll(x, _tup(op["shift"]), _tup(op["axis"]))
    if k == "pad":
        pw = op["pw"]
        if isinstance(pw, list):
            pw = tuple(tuple(r) if isinstance(r, list) else r for r in pw)
        if op.get("cv") is None:
            return sparse.pad(x, pw)
        return sparse.pad(x, pw, constant_values=op["cv"])
    if k == "broadcast_to":
        _need(x, "broadcast_to")
        t = tuple(op["shape"])
        return x.broadcast_to(t) if api == "method" else sparse.broadcast_to(x, t)
    if k == "broadcast_arrays":
        _need(x, "broadcast_to")
        import numpy as np
        other = sparse.COO.from_numpy(np.zeros(tuple(op["other"]), dtype=np.int64))
        return sparse.broadcast_arrays(x, other)[0]
    raise ValueError(k)


def apply_np(np, d, op):
    k = op["op"]
    if k == "transpose":
        return np.transpose(d, _tup(op["axes"]))
    if k == "T":
        return d.T
    if k == "mT":
        if d.ndim < 2:
            raise ValueError("ndim < 2")
        return np.swapaxes(d, -1, -2)
    if k == "swapaxes":
        return np.swapaxes(d, op["a"], op["b"])
    if k == "moveaxis":
        return np.moveaxis(d, _tup(op["s"]), _tup(op["d"]))
    if k == "reshape":
        return d.reshape(op["shape"][0] if op.get("int_shape") else tuple(op["shape"]))
    if k == "flatten":
        return d.flatten()
    if k == "squeeze":
        return np.squeeze(d, _tup(op["axis"]))
    if k == "expand_dims":
        return np.expand_dims(d, op["axis"])
    if k == "flip":
        return np.flip(d, _tup(op["axis"]))
    if k == "roll":
        return np.roll(d, _tup(op["shift"]), _tup(op["axis"]))
    if k == "pad":
        pw = op["pw"]
        if isinstance(pw, list):
            pw = tuple(tuple(r) if isinstance(r, list) else r for r in pw)
        return np.pad(d, pw, constant_values=op["cv"] if op.get("cv") is not None else 0)
    if k == "broadcast_to":
        return np.broadcast_to(d, tuple(op["shape"]))
    if k == "broadcast_arrays":
        return np.broadcast_arrays(d, np.zeros(tuple(op["other"]), dtype=np.int64))[0]
    raise ValueError(k)


def impl_op(case):
    import warnings

    import numpy as np
    import sparse
    warnings.filterwarnings("ignore")
    spec, op = case["spec"], case["op"]
    x = vlib.build_array(spec, idx_dtype=spec.get("idx_dtype"))
    before = vlib.plain(x)
    try:
        r = apply_op(sparse, x, op)
        out = vlib.plain(r)
    except NotOffered as ex:
        return {"k": "notoffered", "attr": str(ex)}
    except Exception as ex:  # noqa: BLE001
        out = vlib.plain(ex)
    # the operand is not modified (cheap side check; C11 owns the property)
    out["operand_changed"] = vlib.plain(x) != before
    out["in_dtype"] = str(x.dtype)
    if spec["format"] == "gcxs":
        out["in"] = before
    if not case.get("huge"):
        d = vlib.spec_dense(spec)
        try:
            with np.errstate(all="ignore"):
                ref = vlib.plain(np.array(apply_np(np, d, op)))
        except Exception as ex:  # noqa: BLE001
            ref = vlib.plain(ex)
            if isinstance(ex, (ValueError, IndexError)):       # AxisError is both
                ref["exc"] = "ValueError"
        out["np"] = ref
    return out


def impl_seq(case):
    """several calls on ONE cache-enabled COO object; returns the raw result of every step"""
    import warnings

    import numpy as np
    import sparse
    warnings.filterwarnings("ignore")
    spec = case["spec"]
    x = vlib.build_array(spec)
    x.enable_caching()
    d = vlib.spec_dense(spec)
    steps = []
    for op in case["seq"]:
        try:
            out = vlib.plain(apply_op(sparse, x, op))
        except Exception as ex:  # noqa: BLE001
            out = vlib.plain(ex)
        out["operand_changed"] = False
        out["in_dtype"] = str(x.dtype)
        try:
            with np.errstate(all="ignore"):
                ref = vlib.plain(np.array(apply_np(np, d, op)))
        except Exception as ex:  # noqa: BLE001
            ref = vlib.plain(ex)
            if isinstance(ex, (ValueError, IndexError)):
                ref["exc"] = "ValueError"
        out["np"] = ref
        steps.append(out)
    return {"steps": steps}


def seq_cases(tier, seed):
    """sequences of transpose-family and reshape-family calls on the same cache-enabled array (the cache keeps the
    last three results per family): both orders, repeated keys, more than three distinct keys; shapes with
    zero-length axes, where a permutation tuple is also a legal target shape"""
    rng = random.Random(seed + 31)
    out = []
    n = 40 if tier == "quick" else 300
    shapes0 = [[0, 3], [3, 0], [0, 0, 2], [1, 0], [2, 0, 5], [4, 0], [0, 1], [0, 2, 1], [1, 0, 2]]
    shapes1 = [[2, 3], [1, 2], [2, 1, 3], [3, 2, 2], [1, 1], [2, 2]]

    def tfam(nd, p):
        k = rng.choice(["transpose", "permute", "T", "swap", "move"])
        if k == "T" or nd < 2:
            return {"op": "T"}
        if k == "swap":
            a, b = rng.sample(range(nd), 2)
            return {"op": "swapaxes", "a": a, "b": b - nd if rng.random() < 0.3 else b}
        if k == "move":
            a, b = rng.sample(range(nd), 2)
            return {"op": "moveaxis", "s": a, "d": b}
        return {"op": "transpose", "axes": list(p), "api": "method" if k == "transpose" else "permute_dims"}

    for it in range(n):
        sh = rng.choice(shapes0) if it % 3 else rng.choice(shapes1)
        nd = len(sh)
        size = 1
        for d in sh:
            size *= d
        spec = vlib.gen_array_spec(rng, shape=sh, fills=(0, 3), density=rng.choice([0.4, 1.0]))
        spec["format"], spec["caxes"] = "coo", None
        perms = [list(p) for p in itertools.permutations(range(nd)) if list(p) != list(range(nd))]
        if size == 0:
            tg = perms + [[0], [0, 1], [1, 0], [0, 5], [2, 0, 1], [1, 0, 2], [-1], [0, -1]]
        else:
            tg = [f for k in (1, 2, 3) for f in ordered_factorizations(size, k)] + [[-1]]
        L = rng.randint(2, 4) if it % 5 else rng.randint(5, 7)      # some longer ones: more than three distinct keys
        seq = []
        for j in range(L):
            if (j + it) % 2 == 0:
                p = rng.choice(perms)
                seq.append(tfam(nd, p))
                if size == 0 and rng.random() < 0.7:        # then ask for that very tuple as a shape
                    seq.append({"op": "reshape", "shape": list(p), "api": rng.choice(["method", "func"])})
            else:
                t = rng.choice(tg)
                seq.append({"op": "reshape", "shape": list(t), "api": rng.choice(["method", "func"])} if rng.random() < 0.85
                           else {"op": "flatten"})
                if size == 0 and sorted(t) == list(range(nd)) and t != list(range(nd)) and rng.random() < 0.7:
                    seq.append({"op": "transpose", "axes": list(t), "api": "method"})
            if seq and rng.random() < 0.25:
                seq.append(dict(rng.choice(seq)))               # a repeated key
        out.append({"spec": spec, "seq": seq})
    return out


# ------------------------------------------------------------------ kernel level (convert.py)
def _axis_order(nd, ca):
    return list(ca) + [a for a in range(nd) if a not in ca]


def impl_kernel(case):
    """call _convert_coords / _linearize / _c_ordering / _1d_reshape / _transpose themselves"""
    import warnings

    import numpy as np
    from sparse.numba_backend._compressed import convert as cv
    warnings.filterwarnings("ignore")
    k = case["k"]
    I = lambda l: np.asarray(l, dtype=np.intp)  # noqa: E731, E741
    if k == "convert":
        lin = I(case["linear"])
        nl = np.empty(len(lin), dtype=np.intp)
        nc = np.empty((2, len(lin)), dtype=np.intp)
        cv._convert_coords(lin, I(case["old_shape"]), I(case["rsh"]), I(case["sao"]), I(case["axes"]), I(case["shape"]),
                           I(case["new_ord"]), I(case["new_rsh"]), nl, nc, I(case["new_cshape"]), bool(case["transpose"]))
        return {"nl": nl.tolist(), "rows": nc[0].tolist(), "cols": nc[1].tolist()}
    if k == "linearize":
        xs = I(case["xs"])
        nl = np.empty(len(xs), dtype=np.intp)
        nc = np.empty((2, len(xs)), dtype=np.intp)
        cv._linearize(xs, I(case["shape"]), I(case["new_ord"]), I(case["new_rsh"]), I(case["new_cshape"]), nl, nc)
        return {"nl": nl.tolist(), "rows": nc[0].tolist(), "cols": nc[1].tolist()}
    if k == "kfun":
        import sparse
        x = vlib.build_array(case["spec"])
        kind = case["kind"]
        nsh = tuple(case["nsh"])
        nca = tuple(case["nca"]) if case["nca"] else None
        if kind == 0:
            d, i, p = cv._1d_reshape(x, nsh, nca)
        elif kind in (1, 2):
            d, i, p = cv._transpose(x, nsh, np.arange(x.ndim), nca)
        else:
            d, i, p = cv._transpose(x, nsh, tuple(case["axes"]), nca, transpose=True)
        return {"data": [vlib.val_token(v) for v in d], "indices": [int(v) for v in i], "indptr": [int(v) for v in p]}
    if k == "c_ordering":
        lin = I(case["linear"])
        cl = np.empty(len(lin), dtype=np.intp)
        cv._c_ordering(lin, cl, I(case["rsh"]), I(case["sao"]), I(case["shape"]))
        return {"cl": cl.tolist()}
    raise ValueError(k)


def kernel_cases(tier, seed):
    rng = random.Random(seed + 17)
    out = []
    n = 60 if tier == "quick" else 400

    def shape(nd):
        return [rng.choice([1, 2, 2, 3, 4]) for _ in range(nd)]

    def prod(l):
        p = 1
        for d in l:
            p *= d
        return p

    def caxes(nd):
        return sorted(rng.sample(range(nd), rng.randint(1, nd - 1)))

    for _ in range(n):
        nd = rng.randint(2, 4)
        sh = shape(nd)
        ca = caxes(nd)
        ordr = _axis_order(nd, ca)
        rsh = [sh[a] for a in ordr]
        sao = sorted(range(nd), key=lambda i: ordr[i])
        size = prod(sh)
        linear = rng.sample(range(size), min(size, 24))
        if rng.random() < 0.5:      # transpose=True
            axes = list(range(nd))
            rng.shuffle(axes)
            nsh = [sh[a] for a in axes]
            tr = True
        else:                       # reshape / change of compressed axes
            axes = list(range(nd))
            fs = [f for k in (2, 3) for f in ordered_factorizations(size, k)] if size else [sh]
            nsh = rng.choice(fs)
            tr = False
        nnd = len(nsh)
        nca = caxes(nnd)
        nord = _axis_order(nnd, nca)
        nrsh = [nsh[a] for a in nord]
        ncs = [prod(nrsh[:len(nca)]), prod(nrsh[len(nca):])]
        out.append({"k": "convert", "transpose": tr, "linear": linear, "old_shape": sh, "rsh": rsh, "sao": sao,
                    "axes": axes, "shape": nsh, "new_ord": nord, "new_rsh": nrsh, "new_cshape": ncs})
        out.append({"k": "c_ordering", "linear": linear, "rsh": rsh, "sao": sao, "shape": sh})
        out.append({"k": "linearize", "xs": sorted(rng.sample(range(prod(nsh)), min(prod(nsh), 24))), "shape": nsh,
                    "new_ord": nord, "new_rsh": nrsh, "new_cshape": ncs})
        # the functions themselves, on a GCXS array with arbitrary valid compressed axes
        sp = vlib.gen_array_spec(rng, shape=sh, fills=(0, 3), density=rng.choice([0.3, 0.7, 1.0]))
        sp["format"], sp["caxes"] = "gcxs", ca
        if tr:
            mn = nsh.index(min(nsh))
            out.append({"k": "kfun", "kind": 3, "spec": sp, "nsh": nsh, "nca": [mn], "axes": axes})
        else:
            out.append({"k": "kfun", "kind": 1, "spec": sp, "nsh": nsh, "nca": nca, "axes": []})
            out.append({"k": "kfun", "kind": 2, "spec": sp, "nsh": [size], "nca": [], "axes": []})
        s1 = vlib.gen_array_spec(rng, shape=[prod(nsh)], fills=(0, 3), density=rng.choice([0.3, 0.7, 1.0]))
        s1["format"], s1["caxes"] = "gcxs", None
        out.append({"k": "kfun", "kind": 0, "spec": s1, "nsh": nsh, "nca": nca, "axes": []})
    return out


def kernel_lit(c, r):
    L = vlist
    if c["k"] == "convert":
        return vpair(vlib.vbool(c["transpose"]), L(c["linear"]), L(c["old_shape"]), L(c["rsh"]), L(c["sao"]), L(c["axes"]),
                     L(c["shape"]), L(c["new_ord"]), L(c["new_rsh"]), L(c["new_cshape"]), L(r["nl"]), L(r["rows"]), L(r["cols"]))
    if c["k"] == "linearize":
        return vpair(L(c["xs"]), L(c["shape"]), L(c["new_ord"]), L(c["new_rsh"]), L(c["new_cshape"]),
                     L(r["nl"]), L(r["rows"]), L(r["cols"]))
    if c["k"] == "kfun":
        return vpair(vlib.spec_coo_lit(c["spec"]), L(c["spec"]["caxes"] or []), vZ(c["kind"]), L(c["nsh"]), L(c["nca"]),
                     L(c["axes"]), vpair(L(r["data"]), L(r["indices"]), L(r["indptr"])))
    return vpair(L(c["linear"]), L(c["rsh"]), L(c["sao"]), L(c["shape"]), L(r["cl"]))


# ------------------------------------------------------------------ Coq literals
def ax_lit(a):
    if a is None:
        return "AxNone"
    if isinstance(a, list):
        return f"(AxTup {vlist(a)})"
    return f"(AxInt {vZ(a)})"


def op_lit(op):
    k = op["op"]
    if k == "transpose":
        return "(OTranspose None)" if op["axes"] is None else f"(OTranspose (Some {vlist(op['axes'])}))"
    if k == "T":
        return "OT"
    if k == "mT":
        return "OMT"
    if k == "swapaxes":
        return f"(OSwap {vZ(op['a'])} {vZ(op['b'])})"
    if k == "moveaxis":
        return f"(OMove {ax_lit(op['s'])} {ax_lit(op['d'])})"
    if k == "reshape":
        return f"(OReshape {vlist(op['shape'])})"
    if k == "flatten":
        return "OFlatten"
    if k == "squeeze":
        return f"(OSqueeze {ax_lit(op['axis'])})"
    if k == "expand_dims":
        return f"(OExpand {vZ(op['axis'])})"
    if k == "flip":
        return f"(OFlip {ax_lit(op['axis'])})"
    if k == "roll":
        s = op["shift"]
        sl = f"(ShTup {vlist(s)})" if isinstance(s, list) else f"(ShInt {vZ(s)})"
        return f"(ORoll {sl} {ax_lit(op['axis'])})"
    if k == "pad":
        pw = op["pw"]
        if not isinstance(pw, list):
            pl = f"(PW0 {vZ(pw)})"
        elif pw and isinstance(pw[0], list):
            pl = f"(PW2 {vlist(pw, vlist)})"
        else:
            pl = f"(PW1 {vlist(pw)})"
        cv = "None" if op.get("cv") is None else f"(Some {vZ(op['cv'])})"
        return f"(OPad {pl} {cv})"
    if k == "broadcast_to":
        return f"(OBroadcast {vlist(op['shape'])})"
    if k == "broadcast_arrays":
        return f"(OBroadcastArrays {vlist(op['other'])})"
    raise ValueError(k)


# ------------------------------------------------------------------ generators
def perms_with_negatives(rng, nd, all_neg_variants):
    out = []
    for p in itertools.permutations(range(nd)):
        out.append(list(p))
        if nd:
            if all_neg_variants:
                out.append([a - nd for a in p])
            out.append([a - nd if rng.random() < 0.5 else a for a in p])
    return out


def ordered_factorizations(n, k):
    """all k-tuples of positive integers with product n"""
    if k == 1:
        return [[n]]
    out = []
    for d in range(1, n + 1):
        if n % d == 0:
            for rest in ordered_factorizations(n // d, k - 1):
                out.append([d] + rest)
    return out


def fmt_cycle(rng, nd, thorough=False):
    """formats to exercise for an input of nd axes: COO always; GCXS with every compressed-axes subset
    (thorough) or a random one (quick); DOK sometimes"""
    out = [("coo", None)]
    if nd >= 2:
        subs = [list(c) for r in range(1, nd) for c in itertools.combinations(range(nd), r)]
        if thorough:
            out += [("gcxs", c) for c in subs]
        else:
            out.append(("gcxs", rng.choice(subs)))
    else:
        out.append(("gcxs", None))
    return out


def with_format(spec, fmt, caxes):
    s = dict(spec)
    s["format"] = fmt
    s["caxes"] = caxes
    return s


def gen_cases(tier, seed):
    rng = random.Random(seed)
    th = tier == "thorough"
    cases = []

    def arr(shape=None, ndim=None, fills=(0, 0, 3, -1), extents=(0, 1, 2, 3), density=None):
        return vlib.gen_array_spec(rng, ndim=ndim, extents=extents, fills=fills, shape=shape, density=density)

    def add(spec, op, formats=None, stream="valid", huge=False):
        nd = len(spec["shape"])
        fl = formats if formats is not None else fmt_cycle(rng, nd, th)
        for fmt, ca in fl:
            sp = with_format(spec, fmt, ca)
            sp["dtype"] = rng.choice(["int64", "int64", "int64", "float64", "int16", "complex128"])
            cases.append({"spec": sp, "op": op, "stream": stream, "huge": huge})

    coo_only = [("coo", None)]
    with_dok = lambda nd: fmt_cycle(rng, nd, th) + [("dok", None)]  # noqa: E731

    # ---- A. transpose / permute_dims: all permutations, negative axis numbers
    for nd in range(0, 6 if th else 5):
        reps = 2 if nd <= 3 else 1
        for p in perms_with_negatives(rng, nd, th or nd <= 3):
            for _ in range(reps):
                ext = (0, 1, 2, 3) if nd <= 3 else (1, 2, 2, 3) if nd == 4 else (1, 2)
                s = arr(ndim=nd, extents=ext)
                add(s, {"op": "transpose", "axes": p, "api": rng.choice(["method", "permute_dims"])},
                    formats=None if (nd <= 3 or th) else [rng.choice(fmt_cycle(rng, nd))])
        add(arr(ndim=nd), {"op": "transpose", "axes": None, "api": "method"})
    # ---- B. T / mT / matrix_transpose
    for _ in range(30 if not th else 120):
        s = arr(ndim=rng.randint(0, 4))
        add(s, {"op": "T"})
        add(s, {"op": "mT", "api": rng.choice(["method", "matrix_transpose"])},
            stream="valid" if len(s["shape"]) >= 2 else "malformed")
    # ---- C. swapaxes: all pairs incl. negative; moveaxis: all single pairs + tuples
    for nd in range(1, 5 if th else 4):
        for a in range(-nd, nd):
            for b in range(-nd, nd):
                add(arr(ndim=nd), {"op": "swapaxes", "a": a, "b": b}, formats=coo_only)
                add(arr(ndim=nd), {"op": "moveaxis", "s": a, "d": b},
                    formats=[rng.choice(fmt_cycle(rng, nd, th))])
        for _ in range(25 if not th else 150):
            k = rng.randint(1, nd)
            src = rng.sample(range(nd), k)
            dst = rng.sample(range(nd), k)
            src = [a - nd if rng.random() < 0.3 else a for a in src]
            dst = [a - nd if rng.random() < 0.3 else a for a in dst]
            add(arr(ndim=nd), {"op": "moveaxis", "s": src, "d": dst}, formats=[rng.choice(fmt_cycle(rng, nd, th))])
    # ---- D. reshape: all factorizations of sizes <= 48 as targets, incl. one -1; flatten
    sizes = list(range(1, 49))
    for n in sizes:
        srcs = [f for k in (1, 2, 3, 4) for f in ordered_factorizations(n, k) if f.count(1) <= 1]
        tgts = [f for k in (1, 2, 3) for f in ordered_factorizations(n, k) if f.count(1) <= 1]
        if not th and n > 24:
            tgts = rng.sample(tgts, min(len(tgts), 12))
        for t in tgts:
            src = rng.choice(srcs)
            s = arr(shape=src, density=rng.choice([0.15, 0.4, 1.0]))
            fl = [rng.choice(with_dok(len(src)))]
            add(s, {"op": "reshape", "shape": t, "api": rng.choice(["method", "func"])}, formats=fl)
            positions = range(len(t)) if th else [rng.randrange(len(t))]
            for pos in positions:
                t1 = list(t)
                t1[pos] = -1
                src1 = rng.choice(srcs)
                add(arr(shape=src1, density=rng.choice([0.15, 0.4, 1.0])),
                    {"op": "reshape", "shape": t1, "api": "method"}, formats=[rng.choice(with_dok(len(src1)))])
        add(arr(shape=rng.choice(srcs)), {"op": "reshape", "shape": [n], "int_shape": True, "api": "method"},
            formats=coo_only)
        add(arr(shape=rng.choice(srcs)), {"op": "reshape", "shape": [-1], "int_shape": True, "api": "method"},
            formats=coo_only)
    # zero-size and 0-d sources / targets
    for src, t in [([0], [0]), ([0], [0, 3]), ([0, 3], [3, 0]), ([0, 3], [0]), ([2, 0, 2], [0, 5]), ([0, 3], [-1]),
                   ([0, 3], [3, -1]), ([0, 3], [-1, 3]), ([3, 0], [5, 0, -1]), ([], [1]), ([], [1, 1]), ([], [-1]),
                   ([1], []), ([1, 1], []), ([], []), ([2, 3], [2, 3]), ([2, 0], [0, 2, 7])]:
        add(arr(shape=src), {"op": "reshape", "shape": t, "api": "method"}, formats=with_dok(len(src)))
    for _ in range(40 if not th else 200):
        s = arr(ndim=rng.randint(0, 4))
        add(s, {"op": "flatten"})
    # ---- E. squeeze: all / one / tuple; expand_dims
    for _ in range(50 if not th else 300):
        nd = rng.randint(0, 4)
        shape = [rng.choice([1, 1, 1, 2, 3, 0]) for _ in range(nd)]
        s = arr(shape=shape)
        ones = [i for i, d in enumerate(shape) if d == 1]
        add(s, {"op": "squeeze", "axis": None, "api": rng.choice(["method", "func"])}, formats=coo_only)
        for a in ones:
            add(s, {"op": "squeeze", "axis": a, "api": "method"}, formats=coo_only)
        for r in range(0, len(ones) + 1):
            for sub in itertools.combinations(ones, r):
                if rng.random() < (1.0 if th else 0.5):
                    add(s, {"op": "squeeze", "axis": list(sub), "api": "method"}, formats=coo_only)
        if ones:   # negative axis numbers (NumPy accepts them)
            a = rng.choice(ones)
            add(s, {"op": "squeeze", "axis": a - nd, "api": "method"}, formats=coo_only)
    for nd in range(0, 5 if th else 4):
        for a in range(-(nd + 1), nd + 1):
            for _ in range(2):
                add(arr(ndim=nd), {"op": "expand_dims", "axis": a}, formats=with_dok(nd) if rng.random() < 0.4 else coo_only)
    # ---- F. flip over all axis subsets (tuple, int, None, negative)
    for nd in range(0, 5 if th else 4):
        for r in range(0, nd + 1):
            for sub in itertools.combinations(range(nd), r):
                sub = [a - nd if rng.random() < 0.35 else a for a in sub]
                add(arr(ndim=nd), {"op": "flip", "axis": list(sub)}, formats=with_dok(nd) if rng.random() < 0.3 else coo_only)
        for a in range(-nd, nd):
            add(arr(ndim=nd), {"op": "flip", "axis": a}, formats=coo_only)
        add(arr(ndim=nd), {"op": "flip", "axis": None})
    # ---- G. roll: all shifts in [-2n, 2n]; scalar and tuple shifts/axes; axis=None
    for n in ([0, 1, 2, 3, 5] if not th else [0, 1, 2, 3, 4, 5, 7]):
        for sft in range(-2 * n - 1, 2 * n + 2):
            for ax in (0, -1, None):
                add(arr(shape=[n], density=rng.choice([0.4, 0.7, 1.0])), {"op": "roll", "shift": sft, "axis": ax},
                    formats=coo_only if rng.random() < 0.8 else [("gcxs", None), ("dok", None)])
    for _ in range(150 if not th else 900):
        nd = rng.randint(2, 3 if not th else 4)
        shape = [rng.choice([0, 1, 2, 3, 4]) for _ in range(nd)]
        s = arr(shape=shape, density=rng.choice([0.15, 0.4, 0.7, 1.0]))
        mode = rng.choice(["int_int", "int_none", "tup_tup", "int_tupfull", "tup1_tup", "int_tup1"])
        big = lambda a: rng.randint(-2 * max(shape[a], 1), 2 * max(shape[a], 1))  # noqa: E731
        if mode == "int_int":
            a = rng.randrange(-nd, nd)
            op = {"op": "roll", "shift": big(a), "axis": a}
        elif mode == "int_none":
            tot = 1
            for d in shape:
                tot *= d
            op = {"op": "roll", "shift": rng.randint(-2 * tot - 1, 2 * tot + 1), "axis": None}
        elif mode == "tup_tup":
            k = rng.randint(2, nd)
            axes = [rng.randrange(-nd, nd) for _ in range(k)]          # repeated axes allowed (shifts add up)
            op = {"op": "roll", "shift": [big(a) for a in axes], "axis": axes}
        elif mode == "int_tupfull":
            axes = list(range(nd))
            rng.shuffle(axes)
            op = {"op": "roll", "shift": rng.randint(-5, 5), "axis": axes}
        elif mode == "tup1_tup":
            axes = list(range(nd))
            op = {"op": "roll", "shift": [rng.randint(-5, 5)], "axis": axes}
        else:
            op = {"op": "roll", "shift": rng.randint(-5, 5), "axis": [rng.randrange(-nd, nd)]}
        add(s, op, formats=coo_only if rng.random() < 0.7 else [rng.choice(with_dok(nd))])
    # D7: scalar shift, tuple of axes shorter than ndim (>= 3-d)
    for _ in range(6 if not th else 30):
        nd = rng.choice([3, 3, 4])
        s = arr(ndim=nd, extents=(1, 2, 3))
        k = rng.randint(2, nd - 1)
        add(s, {"op": "roll", "shift": rng.randint(-3, 3), "axis": rng.sample(range(nd), k)}, formats=coo_only)
    # ---- H. pad: widths <= 3, scalar / pair / per-axis pairs; fills 0 and non-zero
    for nd in range(0, 4 if not th else 5):
        ext = (0, 1, 2, 3) if nd <= 2 else (1, 2)
        for p in range(0, 4):
            s = arr(ndim=nd, extents=ext)
            add(s, {"op": "pad", "pw": p, "cv": None if s["fill"] == 0 else s["fill"]}, formats=with_dok(nd) if p == 1 else coo_only)
        for b in range(0, 4):
            for a in range(0, 4):
                if nd <= 2 or rng.random() < 0.4:
                    s = arr(ndim=nd, extents=ext)
                    form = rng.choice(["flat", "nested"])
                    add(s, {"op": "pad", "pw": [b, a] if form == "flat" else [[b, a]],
                            "cv": s["fill"] if rng.random() < 0.7 or s["fill"] != 0 else None}, formats=coo_only)
        for _ in range(20 if not th else 100):
            s = arr(ndim=nd, extents=ext)
            pw = [[rng.randint(0, 3), rng.randint(0, 3)] for _ in range(nd)]
            if nd:
                add(s, {"op": "pad", "pw": pw, "cv": s["fill"]}, formats=coo_only if rng.random() < 0.7 else fmt_cycle(rng, nd, th))
        s = arr(ndim=nd, extents=ext)
        add(s, {"op": "pad", "pw": [2], "cv": s["fill"]}, formats=coo_only)
    # ---- I. broadcast_to / broadcast_arrays: length-1 axes, new leading axes
    for _ in range(160 if not th else 900):
        nd = rng.randint(0, 3)
        shape = [rng.choice([1, 1, 2, 3, 0]) for _ in range(nd)]
        s = arr(shape=shape, density=rng.choice([0.0, 0.4, 0.7, 1.0]))
        lead = [rng.choice([1, 2, 3, 0]) for _ in range(rng.choice([0, 0, 1, 1, 2]))]
        tgt = lead + [d if d != 1 else rng.choice([1, 2, 3, 0]) for d in shape]
        if rng.random() < 0.75:
            add(s, {"op": "broadcast_to", "shape": tgt, "api": rng.choice(["method", "func"])}, formats=coo_only)
        else:
            other = [d if rng.random() < 0.6 else 1 for d in tgt]
            other = other[rng.randint(0, len(other)):] if rng.random() < 0.3 else other
            add(s, {"op": "broadcast_arrays", "other": other}, formats=coo_only)

    # ---- J. huge logical sizes (the model is exact in Z); COO only
    def huge(shape, coords, data, fill=0):
        return {"shape": shape, "coords": coords, "data": data, "fill": fill, "format": "coo", "caxes": None}
    M = 10 ** 6
    hs = [
        huge([M, M, M], [[1, 5, 999999], [2, 7, 0], [999999, 9, 3]], [1, 2, 3]),
        huge([999983, 999979, 1000003], [[1, 2, 3], [5, 7, 9], [999982, 999978, 1000002]], [1, 2, 3]),   # odd size > 2^53 (D12)
        huge([2 ** 20, 2 ** 20, 2 ** 20], [[0, 0, 1], [3, 1, 4], [2 ** 20 - 1, 2 ** 20 - 1, 2 ** 20 - 1]], [4, 5, 6], fill=0),
        huge([3, 2 ** 53 // 3 + 1], [[0, 5], [2, 2 ** 53 // 3]], [7, 8]),                               # just above 2^53
        huge([2 ** 26, 2 ** 26], [[1, 2], [2 ** 26 - 1, 2 ** 26 - 1]], [1, 2]),                           # 2^52: inside
        huge([94906267, 94906267], [[1, 2], [94906266, 94906266]], [1, 2]),                               # just above 2^53, odd
    ]
    for h in hs:
        sh = h["shape"]
        for p in itertools.permutations(range(len(sh))):
            cases.append({"spec": h, "op": {"op": "transpose", "axes": list(p), "api": "method"}, "stream": "huge", "huge": True})
        tot = 1
        for d in sh:
            tot *= d
        tg = [[tot], [-1], [sh[0], -1], [-1, sh[-1]], [tot // sh[-1], sh[-1]], [sh[0], tot // sh[0]], [-1, 1]] + \
             ([[sh[0] * sh[1], -1], [-1, sh[1] * sh[2]], [sh[0], sh[1], -1], [sh[2], sh[1], -1]] if len(sh) == 3 else [])
        for t in tg:
            cases.append({"spec": h, "op": {"op": "reshape", "shape": t, "api": "method"}, "stream": "huge", "huge": True})
        cases.append({"spec": h, "op": {"op": "flatten"}, "stream": "huge", "huge": True})
        cases.append({"spec": h, "op": {"op": "T"}, "stream": "huge", "huge": True})
        cases.append({"spec": h, "op": {"op": "roll", "shift": 3, "axis": None}, "stream": "huge", "huge": True})
        cases.append({"spec": h, "op": {"op": "flip", "axis": None}, "stream": "huge", "huge": True})
        cases.append({"spec": h, "op": {"op": "roll", "shift": -7, "axis": 0}, "stream": "huge", "huge": True})
        cases.append({"spec": h, "op": {"op": "expand_dims", "axis": 1}, "stream": "huge", "huge": True})

    # GCXS has its own copy of the `-1` inference (GCXS.reshape; float division until commit 0bffb82): regression
    # cases; a shape whose compressed axis is short keeps indptr small
    hg = dict(hs[3])
    hg["format"], hg["caxes"] = "gcxs", [0]
    # (targets of shape (n, 3) are left out: GCXS.reshape then allocates O(n) intermediates -> MemoryError, a
    #  memory-proportionality matter of C16, not a value question)
    for t in ([-1], [3, -1], [1, -1], [-1, 1, hs[3]["shape"][1]]):
        cases.append({"spec": hg, "op": {"op": "reshape", "shape": t, "api": "method"}, "stream": "huge", "huge": True})
    cases.append({"spec": hg, "op": {"op": "flatten"}, "stream": "huge", "huge": True})
    # which functions the other formats offer at all (AttributeError on the method = not offered)
    for _ in range(4):
        s = arr(shape=[2, 1, 3])
        for fmt, ca in (("gcxs", [0]), ("dok", None)):
            for op in ({"op": "squeeze", "axis": None, "api": "func"}, {"op": "broadcast_to", "shape": [2, 2, 3], "api": "func"},
                       {"op": "swapaxes", "a": 0, "b": 1}, {"op": "T"}, {"op": "mT", "api": "method"},
                       {"op": "transpose", "axes": [2, 0, 1], "api": "permute_dims"}, {"op": "flatten"},
                       {"op": "moveaxis", "s": 0, "d": 2}, {"op": "broadcast_arrays", "other": [4, 2, 1, 3]}):
                cases.append({"spec": with_format(s, fmt, ca), "op": op, "stream": "valid", "huge": False})

    # ---- R. repeated / sign-aliased axes in tuple form.  roll: NumPy ADDS the shifts of pairs naming the same axis
    #         (shifts that are no multiples of the extent); moveaxis / flip / squeeze / transpose / permute_dims: the same
    #         axis named twice, once from the end, must be rejected as NumPy does; swapaxes(a, a - ndim) is the identity
    for nd in (1, 2, 3):
        for rep in range(4 if not th else 16):
            shape = [rng.choice([2, 3, 4, 5]) for _ in range(nd)]
            a = rng.randrange(nd)
            n = shape[a]
            s1, s2, s3 = rng.randint(1, n - 1), rng.randint(1, 2 * n + 1), -rng.randint(1, n + 2)
            if (s1 + s2) % n == s2 % n:
                s1 += 1
            for shift, axes in (([s1, s2], [a, a]), ([s1, s2], [a, a - nd]), ([s1, s2, s3], [a, a - nd, a]),
                                ([s3, s1], [a - nd, a]), (1, [a, a]), (rng.randint(1, n - 1) or 1, [a, a - nd]),
                                ([s1, s2, s3], [a, (a + 1) % nd, a - nd])):
                add(arr(shape=shape, density=rng.choice([0.4, 0.7, 1.0])), {"op": "roll", "shift": shift, "axis": axes},
                    formats=coo_only)
            ones = list(shape)
            ones[a] = 1
            sq = arr(shape=ones)
            for op in ({"op": "moveaxis", "s": [a, (a + 1) % nd][:min(2, nd)], "d": [a, a - nd][:min(2, nd)]},
                       {"op": "moveaxis", "s": [a, a - nd], "d": [a, (a + 1) % nd]},
                       {"op": "flip", "axis": [a, a - nd]}, {"op": "flip", "axis": [a - nd, a]},
                       {"op": "transpose", "axes": [a - nd if k == (a + 1) % nd else k for k in range(nd)] if nd > 1 else [0, -1], "api": "method"},
                       {"op": "transpose", "axes": [a, a - nd] + [k for k in range(nd) if k != a][1:], "api": "permute_dims"},
                       {"op": "swapaxes", "a": a, "b": a - nd}):
                add(arr(shape=shape), op, formats=coo_only if rng.random() < 0.7 else fmt_cycle(rng, nd, th), stream="malformed")
            add(sq, {"op": "squeeze", "axis": [a, a - nd], "api": "method"}, formats=coo_only, stream="malformed")
            add(sq, {"op": "squeeze", "axis": [a - nd, a], "api": "func"}, formats=coo_only, stream="malformed")
    # ---- S. broadcast_to on 4-d / 5-d inputs with INTERIOR broadcast axes (the kept axes are not adjacent: the result
    #         must be re-sorted; the raw coordinate order is compared with the model)
    for src, tgt in ([[2, 3, 1, 4], [2, 3, 5, 4]], [[2, 1, 3, 2], [2, 4, 3, 2]], [[3, 2, 1, 2], [3, 2, 3, 2]],
                     [[2, 1, 2, 1, 2], [2, 3, 2, 4, 2]], [[2, 2, 1, 3, 1], [2, 2, 2, 3, 2]], [[1, 2, 3, 1, 2], [3, 2, 3, 2, 2]],
                     [[2, 1, 3], [4, 2, 5, 3]], [[2, 3, 1, 2], [1, 2, 3, 2, 2]], [[2, 2, 1, 1, 3], [2, 2, 2, 2, 3]],
                     [[1, 2, 2, 1, 2], [2, 2, 2, 3, 2]]):
        for _ in range(2 if not th else 6):
            add(arr(shape=src, density=rng.choice([0.3, 0.7, 1.0])),
                {"op": "broadcast_to", "shape": tgt, "api": rng.choice(["method", "func"])}, formats=coo_only)

    # ---- N. narrow index dtypes (int8 / uint8 / int16 coordinates), extents and results crossing 127 / 255 / 32767,
    #         few stored elements with the high end populated: a result coordinate that wraps is caught by the exact
    #         comparison with the model (unbounded Z) and by the dense comparison with the Spec
    def narrow(shape, idt, fill=0, k=5):
        allidx = list(itertools.product(*[range(d) for d in shape]))
        pos = set(rng.sample(allidx, min(k, len(allidx)))) | {allidx[-1], allidx[-2 if len(allidx) > 1 else -1], allidx[0]}
        pos = sorted(pos)
        vals = [v for v in (1, 2, 3, 4, 5, 6, 7) if v != fill]
        return {"shape": list(shape), "coords": [list(p) for p in pos], "data": [rng.choice(vals) for _ in pos],
                "fill": fill, "format": "coo", "caxes": None, "idx_dtype": idt, "dtype": "int64"}

    nshapes = [((200,), "uint8"), ((255,), "uint8"), ((3, 250), "uint8"), ((250, 3), "uint8"), ((1, 200), "uint8"),
               ((100,), "int8"), ((127,), "int8"), ((120, 2), "int8"), ((2, 125), "int8"),
               ((300,), "int16"), ((2, 150), "int16")]
    if th:
        nshapes += [((2, 2, 120), "uint8"), ((60, 4), "int8"), ((254,), "uint8"), ((126,), "int8")]
    for shape, idt in nshapes:
        nd = len(shape)
        big = max(shape)
        for fill in (0, 3):
            s = narrow(shape, idt, fill)
            cvv = None if fill == 0 else fill
            hi = shape.index(big)
            ops = [
                {"op": "pad", "pw": [[100 if a == hi else 0, 0] for a in range(nd)], "cv": cvv},
                {"op": "pad", "pw": [[rng.randint(20, 140) if a == hi else rng.randint(0, 2), rng.randint(0, 40)] for a in range(nd)], "cv": cvv},
                {"op": "pad", "pw": rng.choice([30, 60, 130]), "cv": cvv},
                {"op": "pad", "pw": [rng.randint(1, 150), rng.randint(0, 3)], "cv": cvv},
                {"op": "flip", "axis": None}, {"op": "flip", "axis": hi - nd},
                {"op": "roll", "shift": rng.randint(1, big), "axis": hi}, {"op": "roll", "shift": -rng.randint(1, big), "axis": hi - nd},
                {"op": "roll", "shift": rng.randint(1, 7), "axis": None},
                {"op": "roll", "shift": [rng.randint(1, 90)] * nd, "axis": list(range(nd))},
                {"op": "T"}, {"op": "transpose", "axes": list(range(nd))[::-1], "api": "permute_dims"},
                {"op": "flatten"}, {"op": "reshape", "shape": [-1], "api": "method"},
                {"op": "expand_dims", "axis": 0}, {"op": "expand_dims", "axis": -1},
                {"op": "broadcast_to", "shape": [2] + list(shape), "api": "method"},
                {"op": "broadcast_to", "shape": [3 if d == 1 else d for d in shape], "api": "func"},
                {"op": "squeeze", "axis": None, "api": "method"},
                {"op": "moveaxis", "s": 0, "d": -1},
            ]
            tot = 1
            for d in shape:
                tot *= d
            for f in ordered_factorizations(tot, 2):
                if f[0] in (2, 3, 5) or f[1] in (2, 3, 5):
                    ops.append({"op": "reshape", "shape": f, "api": "method"})
                    ops.append({"op": "reshape", "shape": [f[0], -1], "api": "func"})
            for op in ops:
                cases.append({"spec": s, "op": op, "stream": "narrow", "huge": False})
            if nd == 2:     # GCXS whose tocoo() keeps the compact coordinates
                sg = dict(s)
                sg["format"], sg["caxes"] = "gcxs", [rng.choice([0, 1])]
                for op in ops[:4] + ops[10:14]:
                    cases.append({"spec": sg, "op": op, "stream": "narrow", "huge": False})
    # int16 across 32767 (stored positions only are compared: logical size beyond the dense bound)
    for shape in ((32700,), (2, 16380)):
        s = narrow(shape, "int16", 0)
        nd = len(shape)
        for op in ({"op": "pad", "pw": [[0, 0]] * (nd - 1) + [[100, 0]], "cv": None}, {"op": "pad", "pw": 40, "cv": None},
                   {"op": "flip", "axis": None}, {"op": "flatten"}, {"op": "T"}, {"op": "expand_dims", "axis": 0},
                   {"op": "reshape", "shape": [-1, 2], "api": "method"}, {"op": "broadcast_to", "shape": [2] + list(shape), "api": "method"}):
            cases.append({"spec": s, "op": op, "stream": "narrow", "huge": True})

    # ---- K. malformed stream: arguments NumPy rejects (compare the exception class with the model)
    mal = []
    for _ in range(40 if not th else 200):
        nd = rng.randint(0, 3)
        s = arr(ndim=nd, extents=(1, 2, 3))
        sz = 1
        for d in s["shape"]:
            sz *= d
        choices = [
            {"op": "transpose", "axes": [rng.randint(-nd - 2, nd + 1) for _ in range(nd)], "api": "method"},
            {"op": "transpose", "axes": list(range(nd)) + [0], "api": "method"},
            {"op": "transpose", "axes": list(range(max(nd - 1, 0))), "api": "permute_dims"},
            {"op": "swapaxes", "a": rng.randint(-nd - 2, nd + 1), "b": rng.randint(-nd - 2, nd + 1)},
            {"op": "moveaxis", "s": rng.randint(-nd - 2, nd + 1), "d": rng.randint(-nd - 2, nd + 1)},
            {"op": "moveaxis", "s": [0, 0][:max(1, min(2, nd))], "d": [0, 1][:max(1, min(2, nd))]},
            {"op": "moveaxis", "s": [0, 1][:max(1, min(2, nd))], "d": [0, 0][:max(1, min(2, nd))]},
            {"op": "moveaxis", "s": [0], "d": [0, 1]},
            {"op": "reshape", "shape": [sz + 1], "api": "method"},
            {"op": "reshape", "shape": [2, -1, 5], "api": "method"},
            {"op": "reshape", "shape": [-1, -1], "api": "method"},
            {"op": "reshape", "shape": [0, -1], "api": "method"},
            {"op": "reshape", "shape": [-1, -2], "api": "method"},
            {"op": "reshape", "shape": [-3], "api": "func"},
            {"op": "squeeze", "axis": rng.randint(-nd - 2, nd + 1), "api": "method"},
            {"op": "squeeze", "axis": [0, 0], "api": "method"},
            {"op": "squeeze", "axis": list(range(nd)), "api": "method"},
            {"op": "expand_dims", "axis": rng.choice([nd + 1, nd + 2, -nd - 2, -nd - 3])},
            {"op": "flip", "axis": rng.randint(-nd - 2, nd + 1)},
            {"op": "flip", "axis": [0, 0]},
            {"op": "flip", "axis": [0, -nd] if nd else [0]},
            {"op": "roll", "shift": 1, "axis": rng.choice([nd, nd + 1, -nd - 1])},
            {"op": "roll", "shift": [1, 2], "axis": [0]},
            {"op": "roll", "shift": [1, 2], "axis": 0},
            {"op": "roll", "shift": [1, 2, 3], "axis": [0, 1][:max(1, min(2, nd))]},
            {"op": "roll", "shift": 1, "axis": []},
            {"op": "roll", "shift": [1, 2], "axis": None},
            {"op": "pad", "pw": -1, "cv": s["fill"]},
            {"op": "pad", "pw": [[-1, 0]], "cv": s["fill"]},
            {"op": "pad", "pw": [[0, -1]], "cv": s["fill"]},
            {"op": "pad", "pw": [1, 2, 3], "cv": s["fill"]},
            {"op": "pad", "pw": [[1, 2]] * (nd + 2), "cv": s["fill"]},
            {"op": "pad", "pw": 1, "cv": s["fill"] + 1},
            {"op": "broadcast_to", "shape": [d + 1 if d != 1 else d for d in s["shape"]] or [2], "api": "method"},
            {"op": "broadcast_to", "shape": s["shape"][1:], "api": "func"},
            {"op": "broadcast_to", "shape": [2] + [d + 2 for d in s["shape"]], "api": "method"},
            {"op": "broadcast_arrays", "other": [d + 4 for d in s["shape"]] or [1]},
            {"op": "mT", "api": "method"},
        ]
        for op in rng.sample(choices, 12 if not th else 20):
            mal.append({"spec": with_format(s, "coo", None), "op": op, "stream": "malformed", "huge": False})
    # size-0 / size-1 arrays accept several -1 (NumPy: "can only specify one unknown dimension")
    for sh in ([1], [0], [1, 1], [0, 3]):
        mal.append({"spec": with_format(arr(shape=sh), "coo", None), "op": {"op": "reshape", "shape": [-1, -1], "api": "method"},
                    "stream": "malformed", "huge": False})
    cases += mal
    return cases


# ------------------------------------------------------------------ campaign
def np_incomparable(c):
    """cases on which the Spec deliberately is not NumPy's behaviour (documented in the Spec / report)"""
    op, nd = c["op"], len(c["spec"]["shape"])
    if op["op"] == "pad" and (op.get("cv") if op.get("cv") is not None else 0) != c["spec"]["fill"]:
        return True       # the sparse pad only offers constant_values == fill_value
    if op["op"] == "reshape" and any(d < -1 for d in op["shape"]):
        return True       # NumPy treats every negative extent as the unknown one; the property speaks of -1
    if op["op"] == "squeeze" and nd == 0 and op["axis"] is not None:
        return True       # np.squeeze(0-d, axis=0 / -1) is accepted for backward compatibility
    if op["op"] == "roll" and nd == 0 and op["axis"] == []:
        return True       # np.roll(0-d, s, axis=()) raises from an unrelated unpacking quirk
    return False


def replay_line(case):
    s, op = case["spec"], case["op"]
    if case.get("seq"):
        return ("import sys; sys.path.insert(0,'/verif/tools'); import vlib, sparse, numpy as np; from props.c08 import apply_op, apply_np; "
                f"s={json.dumps(s)}; seq={json.dumps(case['seq'])}; x=vlib.build_array(s); x.enable_caching(); d=vlib.spec_dense(s)\n"
                "def t(f):\n"
                "    try:\n"
                "        r=f(); return (type(r).__name__, getattr(r,'shape',None))\n"
                "    except Exception as e: return type(e).__name__+': '+str(e)[:100]\n"
                "for op in seq: print(op, 'sparse (same cached object):', t(lambda: apply_op(sparse,x,op)), ' numpy:', t(lambda: apply_np(np,d,op)))"
                ).replace("null", "None").replace("true", "True").replace("false", "False")
    return ("import sys; sys.path.insert(0,'/verif/tools'); import vlib, sparse, numpy as np; from props.c08 import apply_op, apply_np; "
            f"s={json.dumps(s)}; op={json.dumps(op)}; x=vlib.build_array(s, idx_dtype=s.get('idx_dtype')); d=vlib.spec_dense(s)\n"
            "def t(f):\n"
            "    try:\n"
            "        r=f(); return (type(r).__name__, getattr(r,'shape',None), (r.todense() if hasattr(r,'todense') else r).tolist() if np.prod(getattr(r,'shape',(1,)))<10**5 else r)\n"
            "    except Exception as e: return type(e).__name__+': '+str(e)[:100]\n"
            "print('sparse:', t(lambda: apply_op(sparse,x,op))); print('numpy :', t(lambda: apply_np(np,d,op)))").replace("null", "None").replace("true", "True").replace("false", "False")


def judge_by_weight(build, name, imports, case_type, judge_fn, lits, weights, max_weight, max_count):
    """build.judge with chunks bounded by total literal size (long list literals overflow coqc's parser stack)"""
    import re
    header = ("From Coq Require Import ZArith List Bool.\n" + imports + "\nFrom Verif Require Import Judge.\n"
              "Import ListNotations.\nOpen Scope Z_scope.\nSet Printing Width 1000000.\nSet Printing Depth 1000000.\n")
    groups, cur, w = [], [], 0
    for k, (l, wt) in enumerate(zip(lits, weights, strict=True)):
        if cur and (w + wt > max_weight or len(cur) >= max_count):
            groups.append(cur)
            cur, w = [], 0
        cur.append(k)
        w += wt
    if cur:
        groups.append(cur)
    chunks = [f"Definition cases : list ({case_type}) := [\n" + ";\n".join(lits[k] for k in g) +
              f"].\nEval vm_compute in (run_judge ({judge_fn}) cases)." for g in groups]
    outs = build.eval_cases(name, header, chunks, timeout=600)
    res = []
    for g, out in zip(groups, outs, strict=True):
        ev = vlib.parse_eval_lists(out)
        if len(ev) != 1:
            raise vlib.CoqEvalError(f"unexpected Coq output for {name}: {out[-800:]}")
        for m in re.finditer(r"\(\s*(-?\d+)\s*,\s*(-?\d+)\s*\)", ev[0]):
            res.append((g[int(m.group(1))], int(m.group(2))))
    return res


def campaign(build, tier, seed, report, budget=1):
    viol = []
    cases = gen_cases(tier, seed)
    res = vlib.run_impl("props.c08", "impl_op", cases, workers=6)
    # sequences on one cache-enabled object: every step is judged like a single call (the cache must be unobservable)
    sqs = seq_cases(tier, seed)
    sres = vlib.run_impl("props.c08", "impl_seq", sqs, workers=6)
    for sq, sr in zip(sqs, sres, strict=True):
        for k, op in enumerate(sq["seq"]):
            cases.append({"spec": sq["spec"], "op": op, "stream": "cache", "huge": False, "seq": sq["seq"][:k + 1]})
            res.append(sr["steps"][k] if sr and "steps" in sr else sr)
    keep, lits, np_lits, np_idx = [], [], [], []
    not_offered = {}
    tags = {}
    for i, (c, r) in enumerate(zip(cases, res, strict=True)):
        op = c["op"]
        fmt = c["spec"]["format"]
        if c["spec"].get("idx_dtype") and op["op"] == "roll" and r is not None and \
                (r.get("exc") == "ValueError" and "coords.dtype" in (r.get("msg") or "")):
            # roll's can_store guard refuses shifts that do not fit the compact index type (documented; C15)
            tags["roll/narrow_refused"] = tags.get("roll/narrow_refused", 0) + 1
            continue
        if r is not None and r.get("k") == "notoffered":
            key = f"{op['op']}/{fmt}"
            not_offered[key] = not_offered.get(key, 0) + 1
            continue
        xl = vlib.spec_coo_lit(c["spec"])
        ol = op_lit(op)
        keep.append(i)
        lits.append(vpair(xl, ol, vlib.sarr_lit(r)))
        if r and "np" in r and not np_incomparable(c) and len(r["np"].get("flat") or []) <= 1200:
            np_idx.append(i)
            np_lits.append(vpair(xl, ol, vlib.sarr_lit(r["np"])))
        outcome = "raise" if (r or {}).get("k") == "exc" or "exc" in (r or {}) and "k" not in (r or {}) else (r or {}).get("k", "hang")
        t = f"{op['op']}/{fmt}/{c['stream']}/{outcome}"
        tags[t] = tags.get(t, 0) + 1
        if r and r.get("k") in ("coo", "gcxs", "dok") and r.get("dtype") != r.get("in_dtype"):
            viol.append({"property": "C08", "op": op["op"], "kind": "value", "clause": "dtype_changed", "format": fmt,
                         "case": c, "impl": {k: v for k, v in r.items() if k != "np"}, "replay_py": replay_line(c)})
        if r and r.get("operand_changed"):
            viol.append({"property": "C08", "op": op["op"], "kind": "value", "clause": "operand_modified", "format": fmt,
                         "case": c, "impl": r, "replay_py": replay_line(c)})
    imports = "From Verif Require Import Py Shape COO GCXS SArr ShapeOps NpShapeOps C08Judge."
    bad = build.judge("c08_ops", imports, "c08_case", "judge_c08", lits, chunk=250, timeout=600)
    for k, code in bad:
        i = keep[k]
        c, r = cases[i], res[i]
        op = c["op"]
        if code in (2, 5):
            kind, clause = "representation", (None if code == 2 else "outside_domain_model_mismatch")
        elif code == 1:
            kind, clause = "value", "result_not_canonical"
        elif code == 4:
            kind, clause = "representation", "model_differs_from_spec_in_domain"
        elif code == 3:
            kind, clause = "value", None
        else:
            kind, clause = "value", CLAUSES.get(code - 100, f"clause_{code - 100}")
        rr = dict(r or {})
        npref = rr.pop("np", None)
        viol.append({"property": "C08", "op": op["op"], "kind": kind, "clause": clause, "format": c["spec"]["format"],
                     "verdict_code": code, "case": c, "impl": rr, "numpy": npref, "replay_py": replay_line(c)})
    # GCXS: raw (data, indices, indptr, compressed_axes) against Model/ShapeOpsG.v
    g_idx, g_lits = [], []
    for i in keep:
        c, r = cases[i], res[i]
        op = c["op"]
        if c["spec"]["format"] != "gcxs" or not r or "in" not in r:
            continue
        if op["op"] not in ("transpose", "T", "mT", "moveaxis", "reshape", "flatten", "squeeze", "broadcast_to") or \
                (op["op"] == "mT" and op.get("api") != "method"):
            continue
        g_idx.append(i)
        g_lits.append(vpair(vlib.spec_coo_lit(c["spec"]), vlist(c["spec"]["caxes"] or []), op_lit(op),
                            vlib.sarr_lit(r["in"]), vlib.sarr_lit({k: v for k, v in r.items() if k not in ("np", "in")})))
    gimports = "From Verif Require Import Py Shape COO GCXS SArr Convert ShapeOps NpShapeOps ShapeOpsG C08Judge C08GJudge."
    gbad = build.judge("c08_gcxs", gimports, "c08g_case", "judge_c08g", g_lits, chunk=250, timeout=600)
    for k, code in gbad:
        i = g_idx[k]
        c, r = cases[i], res[i]
        viol.append({"property": "C08", "op": c["op"]["op"], "kind": "representation",
                     "clause": {1: "gcxs_input_not_from_coo", 2: "gcxs_model_exception_class", 3: "gcxs_model_raw_arrays"}[code],
                     "format": "gcxs", "verdict_code": code, "case": c,
                     "impl": {kk: v for kk, v in r.items() if kk != "np"}, "replay_py": replay_line(c)})
    gtags = build.judge("c08_gcxs_tags", gimports, "c08g_case", "tag_c08g", g_lits, chunk=250, timeout=600)
    # kernel level: _convert_coords / _linearize / _c_ordering against their one-iteration models
    kcs = kernel_cases(tier, seed)
    kres = vlib.run_impl("props.c08", "impl_kernel", kcs, workers=6)
    kn = 0
    for kind, ctype, jfn in (("convert", "convert_case", "judge_convert_coords"),
                             ("linearize", "linearize_case", "judge_linearize"),
                             ("c_ordering", "c_ordering_case", "judge_c_ordering"),
                             ("kfun", "kfun_case", "judge_kfun")):
        sel = [j for j, kc in enumerate(kcs) if kc["k"] == kind]
        bad_k = [j for j in sel if not kres[j] or not ({"nl", "cl", "data"} & set(kres[j]))]
        for j in bad_k:
            viol.append({"property": "C08", "op": "kernel:" + kind, "kind": "representation", "clause": "kernel_call_failed",
                         "case": kcs[j], "impl": kres[j], "replay_py": "print('kernel case', %r)" % (kcs[j],)})
        sel = [j for j in sel if j not in bad_k]
        kn += len(sel)
        kb = build.judge("c08_k_" + kind, gimports, ctype, jfn, [kernel_lit(kcs[j], kres[j]) for j in sel], chunk=400)
        for k, code in kb:
            j = sel[k]
            viol.append({"property": "C08", "op": "kernel:" + kind, "kind": "representation", "clause": "kernel_differs_from_model",
                         "case": kcs[j], "impl": kres[j], "replay_py": "print('kernel case', %r)" % (kcs[j],)})
    # Spec vs NumPy itself (validates Spec/NpShapeOps.v; independent of the implementation)
    spec_bad = judge_by_weight(build, "c08_specnp", imports, "c08_case", "judge_spec_np", np_lits,
                               [len(l) for l in np_lits], max_weight=350000, max_count=400)
    for k, code in spec_bad:
        i = np_idx[k]
        c, r = cases[i], res[i]
        viol.append({"property": "C08", "op": c["op"]["op"], "kind": "representation", "clause": "spec_differs_from_numpy",
                     "format": c["spec"]["format"], "verdict_code": code, "case": c, "numpy": r.get("np"),
                     "replay_py": replay_line(c)})
    cov = report["coverage"]
    cov["evaluations"] = len(keep)
    cov["spec_vs_numpy_evaluations"] = len(np_lits)
    cov["gcxs_raw_evaluations"] = len(g_lits)
    cov["gcxs_raw_in_model"] = len(gtags)
    cov["kernel_evaluations"] = kn
    cov["not_offered"] = not_offered
    cov["distinct_nontrivial"] = len({json.dumps([cases[i]["spec"]["shape"], cases[i]["spec"]["coords"], cases[i]["op"]], sort_keys=True)
                                      for i in keep if cases[i]["spec"]["coords"]})
    cov["rule"] = ("exhaustive: all permutations of <=4 axes (5 thorough) with negative axis numbers, all swapaxes/moveaxis "
                   "single pairs, all factorizations of sizes <=48 into <=3 factors as reshape targets (+ one -1), all roll "
                   "shifts in [-2n-1,2n+1] on 1-d, all flip axis subsets, pad widths 0..3 (scalar/pair/per-axis), all "
                   "expand_dims positions; seeded random: arrays (extents 0..3, fills 0/3/-1, densities 0..1), formats "
                   "COO + GCXS(random compressed axes; all subsets in thorough) + DOK where offered, tuple rolls, "
                   "broadcast targets; huge logical sizes (COO); separate malformed stream. distinct = distinct "
                   "(shape, stored pattern, operation) with at least one stored element")
    cov["samples"] = [dict(case=cases[i], impl={k: v for k, v in (res[i] or {}).items() if k != "np"})
                      for i in (keep[0], keep[len(keep) // 3], keep[2 * len(keep) // 3], keep[-1])]
    cov["branch_tags"] = dict(sorted(tags.items()))
    cov["unproved_statements"] = UNPROVED
    cov["differential_only"] = ["GCXS and DOK results (dense meaning vs Spec)",
                                "dtype of the result (compared with the operand's dtype in Python; int64/float64/int16/complex128)"]
    cov["streams"] = {s: sum(1 for i in keep if cases[i]["stream"] == s) for s in ("valid", "malformed", "huge", "narrow", "cache")}
    return viol


def replay(path):
    v = json.load(open(path))
    print(json.dumps({k: v[k] for k in v if k not in ("replay_py",)}, indent=1, default=str)[:3000])
    if "replay_py" in v:
        import subprocess
        p = subprocess.run([vlib.PY, "-c", v["replay_py"]], env=vlib.env_clean(), capture_output=True, text=True)
        print(p.stdout, p.stderr[-800:])
    return 0
