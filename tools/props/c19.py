"""C19 — creation functions and random().

Implementation side (worker processes): sparse.eye / full / zeros / ones / empty / *_like / asarray /
random at API level, and the kernels reverse / algA / algD both compiled (real Generator) and as
`.py_func` (the Python source of the kernels) with a scripted random_state whose answers to the
floating-point tests are recorded by instrumenting the source text (every `while`/`if` comparison and
every np.intp(...) is wrapped by a recorder; nothing else is changed).
Coq side: Corr/C19Judge.v — the generated arithmetic of eye and the generated branch chain of random
(Gen/S_create.v) inside Model/Create.v and Model/Random.v, the kernel models run on the SAME recorded
oracle answers, Spec/NpCreate.v for the dense meaning and for int(elements * density)."""
import itertools
import json
import random as pyrandom
import re
import time

import vlib
from vlib import vZ, vbool, vlist, vopt, vpair

LEVEL = "proof"
TRUSTED_BASE = [
    "Coq 8.16.1 kernel + vm_compute (case evaluation); no native_compute",
    "axioms: none (Print Assumptions: Closed under the global context for every C19 theorem)",
    "tools/py2v.py fragment translator, driven for this area by tools/sitegen/create.py (statement slicing of "
    "_common.eye and _utils.random, fail-closed on the exact text of everything not translated; two rewrites: "
    "builtins.min/max -> min/max, a = b = e -> a = e; b = a) with the table tools/frags/create.py; hand-written "
    "meanings of the non-scalar calls in coq/Lib/PyCreate.v (arange row = its first element, density = its class, "
    "sampler calls = symbolic plan); exercised on every run by comparing the generated eye arithmetic, the "
    "generated nnz and the generated branch (observed by instrumenting the module) with the implementation",
    "Spec/NpCreate.v as a description of np.eye / np.full and of binary64 int(elements * density) "
    "(round-to-nearest-even at 53 bits), cross-checked against NumPy / CPython on every generated case",
    "Model/Random.v: the floating-point tests of algA / algD are oracle answers constrained only structurally "
    "(quot > V impossible at top = 0; intp(N * random()) in [0, N); intp(X) >= 0; Generator.choice(a, 1) in [0, a)); "
    "the recorded answers of real runs are checked against exactly these constraints by the kernel correspondence",
    "Numba compiles the kernels faithfully (compiled kernels are compared structurally, their py_func exactly)",
    "correspondence harness tools/props/c19.py, tools/vlib.py",
]
ASSUMPTIONS = [
    "element values are opaque; dtype handling is differential only (compared with NumPy's result dtype in Python)",
    "termination of algD with probability 1 is not claimed (only: terminates on every stream with accepting events)",
    "uniformity of the sample is not part of C19 and is not claimed",
    "size(shape) < 2^53 (float(elements) exact) in random_structure",
]

FMTS = ["coo", "gcxs", "dok"]
CLS = {"coo": "COO", "gcxs": "GCXS", "dok": "DOK"}


# =============================================================================== implementation side
def _ival(v):
    import numpy as np
    v = np.asarray(v)[()]
    if isinstance(v, (complex, np.complexfloating)):
        if v.imag != 0:
            return 10**9 + 7
        v = v.real
    f = float(v)
    if f != f or f in (float("inf"), float("-inf")) or f != int(f):
        return 10**9 + 7          # a token no expected value equals
    return int(f)


def _raw(x):
    """concrete COO: shape, coords as index tuples, data, fill"""
    import numpy as np
    co = np.asarray(x.coords)
    return {"shape": [int(s) for s in x.shape],
            "coords": [[int(c) for c in co[:, j]] for j in range(co.shape[1])],
            "data": [_ival(v) for v in x.data],
            "fill": _ival(x.fill_value)}


def _dense(x):
    import numpy as np
    d = np.asarray(x.todense() if hasattr(x, "todense") else x)
    return {"shape": [int(s) for s in d.shape], "flat": [_ival(v) for v in d.reshape(-1)]}


def _raw_any(x):
    """concrete stored elements of a COO / GCXS / DOK result in row-major order (DOK: its dict, sorted, so that
    the DOK -> COO conversion is not on the path)"""
    import sparse
    if isinstance(x, sparse.COO):
        return _raw(x), [float(v).hex() for v in x.data.astype(float)]
    if isinstance(x, sparse.DOK):
        items = sorted((tuple(int(i) for i in k), v) for k, v in x.data.items())
        return ({"shape": [int(s) for s in x.shape], "coords": [list(k) for k, _v in items],
                 "data": [_ival(v) for _k, v in items], "fill": _ival(x.fill_value)},
                [float(v).hex() for _k, v in items])
    c = x.tocoo()
    return _raw(c), [float(v).hex() for v in c.data.astype(float)]


def impl_eye(case):
    import numpy as np
    import sparse
    N, M, k, fmt, dt = case
    x = sparse.eye(N, M, k, dtype=np.dtype(dt), format=fmt)
    ref = np.eye(N, M, k, dtype=np.dtype(dt))
    out = {"type": type(x).__name__, "dense": _dense(x), "dtype": str(x.dtype), "np_dtype": str(ref.dtype),
           "np_dense": _dense(ref), "nnz": int(x.nnz), "fill": _ival(x.fill_value)}
    if fmt == "coo":
        out["raw"] = _raw(x)
    return out


def _mk_src(kind, shape, dt):
    import numpy as np
    import sparse
    a = (np.arange(int(np.prod(shape, dtype=int)) or 0).reshape(shape) % 3).astype(dt)
    a = np.asarray(a)              # (x % 3 on a 0-d array gives a NumPy scalar)
    if kind == "ndarray":
        return a
    return getattr(sparse, CLS[kind]).from_numpy(a)


def impl_full(case):
    import numpy as np
    import sparse
    op, sh, sho, v, fmt, dt, src = case
    shape = tuple(sh) if not isinstance(sh, int) else sh
    names = ["full", "zeros", "ones", "empty", "full_like", "zeros_like", "ones_like", "empty_like"]
    fn = getattr(sparse, names[op])
    npfn = getattr(np, names[op])
    kw = {}
    nkw = {}
    if dt is not None:
        kw["dtype"] = np.dtype(dt)
        nkw["dtype"] = np.dtype(dt)
    if op < 4:
        args = (shape, v) if op == 0 else (shape,)
        x = fn(*args, format=fmt, **kw)
        ref = npfn(*args, **nkw)
    else:
        a = _mk_src(src, tuple(sh), "int16")
        na = np.asarray(a.todense() if hasattr(a, "todense") else a)
        if sho is not None:
            kw["shape"] = tuple(sho)
            nkw["shape"] = tuple(sho)
        if fmt is not None:
            kw["format"] = fmt
        args = (a, v) if op == 4 else (a,)
        nargs = (na, v) if op == 4 else (na,)
        x = fn(*args, **kw)
        ref = npfn(*nargs, **nkw)
    out = {"type": type(x).__name__, "dense": _dense(x), "dtype": str(x.dtype), "np_dtype": str(ref.dtype),
           "np_dense": _dense(ref), "nnz": int(x.nnz), "fill": _ival(x.fill_value)}
    if isinstance(x, sparse.COO):
        out["raw"] = _raw(x)
    return out


def impl_asarray(case):
    import numpy as np
    import scipy.sparse as sps
    import sparse
    kind, sh, vals, fmt, dt = case
    a = np.array(vals, dtype="int64").reshape(tuple(sh))
    if kind == "ndarray":
        obj = a
    elif kind == "list":
        obj = a.tolist()
    elif kind == "scalar":
        obj = int(a.reshape(-1)[0])
    elif kind.startswith("scipy_"):
        obj = getattr(sps, kind[6:] + "_matrix")(a)
    else:
        obj = getattr(sparse, CLS[kind]).from_numpy(a)
    kw = {} if dt is None else {"dtype": np.dtype(dt)}
    x = sparse.asarray(obj, format=fmt, **kw)
    ref = np.asarray(obj if kind in ("ndarray", "list", "scalar") else a, **kw)
    out = {"type": type(x).__name__, "dense": _dense(x), "dtype": str(x.dtype), "np_dtype": str(ref.dtype),
           "src": _dense(ref), "fill": _ival(x.fill_value)}
    if isinstance(x, sparse.COO) and kind in ("ndarray", "list", "scalar"):
        out["raw"] = _raw(x)
    return out


_ORIG = {}

# the samplers handed to data_rvs (source text, so that the replay line is exact).  Apart from `arange` they
# return the array's fill value with positive probability: the property demands exactly nnz STORED elements
# carrying the sampler's values whatever those values are (no pruning).
RVS_SRC = {
    "arange": "lambda n: np.arange(1, n + 1)",
    "mod3": "lambda n: np.arange(n) % 3",                              # integers incl. 0
    "bool": "lambda n: np.arange(n) % 2 == 0",                         # booleans incl. False
    "constfill": "lambda n: np.full(n, fv)",                           # every value equals the fill value
    "mixfill": "lambda n: np.where(np.arange(n) % 2 == 0, fv, fv + 7)",
    "nanfill": "lambda n: np.full(n, np.nan)",                         # used with fill_value = NaN
    "zerosf": "lambda n: np.zeros(n)",                                 # floats equal to the default fill
}
NAN_TOKEN = 10**9 + 7


def impl_random(case):
    """one (shape, density|nnz, seed, format, fill, idx_dtype, sampler) request: run once with the module
    instrumented (which sampler was called, with what), twice uninstrumented with the integer seed"""
    import numpy as np
    import sparse
    from sparse.numba_backend import _utils as U
    shape, dens, nnz, seed, fmt, fill, idx, sampler = case
    shape = tuple(shape)
    if not _ORIG:
        _ORIG.update(algA=U.algA, algD=U.algD, reverse=U.reverse)
    calls = []
    sampled = []

    class Proxy:
        def __init__(self, g):
            self.g = g

        def choice(self, a, size):
            calls.append(("choice", int(size), int(a)))
            return self.g.choice(a, size)

        def random(self, *a, **k):
            r = self.g.random(*a, **k)
            if a:
                sampled.append(int(a[0]))
            return r

    def unwrap(rs):
        return rs.g if isinstance(rs, Proxy) else rs

    def wA(n, N, rs):
        calls.append(("algA", int(n), int(N)))
        return _ORIG["algA"](n, N, unwrap(rs))

    def wD(n, N, rs):
        calls.append(("algD", int(n), int(N)))
        return _ORIG["algD"](n, N, unwrap(rs))

    def wR(inv, N):
        calls.append(("reverse", int(len(inv)), int(N)))
        return _ORIG["reverse"](inv, N)

    kw = {"format": fmt}
    if dens is not None:
        kw["density"] = dens
    if nnz is not None:
        kw["nnz"] = nnz
    fillv = float("nan") if fill == "nan" else fill
    if fill is not None:
        kw["fill_value"] = fillv
    if idx is not None:
        kw["idx_dtype"] = np.dtype(idx)
    given = []
    rec = []
    if sampler != "default":
        f = eval(RVS_SRC[sampler], {"np": np, "fv": 0 if fillv is None else fillv})

        def rvs(n):
            given.append(int(n))
            o = f(int(n))
            rec.append([_ival(v) for v in o])      # what the sampler handed out (NaN -> token)
            return o
        kw["data_rvs"] = rvs

    def run(rs):
        try:
            return sparse.random(shape, random_state=rs, **kw), None
        except ValueError as ex:
            return None, "ValueError:" + str(ex)[:80]

    U.algA, U.algD, U.reverse = wA, wD, wR
    try:
        x1, e1 = run(Proxy(np.random.default_rng(seed)))
    finally:
        U.algA, U.algD, U.reverse = _ORIG["algA"], _ORIG["algD"], _ORIG["reverse"]
    n_given = list(given)
    rec1 = rec[0] if rec else None
    x2, e2 = run(seed)
    x3, e3 = run(np.random.default_rng(seed))
    out = {"exc": e1, "calls": calls, "given": n_given, "sampled": sampled, "rec": rec1,
           "el": int(np.prod(shape, dtype=np.intp)),
           "py_prod": int(np.prod(shape, dtype=np.intp) * dens) if dens is not None and 0 <= dens <= 1 else None}
    if x1 is None:
        out["same"] = (x2 is None and x3 is None)
        return out
    if x2 is None or x3 is None:
        out["same"] = False
        out["raw"] = None
        return out
    out["type"] = type(x1).__name__

    def key(x):
        r, hx = _raw_any(x)
        return (type(x).__name__, str(x.dtype), json.dumps(r, sort_keys=True), tuple(hx),
                float(np.asarray(x.fill_value).real).hex())
    out["same"] = key(x1) == key(x2) == key(x3)
    raw = _raw_any(x1)[0]
    if sampler == "default":
        raw["data"] = [1] * len(raw["data"])          # float samples: only their number is compared
    out["raw"] = raw
    out["nnz_attr"] = int(x1.nnz)
    # independent replay of the seeded NumPy stream: the positions must be what a fresh default_rng(seed) yields
    # through the sampler the REQUEST selects (Spec-side choice of branch, uninstrumented kernels)
    try:
        el = int(np.prod(shape, dtype=np.intp))
        n = len(raw["coords"])
        g = np.random.default_rng(seed)

        def base(k):
            if k < 2:
                return np.asarray(g.choice(el, k), dtype=np.intp)
            return _ORIG["algD"](k, el, g) if el > 10 * k else _ORIG["algA"](k, el, g)
        if n == el:
            exp = np.arange(el)
        elif n < 2:
            exp = base(n)
        elif 2 * n > el or el - n < 2:
            exp = _ORIG["reverse"](base(el - n), el)
        else:
            exp = base(n)
        lin = [int(np.ravel_multi_index(tuple(cc), shape)) if shape else 0 for cc in raw["coords"]]
        out["linear"] = lin if len(lin) <= 60 else None
        n_req = nnz if nnz is not None else out["py_prod"] if dens is not None else int(el * 0.01)
        # (a wrong COUNT is the count judge's business: the replay compares positions of a right-sized result)
        out["replay_ok"] = True if n != n_req else lin == [int(v) for v in exp]
        if not out["replay_ok"]:
            out["replay_expected"] = [int(v) for v in exp][:60]
    except Exception as ex:  # noqa: BLE001
        out["replay_ok"] = None
        out["replay_error"] = type(ex).__name__ + ": " + str(ex)[:100]
    out["idx_dtype"] = str(x1.coords.dtype) if isinstance(x1, sparse.COO) else None
    out["fill_dtype"] = str(np.asarray(x1.fill_value).dtype)
    out["data_dtype"] = str(x1.dtype)
    return out


class _Exhausted(Exception):
    pass


class _Script:
    def __init__(self, vals):
        self.vals = vals
        self.i = 0

    def random(self):
        if self.i >= len(self.vals):
            raise _Exhausted()
        v = self.vals[self.i]
        self.i += 1
        return v


_INSTR = {}


def _instrument(name):
    """the kernel's own source text with every while/if comparison and every np.intp(...) wrapped by a recorder"""
    import ast
    import inspect
    import textwrap

    import numpy as np
    from sparse.numba_backend import _utils as U
    if name in _INSTR:
        return _INSTR[name]
    src = textwrap.dedent(inspect.getsource(getattr(U, name).py_func))
    tree = ast.parse(src)
    fn = tree.body[0]
    fn.decorator_list = []
    texts = set()

    def wrap(e):
        t = ast.unparse(e)
        texts.add(t)
        return ast.Call(func=ast.Name(id="_rec", ctx=ast.Load()), args=[ast.Constant(t), e], keywords=[])

    class T(ast.NodeTransformer):
        def visit_While(self, node):
            self.generic_visit(node)
            if isinstance(node.test, ast.Compare):
                node.test = wrap(node.test)
            return node

        def visit_If(self, node):
            self.generic_visit(node)
            if isinstance(node.test, ast.Compare):
                node.test = wrap(node.test)
            return node

        def visit_Call(self, node):
            self.generic_visit(node)
            if ast.unparse(node.func) == "np.intp":
                return wrap(node)
            return node
    tree = ast.fix_missing_locations(T().visit(tree))
    log = []

    def _rec(t, v):
        log.append((t, v))
        return v
    ns = {"np": np, "_rec": _rec}
    exec(compile(tree, f"<instrumented {name}>", "exec"), ns)
    _INSTR[name] = (ns[name], log, texts)
    return _INSTR[name]


A_TEST, A_LAST = "quot > V", "np.intp(N * random_state.random())"
D_S, D_B1, D_B2 = "np.intp(X)", "Vprime <= 1", "y1 * np.exp(np.log(y2) / nmin1inv) <= N / (N - X)"


def impl_kernel(case):
    import warnings

    import numpy as np
    from sparse.numba_backend import _utils as U
    warnings.filterwarnings("ignore")
    kind = case[0]
    if kind == "reverse":
        _k, mode, inv, N = case
        f = U.reverse if mode == "c" else U.reverse.py_func
        try:
            return {"out": [int(v) for v in f(np.array(inv, dtype=np.intp), N)]}
        except Exception as ex:  # noqa: BLE001
            return {"out": None, "raised": type(ex).__name__}
    if kind == "algA":
        _k, mode, n, N, stream = case
        if mode == "c":
            out = [int(v) for v in U.algA(n, N, np.random.default_rng(stream))]
            return {"out": out, "reqs": None}
        f, log, texts = _instrument("algA")
        if not {A_TEST, A_LAST} <= texts:
            return {"shape_changed": sorted(texts)}
        del log[:]
        with np.errstate(all="ignore"):
            out = [int(v) for v in f(n, N, _Script(list(stream)))]
        reqs, cnt = [], 0
        for t, v in log:
            if t == A_TEST:
                if v:
                    cnt += 1
                else:
                    reqs.append(cnt)
                    cnt = 0
            elif t == A_LAST:
                reqs.append(int(v))
        return {"out": out, "reqs": reqs}
    if kind == "algD":
        _k, mode, n, N, stream = case
        if mode == "c":
            out = [int(v) for v in U.algD(n, N, np.random.default_rng(stream))]
            return {"out": out, "evs": None}
        f, log, texts = _instrument("algD")
        if not {D_S, D_B1, D_B2} <= texts:
            return {"shape_changed": sorted(texts)}
        del log[:]
        exhausted = False
        with np.errstate(all="ignore"):
            try:
                out = [int(v) for v in f(n, N, _Script(list(stream)))]
            except _Exhausted:
                out, exhausted = None, True
        evs = []
        for t, v in log:
            if t == D_S:
                evs.append([int(v), False, False])
            elif t == D_B1:
                evs[-1][1] = bool(v)
            elif t == D_B2:
                evs[-1][2] = bool(v)
        if exhausted and evs:
            evs.pop()          # the event during which the stream ran out is incomplete
        return {"out": out, "evs": evs}
    if kind == "prod":
        _k, el, d = case
        return {"py": int(np.intp(el) * d)}
    raise ValueError(kind)


def impl_any(case):
    """one worker pool for all groups (import + JIT warm-up paid once per worker)"""
    group, payload = case
    return {"eye": impl_eye, "full": impl_full, "asarray": impl_asarray, "random": impl_random,
            "kernel": impl_kernel}[group](payload)


# =============================================================================== generators
def dyadic(d):
    """a float as (m, e) with d = m * 2^e exactly; NaN -> class '< 0', +inf -> class '> 1'"""
    if d != d:
        return (-1, 0)
    if d in (float("inf"), float("-inf")):
        return (2, 0) if d > 0 else (-1, 0)
    m, den = float(d).as_integer_ratio()
    return (m, -(den.bit_length() - 1))


def eye_cases(tier):
    hi = 6 if tier == "quick" else 8
    ks = range(-8, 9) if tier == "quick" else range(-11, 12)
    dts = ["float64", "int64", "int8", "float32", "bool", "uint8"]
    cases, i = [], 0
    for N in range(hi + 1):
        for M in [None] + list(range(hi + 1)):
            for k in ks:
                for fmt in FMTS:
                    cases.append((N, M, k, fmt, dts[i % len(dts)]))
                    i += 1
    return cases


SHAPES = [(), (0,), (3,), (2, 0), (0, 0), (2, 3), (1, 1, 1), (2, 0, 3), (2, 3, 2), (1, 2, 0, 2), (2, 1, 2, 2), 3, 0]


def full_cases(tier, rng):
    cases = []
    dts = [None, "float64", "int64", "int8", "float32"]
    fills = [0, 1, 7, -3]
    i = 0
    for sh in SHAPES:
        for fmt in FMTS:
            for op in range(4):
                for v in (fills if op == 0 else [0]):
                    cases.append((op, sh, None, v, fmt, dts[i % len(dts)], None))
                    i += 1
    srcs = ["ndarray", "coo", "gcxs", "dok"]
    for sh in [s for s in SHAPES if not isinstance(s, int)]:
        for src in srcs:
            for op in range(4, 8):
                for sho in [None, (2, 2), (0, 3), ()]:
                    for fmt in [None] + FMTS:
                        if tier == "quick" and rng.random() < 0.5:
                            continue
                        v = rng.choice(fills) if op == 4 else 0
                        cases.append((op, list(sh), None if sho is None else list(sho), v, fmt, dts[i % len(dts)], src))
                        i += 1
    return cases


def asarray_cases(tier, rng):
    cases = []
    shapes = [(), (0,), (4,), (2, 3), (3, 0), (2, 2, 2), (1, 3, 2)]
    n = 3 if tier == "quick" else 10
    for sh in shapes:
        size = 1
        for s in sh:
            size *= s
        for _ in range(n):
            vals = [rng.choice([0, 0, 0, 1, 2, -5]) for _ in range(size)]
            kinds = ["ndarray", "list", "coo", "gcxs", "dok"]
            if len(sh) == 2:
                kinds += ["scipy_csr", "scipy_coo", "scipy_csc"]
            if len(sh) == 0:
                kinds = ["ndarray", "scalar", "coo", "gcxs", "dok"]
            for kind in kinds:
                for fmt in FMTS + (["csr", "csc"] if len(sh) == 2 else []):
                    for dt in [None, "int32", "float64"]:
                        cases.append((kind, list(sh), vals, fmt, dt))
    return cases


def random_cases(tier, rng):
    """every nnz 0..size for sizes <= 40, densities on a grid, seeds, formats, fills, idx dtypes, bad requests"""
    nseeds = 50 if tier == "quick" else 200
    shapes = [(), (0,), (1,), (2,), (5,), (40,), (5, 8), (2, 3, 4), (3, 0, 2), (1, 1), (6, 6), (13, 3), (2, 2, 2, 2, 2)]
    cases = []
    seeds = [rng.randrange(1 << 30) for _ in range(nseeds)]
    fmt_cycle = itertools.cycle(["coo", "coo", "gcxs", "coo", "dok"])
    fill_cycle = itertools.cycle([None, None, 3, 0, None, -2])
    idx_cycle = itertools.cycle([None, None, None, "int8", "uint8", "int32", None, "int64", "uint16"])
    samp_cycle = itertools.cycle(["arange", "mod3", "default", "constfill", "bool", "arange", "mixfill", "nanfill",
                                  "zerosf", "mod3", "constfill"])

    def fills(sampler, fill):
        return "nan" if sampler == "nanfill" else None if sampler == "bool" else fill
    for sh in shapes:
        size = 1
        for s in sh:
            size *= s
        for nnz in range(size + 1):
            ss = seeds if (size <= 12 or sh == (40,) or (tier != "quick" and sh == (5, 8))) else \
                seeds[: (12 if tier == "quick" else 60)]
            for sd in ss:
                smp = next(samp_cycle)
                cases.append((list(sh), None, nnz, sd, next(fmt_cycle), fills(smp, next(fill_cycle)), next(idx_cycle),
                              smp))
    grid = [0.0, 0.01, 0.05, 0.1, 0.25, 0.29, 0.3, 0.5, 0.51, 0.7, 0.9, 0.95, 0.99, 1.0, 1e-300, 0.999999999999]
    grid += [rng.random() for _ in range(8 if tier == "quick" else 40)]
    for sh in shapes + [(30, 40), (7, 11, 13)]:
        for d in grid:
            big = sh in [(30, 40), (7, 11, 13)]
            for sd in seeds[: ((1 if big else 4) if tier == "quick" else (4 if big else 10))]:
                smp = next(samp_cycle)
                cases.append((list(sh), d, None, sd, next(fmt_cycle), fills(smp, next(fill_cycle)), next(idx_cycle),
                              smp))
    # larger arrays: every branch with large arguments
    for sh in [(30, 40), (1000,), (7, 11, 13)]:
        size = 1
        for s in sh:
            size *= s
        for nnz in sorted({0, 1, 2, 3, size // 11, size // 10, size // 10 + 1, size // 3, size // 2, size // 2 + 1,
                           size - size // 3, size - size // 10 - 1, size - size // 10, size - size // 11,
                           size - 3, size - 2, size - 1, size}):
            for sd in seeds[: (2 if tier == "quick" else 12)]:
                smp = next(samp_cycle)
                cases.append((list(sh), None, nnz, sd, next(fmt_cycle), fills(smp, next(fill_cycle)), None, smp))
    # logical sizes beyond 2**31 / 2**32 with a handful of stored elements: flat positions must be carried in intp through
    # the sampling kernels and the unravelling (seeded C19-m5: an int32 position buffer in algD)
    for sh in [(2**20, 2**12), (2**11, 2**11, 2**11), (2**33 + 7,), (3, 2**31 + 1), (2**21, 2**21, 2**20)]:
        for nnz in (2, 3, 7, 40):
            for sd in seeds[: (2 if tier == "quick" else 8)]:
                cases.append((list(sh), None, nnz, sd, "coo", None, None, "arange"))
    # default density (0.01), no nnz
    for sh in [(5, 8), (30, 40), (1000,), ()]:
        for sd in seeds[:3]:
            cases.append((list(sh), None, None, sd, "coo", None, None, "arange"))
    # requests that must be rejected
    for sh in [(5, 8), (0,), ()]:
        size = 1
        for s in sh:
            size *= s
        for bad in [dict(d=-0.1), dict(d=1.5), dict(d=float("nan")), dict(d=float("inf")), dict(n=-1), dict(n=size + 1),
                    dict(d=0.5, n=1), dict(d=1.0000000000000002)]:
            cases.append((list(sh), bad.get("d"), bad.get("n"), seeds[0], "coo", None, None, "arange"))
    # index types that cannot hold the shape
    for sh, idx in [((300,), "int8"), ((300,), "uint8"), ((2, 70000), "uint16"), ((127,), "int8"), ((128,), "int8")]:
        cases.append((list(sh), None, 5, seeds[0], "coo", None, idx, "arange"))
    return cases


def kernel_cases(tier, rng):
    cases = []
    # reverse: all subsets for N <= 6 (compiled and python), random beyond; malformed only through py_func
    for N in range(0, 7):
        for r in range(N + 1):
            for inv in itertools.combinations(range(N), r):
                cases.append(("reverse", "c", list(inv), N))
                cases.append(("reverse", "py", list(inv), N))
    for _ in range(150 if tier == "quick" else 1500):
        N = rng.randrange(7, 60)
        inv = sorted(rng.sample(range(N), rng.randrange(0, N + 1)))
        cases.append(("reverse", rng.choice(["c", "py"]), inv, N))
    for _ in range(120 if tier == "quick" else 800):
        N = rng.randrange(0, 9)
        inv = [rng.randrange(-2, N + 3) for _ in range(rng.randrange(0, N + 3))]
        cases.append(("reverse", "py", inv, N))
    # algA / algD
    ext = [0.0, 1e-300, 1e-9, 0.5, 0.999999, 1 - 2.0 ** -53]
    nk = 250 if tier == "quick" else 2500
    for _ in range(nk):
        N = rng.randrange(1, 60)
        n = rng.randrange(1, N + 1)
        L = 3 * N + 10
        stream = [rng.choice(ext) if rng.random() < 0.3 else rng.random() for _ in range(L)]
        cases.append(("algA", "py", n, N, stream))
    for _ in range(nk):
        N = rng.randrange(1, 400 if tier == "quick" else 3000)
        n = rng.randrange(1, N + 1)
        cases.append(("algA", "c", n, N, rng.randrange(1 << 30)))
    for _ in range(nk):
        N = rng.randrange(3, 80)
        n = rng.randrange(1, N)               # n = N never returns (qu1 = 0): not reachable from random()
        qu1 = N - n
        L = rng.choice([3, 8, 40 * n + 200, 40 * n + 200, 40 * n + 200, 40 * n + 200])
        stream = [rng.choice(ext) if rng.random() < 0.25 else rng.random() for _ in range(L)]
        if rng.random() < 0.6:
            # force the first candidate S just below qu1 (where Vprime > 1 and the second test matter)
            vp = min(max(1 - (qu1 - rng.choice([0.5, 0.01, 0.99, 1.5])) / N, 0.0), 1.0)
            stream[0] = vp ** (n + 1)
            stream[1] = rng.choice([0.999999, 0.9, 0.5, 1e-9, 1 - 2.0 ** -53])
        cases.append(("algD", "py", n, N, stream))
    for _ in range(nk):
        N = rng.randrange(23, 5000)
        n = rng.randrange(1, max(2, N // 10))
        cases.append(("algD", "c", n, N, rng.randrange(1 << 30)))
    # compiled kernels with N beyond 2**31 / 2**32 / 2**62 (positions must not be narrowed anywhere)
    for N in (2**31 + 5, 2**32 + 1, 2**33, 2**40 + 3, 2**62):
        for n in (2, 3, 9, 50):
            for _ in range(2 if tier == "quick" else 10):
                cases.append(("algD", "c", n, N, rng.randrange(1 << 30)))
    # int(elements * density)
    els = list(range(0, 60)) + [100, 1000, 1200, 999983, 10**6 + 7, 2**40 + 3, 2**53 - 1, 2**53 + 1, 2**60 + 12345]
    ds = [k / 100 for k in range(0, 101)] + [rng.random() for _ in range(60)] + [1e-300, 5e-324, 0.999999999999]
    for _ in range(1500 if tier == "quick" else 12000):
        cases.append(("prod", rng.choice(els), rng.choice(ds)))
    return cases


# =============================================================================== Coq literals
def lit_raw(r):
    return vpair(vlist(r["shape"]), vlist(r["coords"], vlist), vlist(r["data"]), vZ(r["fill"]))


def lit_dns(d):
    return vpair(vlist(d["shape"]), vlist(d["flat"]))


def judge_tags(build, name, case_type, judge_fn, tag_fn, lits, chunk=400, chunk_bytes=100_000):
    """[(index, code)] of non-zero verdicts and, when tag_fn is given, the model-derived tag of every case.
    Chunks are balanced by literal size (Coq's cost is dominated by parsing the numerals)."""
    header = ("From Coq Require Import ZArith List Bool.\nFrom Verif Require Import C19Judge Random Judge.\n"
              "Import ListNotations.\nOpen Scope Z_scope.\nSet Printing Width 1000000.\nSet Printing Depth 1000000.\n")
    groups, cur, size = [], [], 0
    for i, l in enumerate(lits):
        if cur and (len(cur) >= chunk or size + len(l) > chunk_bytes):
            groups.append(cur)
            cur, size = [], 0
        cur.append(i)
        size += len(l)
    if cur:
        groups.append(cur)
    chunks = []
    for g in groups:
        body = (f"Definition cases : list ({case_type}) := [\n" + ";\n".join(lits[i] for i in g) +
                f"].\nEval vm_compute in (run_judge ({judge_fn}) cases).")
        if tag_fn:
            body += f"\nEval vm_compute in (run_tags ({tag_fn}) cases)."
        chunks.append(body)
    outs = build.eval_cases(name, header, chunks, timeout=600)
    res, tags = [], []
    for k, out in enumerate(outs):
        ev = vlib.parse_eval_lists(out)
        if len(ev) != (2 if tag_fn else 1):
            raise vlib.CoqEvalError(f"unexpected Coq output for {name}_{k}: {out[-800:]}")
        for m in re.finditer(r"\(\s*(-?\d+)\s*,\s*(-?\d+)\s*\)", ev[0]):
            res.append((groups[k][int(m.group(1))], int(m.group(2))))
        if tag_fn:
            tags += [int(x) for x in re.findall(r"-?\d+", ev[1])]
    return res, tags


def viol(op, kind, clause, case, impl, replay, detail=None):
    return {"property": "C19", "op": op, "kind": kind, "clause": clause, "case": case, "impl": impl,
            "detail": detail, "replay_py": replay}


def hist(xs):
    h = {}
    for x in xs:
        h[str(x)] = h.get(str(x), 0) + 1
    return dict(sorted(h.items()))


# =============================================================================== campaign
def campaign(build, tier, seed, report, budget=1):
    rng = pyrandom.Random(seed)
    V = []
    cov = report["coverage"]
    tags = {}
    diff_only = {"dtype_checks": 0}
    evaluations = 0
    distinct = set()
    phases = {}
    t_ph = [time.time()]

    def phase(name):
        phases[name] = round(time.time() - t_ph[0], 1)
        t_ph[0] = time.time()

    def bad_result(r):
        return r is None or "hang" in r or "crash" in r or ("exc" in r and "dense" not in r and "calls" not in r
                                                           and "out" not in r and "py" not in r)

    # ---------------------------------------------------------------- all implementation runs, one pool
    G = {"eye": eye_cases(tier), "full": full_cases(tier, rng), "asarray": asarray_cases(tier, rng),
         "random": random_cases(tier, rng), "kernel": kernel_cases(tier, rng)}
    flat_cases = [(g, c) for g in ("random", "kernel", "asarray", "full", "eye") for c in G[g]]
    flat_res = vlib.run_impl("props.c19", "impl_any", flat_cases, workers=14, per_case_timeout=60.0)
    R = {g: [] for g in G}
    for (g, _c), r in zip(flat_cases, flat_res, strict=True):
        R[g].append(r)
    phase("implementation_runs")

    # ---------------------------------------------------------------- eye
    cases, res = G["eye"], R["eye"]
    lits, idx = [], []
    for i, (c, r) in enumerate(zip(cases, res, strict=True)):
        N, M, k, fmt, dt = c
        rp = (f"import sparse, numpy as np; x=sparse.eye({N},{M},{k},dtype='{dt}',format='{fmt}'); "
              f"print(x.todense(), np.eye({N},{M},{k},dtype='{dt}'))")
        if bad_result(r):
            V.append(viol("eye", "value", "raises_or_hangs", c, r, rp))
            continue
        if r["dtype"] != r["np_dtype"] or r["type"] != CLS[fmt] or r["dense"] != r["np_dense"] or r["fill"] != 0:
            V.append(viol("eye", "value", "dtype_format_or_numpy_mismatch", c, r, rp))
        diff_only["dtype_checks"] += 1
        lits.append(vpair(vZ(N), vopt(M), vZ(k), "None" if "raw" not in r else f"(Some {lit_raw(r['raw'])})",
                          lit_dns(r["dense"])))
        idx.append(i)
        distinct.add(("eye", N, M, k))
    out, tg = judge_tags(build, "c19_eye", "eye_case", "judge_eye", "tag_eye", lits)
    for j, code in out:
        c, r = cases[idx[j]], res[idx[j]]
        N, M, k, fmt, dt = c
        V.append(viol("eye", {1: "representation", 2: "value", 3: "representation"}[code],
                      {1: None, 2: "eye_dense_differs_from_np_eye", 3: "generated_eye_arithmetic_failed"}[code], c, r,
                      f"import sparse, numpy as np; x=sparse.eye({N},{M},{k},dtype='{dt}',format='{fmt}'); "
                      f"print(x.todense(), np.eye({N},{M},{k},dtype='{dt}'))"))
    tags["eye"] = hist({0: "zeros_shortcut", 1: "k>0", 2: "k<0", 3: "k=0"}.get(t, t) for t in tg)
    evaluations += len(cases)
    phase("eye")
    sample_eye = dict(case=cases[len(cases) // 3], impl=res[len(cases) // 3])

    # ---------------------------------------------------------------- full / zeros / ones / empty (+_like)
    cases, res = G["full"], R["full"]
    names = ["full", "zeros", "ones", "empty", "full_like", "zeros_like", "ones_like", "empty_like"]
    lits, idx = [], []
    for i, (c, r) in enumerate(zip(cases, res, strict=True)):
        op, sh, sho, v, fmt, dt, src = c
        rp = f"import sparse; print(sparse.{names[op]}.__name__, {c!r})"
        if bad_result(r):
            V.append(viol(names[op], "value", "raises_or_hangs", c, r, rp))
            continue
        exp_type = CLS[fmt] if fmt is not None else (CLS[src] if src in CLS else "COO")
        ok = r["dtype"] == r["np_dtype"] and r["type"] == exp_type and r["nnz"] == 0
        if op not in (3, 7):
            ok = ok and r["dense"] == r["np_dense"]
        else:
            ok = ok and r["dense"]["shape"] == r["np_dense"]["shape"]
        if not ok:
            V.append(viol(names[op], "value", "dtype_format_or_numpy_mismatch", c, r, rp))
        diff_only["dtype_checks"] += 1
        shl = [sh] if isinstance(sh, int) else list(sh)
        lits.append(vpair(vZ(op), vlist(shl), vopt(sho, vlist), vZ(v),
                          "None" if "raw" not in r else f"(Some {lit_raw(r['raw'])})", lit_dns(r["dense"])))
        idx.append(i)
        distinct.add((names[op], str(sh), str(sho), v))
        tags.setdefault("fill_ops", {})
        tags["fill_ops"][names[op]] = tags["fill_ops"].get(names[op], 0) + 1
    out, _ = judge_tags(build, "c19_full", "full_case", "judge_full", None, lits)
    for j, code in out:
        c, r = cases[idx[j]], res[idx[j]]
        V.append(viol(names[c[0]], {1: "representation", 2: "value"}[code],
                      {1: None, 2: "dense_differs_from_numpy"}[code], c, r,
                      f"import sparse; print(sparse.{names[c[0]]}.__name__, {c!r})"))
    evaluations += len(cases)
    phase("fill_functions")
    sample_full = dict(case=cases[len(cases) // 2], impl=res[len(cases) // 2])

    # ---------------------------------------------------------------- asarray
    cases, res = G["asarray"], R["asarray"]
    lits, idx = [], []
    for i, (c, r) in enumerate(zip(cases, res, strict=True)):
        kind, sh, vals, fmt, dt = c
        oe = {"ndarray": "a", "list": "a.tolist()", "scalar": "int(a.reshape(-1)[0])",
              "coo": "sparse.COO.from_numpy(a)", "gcxs": "sparse.GCXS.from_numpy(a)", "dok": "sparse.DOK.from_numpy(a)",
              "scipy_csr": "scipy.sparse.csr_matrix(a)", "scipy_coo": "scipy.sparse.coo_matrix(a)",
              "scipy_csc": "scipy.sparse.csc_matrix(a)"}[kind]
        dts = "" if dt is None else f", dtype=np.{dt}"
        rp = (f"import sparse, scipy.sparse, numpy as np; a=np.array({vals}, dtype='int64').reshape({tuple(sh)}); "
              f"x=sparse.asarray({oe}, format='{fmt}'{dts}); print(type(x).__name__, x.dtype, '| numpy:', "
              f"np.asarray(a{dts}).dtype)")
        if bad_result(r):
            V.append(viol("asarray", "value", "raises_or_hangs", c, r, rp))
            continue
        exp_type = {"coo": "COO", "gcxs": "GCXS", "dok": "DOK", "csr": "CSR", "csc": "CSC"}[fmt]
        if r["type"] != exp_type:
            V.append(viol("asarray", "value", "format_not_honoured", c, r, rp,
                          detail=f"requested {fmt}, got {r['type']}"))
        if r["dtype"] != r["np_dtype"]:
            V.append(viol("asarray", "value", "asarray_dtype_not_honoured", c, r, rp,
                          detail=f"result dtype {r['dtype']}, np.asarray gives {r['np_dtype']}"))
        diff_only["dtype_checks"] += 1
        lits.append(vpair(lit_dns(r["src"]), "None" if "raw" not in r else f"(Some {lit_raw(r['raw'])})",
                          lit_dns(r["dense"])))
        idx.append(i)
        distinct.add(("asarray", kind, str(sh), str(vals)))
        tags.setdefault("asarray_source", {})
        tags["asarray_source"][kind] = tags["asarray_source"].get(kind, 0) + 1
    out, _ = judge_tags(build, "c19_asarray", "asarray_case", "judge_asarray", None, lits)
    for j, code in out:
        c, r = cases[idx[j]], res[idx[j]]
        V.append(viol("asarray", {1: "representation", 2: "value"}[code],
                      {1: None, 2: "dense_differs_from_source"}[code], c, r, f"# asarray case {c!r}"))
    evaluations += len(cases)

    phase("asarray")

    # ---------------------------------------------------------------- random (API)
    cases, res = G["random"], R["random"]
    lits, idx = [], []
    rps = {}
    TAG = {(): 0, ("choice",): 1, ("choice", "reverse"): 21, ("algD",): 3, ("algA",): 4,
           ("algD", "reverse"): 23, ("algA", "reverse"): 24}
    n_idx_checked = 0
    for i, (c, r) in enumerate(zip(cases, res, strict=True)):
        sh, dens, nnz, sd, fmt, fill, idxdt, sampler = c
        args = ", ".join(x for x in [f"density={dens!r}" if dens is not None else "",
                                     f"nnz={nnz}" if nnz is not None else "", f"random_state={sd}",
                                     f"format='{fmt}'", f"fill_value={fill}" if fill is not None else "",
                                     f"idx_dtype='{idxdt}'" if idxdt else "",
                                     f"data_rvs={RVS_SRC[sampler]}" if sampler != "default" else ""] if x)
        rp = (f"import sparse, numpy as np; nan=float('nan'); inf=float('inf'); fv={0 if fill is None else fill}; "
              f"x=sparse.random({tuple(sh)}, {args}); print(x, 'stored:', x.nnz, getattr(x, 'data', None))")
        rps[i] = rp
        if bad_result(r) or "calls" not in r:
            V.append(viol("random", "value", "raises_other_than_ValueError_or_hangs", c, r, rp))
            continue
        el = r["el"]
        # int(elements * density) as Python computes it, against the Spec's binary64 product (inside the judge)
        if idxdt is not None:
            import numpy as np
            info = np.iinfo(idxdt)
            fits = (max(sh) if sh else None) is not None and max(sh) <= info.max
            if not sh:
                fits = True          # a 0-d array has no coordinate to store
            guards_pass = (dens is None or nnz is None) and (dens is None or 0 <= dens <= 1)
            if guards_pass:
                n_req = nnz if nnz is not None else r["py_prod"] if dens is not None else int(el * 0.01)
                guards_pass = 0 <= n_req <= el
            if guards_pass:
                n_idx_checked += 1
                if not fits:
                    if r["exc"] is None:
                        V.append(viol("random", "value", "idx_dtype_too_small_accepted", c, r, rp))
                    continue
                if r["exc"] is not None:
                    V.append(viol("random", "value", "idx_dtype_rejected_although_it_fits", c, r, rp,
                                  detail=r["exc"]))
                    continue
                if fmt == "coo" and r.get("idx_dtype") != idxdt:
                    V.append(viol("random", "value", "idx_dtype_not_honoured", c, r, rp))
        if r["exc"] is None and r.get("raw") is None:
            V.append(viol("random", "value", "same_seed_raises_once", c, r, rp))
            continue
        dm = None if dens is None else dyadic(dens)
        if r["exc"] is not None:
            outl = "None"
        else:
            if not r["same"]:
                V.append(viol("random", "value", "same_seed_different_array", c, r, rp,
                              detail="three runs with the same seed (instrumented, int seed, Generator) differ"))
                continue
            if r.get("replay_ok") is False:
                V.append(viol("random", "value", "seeded_stream_replay_differs", c, r, rp,
                              detail=f"stored linear positions {r.get('linear')} but the seeded NumPy stream replayed "
                                     f"through the sampler the request selects gives {r.get('replay_expected')}"))
                continue
            tags.setdefault("random_seeded_stream_replay", {"agrees": 0, "not_replayed": 0})
            tags["random_seeded_stream_replay"]["agrees" if r.get("replay_ok") else "not_replayed"] += 1
            if r.get("replay_ok") is None:
                V.append(viol("random", "representation", None, c, r, rp,
                              detail="the harness could not replay the seeded stream: " + str(r.get("replay_error"))))
                continue
            calls = tuple(x[0] for x in r["calls"])
            if calls not in TAG:
                V.append(viol("random", "representation", None, c, r, rp, detail="unexpected sampler call sequence"))
                continue
            otag = TAG[calls]
            on, oN = (el, el) if not r["calls"] else (r["calls"][0][1], r["calls"][0][2])
            n_samp = r["given"] if sampler != "default" else r["sampled"]
            if len(n_samp) != 1:
                V.append(viol("random", "value", "sampler_not_called_exactly_once", c, r, rp))
                continue
            skind = {"default": 0, "arange": 1}.get(sampler, 2)
            outl = "(Some " + vpair(lit_raw(r["raw"]),
                                    vpair(vZ(n_samp[0]), vZ(skind), vlist(r["rec"] if skind == 2 else [])),
                                    vpair(vZ(otag), vZ(on), vZ(oN)),
                                    vbool(r["same"])) + ")"
            if r.get("nnz_attr") != len(r["raw"]["coords"]):
                V.append(viol("random", "value", "nnz_attribute_differs_from_stored_count", c, r, rp))
        lits.append(vpair(vlist(sh), "None" if dm is None else f"(Some {vpair(vZ(dm[0]), vZ(dm[1]))})", vopt(nnz),
                          vZ(0 if fill is None else NAN_TOKEN if fill == "nan" else fill), outl))
        idx.append(i)
        distinct.add(("random", tuple(sh), dens, nnz))
        tags.setdefault("random_sampler", {})
        tags["random_sampler"][sampler] = tags["random_sampler"].get(sampler, 0) + 1
        if r["exc"] is None and r.get("rec") is not None:
            fvi = 0 if fill is None else NAN_TOKEN if fill == "nan" else fill
            if any(v == fvi for v in r["rec"]):
                tags["random_sampler"]["(sampler returned the fill value)"] = \
                    tags["random_sampler"].get("(sampler returned the fill value)", 0) + 1
    out, tg = judge_tags(build, "c19_random", "random_case", "judge_random", "tag_random", lits)
    CL = {1: "rejects_admissible_or_accepts_inadmissible_request", 2: "stored_count_differs_from_request",
          3: "positions_not_canonical", 4: "shape_fill_or_data_differs", 5: None, 6: None,
          7: "same_seed_different_array"}
    for j, code in out:
        c, r = cases[idx[j]], res[idx[j]]
        sh, dens, nnz, sd, fmt, fill, idxdt, sampler = c
        if code == 1 and idxdt is not None and r["exc"] is not None:
            continue          # already classified above (index type)
        V.append(viol("random", "representation" if code in (5, 6) else "value", CL[code], c, r, rps[idx[j]],
                      detail=f"judge code {code}; sampler handed out {str(r.get('rec'))[:200]}"))
    BR = {0: "all(arange)", 1: "choice", 3: "algD", 4: "algA", 21: "reverse(choice)", 23: "reverse(algD)",
          24: "reverse(algA)", 99: "rejected"}
    tags["random_branch"] = hist(BR.get(t, t) for t in tg)
    missing = [BR[t] for t in (0, 1, 3, 4, 21, 23, 24) if tg.count(t) < (20 if tier == "quick" else 500)]
    if missing:
        report["notes"].append(f"random branches hit fewer times than the target: {missing}")
    evaluations += 3 * len(cases)
    tags["random_idx_dtype_cases"] = n_idx_checked
    phase("random_api")
    sample_random = dict(case=cases[len(cases) // 2], impl=res[len(cases) // 2])

    # ---------------------------------------------------------------- kernels
    cases, res = G["kernel"], R["kernel"]
    groups = {"reverse": ([], []), "algA": ([], []), "algD": ([], []), "prod": ([], [])}
    ktags = {}
    for i, (c, r) in enumerate(zip(cases, res, strict=True)):
        kind = c[0]
        if r is None or "hang" in r or "crash" in r or "exc" in r or "shape_changed" in r:
            V.append(viol("kernel_" + kind, "representation", None, c[:4], r, f"# kernel case {c[:4]!r}",
                          detail="kernel run failed or its source no longer has the instrumented tests"))
            continue
        L, I = groups[kind]
        if kind == "reverse":
            L.append(vpair(vlist(c[2]), vZ(c[3]), vopt(r["out"], vlist)))
            wf = all(0 <= x < c[3] for x in c[2]) and all(a < b for a, b in zip(c[2], c[2][1:], strict=False))
            key = f"reverse/{c[1]}/{'wellformed' if wf else 'malformed'}/{'returns' if r['out'] is not None else 'raises'}"
        elif kind == "algA":
            _k, mode, n, N, _s = c
            o = r["out"]
            reqs = r["reqs"] if r["reqs"] is not None else [b - a - 1 for a, b in zip([-1] + o, o, strict=False)]
            L.append(vpair(vZ(n), vZ(N), vlist(reqs), vlist(o)))
            key = f"algA/{mode}/" + ("skips" if any(q > 0 for q in reqs[:-1]) else "noskip")
        elif kind == "algD":
            _k, mode, n, N, _s = c
            o = r["out"]
            evs = r["evs"] if r["evs"] is not None else [(b - a - 1, True, False) for a, b in zip([-1] + o, o, strict=False)]
            L.append(vpair(vZ(n), vZ(N), vlist(evs, lambda e: vpair(vZ(e[0]), vbool(e[1]), vbool(e[2]))),
                           vopt(o, vlist)))
            if mode == "py":
                qu1 = N - n
                for (s, b1, b2) in evs:
                    k2 = "algD/event/" + ("S>=qu1" if s >= qu1 else "first_test" if b1 else "second_test" if b2
                                          else "both_fail")
                    ktags[k2] = ktags.get(k2, 0) + 1
                    break
                for (_s2, b1, b2) in evs:
                    if not b1 and b2:
                        ktags["algD/any/second_test_accepts"] = ktags.get("algD/any/second_test_accepts", 0) + 1
                        break
                for (_s2, b1, b2) in evs:
                    if not b1 and not b2:
                        ktags["algD/any/rejected"] = ktags.get("algD/any/rejected", 0) + 1
                        break
            key = f"algD/{mode}/" + ("returns" if o is not None else "stream_exhausted")
        else:
            _k, el, d = c
            m, e = dyadic(d)
            L.append(vpair(vZ(el), vZ(m), vZ(e), vZ(r["py"])))
            key = "int(elements*density)"
        I.append(i)
        ktags[key] = ktags.get(key, 0) + 1
    for kind, (L, I) in groups.items():
        if not L:
            continue
        ctype = {"reverse": "reverse_case", "algA": "algA_case", "algD": "algD_case", "prod": "prod_case"}[kind]
        jf = {"reverse": "judge_reverse", "algA": "judge_algA", "algD": "judge_algD", "prod": "judge_prod"}[kind]
        out, _ = judge_tags(build, "c19_k" + kind, ctype, jf, None, L)
        for j, code in out:
            c, r = cases[I[j]], res[I[j]]
            k2 = "value" if code == 2 else "representation"
            if kind == "prod":
                k2 = "representation"
            V.append(viol("kernel_" + kind, k2,
                          "kernel_output_not_a_sample" if code == 2 and kind != "reverse" else
                          "reverse_not_the_complement" if code == 2 else None, c[:4], r,
                          f"# kernel case {c[:4]!r} (stream omitted)", detail=f"judge code {code}"))
    phase("kernels")
    ktags.setdefault("algD/any/second_test_accepts", 0)
    if ktags["algD/any/second_test_accepts"] == 0:
        report["notes"].append(
            "algD: the second acceptance test (y1 * exp(log(y2) / nmin1inv) <= N / (N - X)) was evaluated but never "
            "came out true on any scripted stream; as coded (log(y2) is divided, not multiplied, by nmin1inv) it is the "
            "complement of the first test up to rounding, so the model's b2 branch is exercised only by the theorems")
    tags["kernels"] = dict(sorted(ktags.items()))
    evaluations += len(cases)

    cov["evaluations"] = evaluations
    cov["distinct_nontrivial"] = len(distinct)
    cov["rule"] = ("eye: exhaustive N, M (incl. omitted) x k x format, dtype rotated; fill functions and *_like: fixed "
                   "list of 0-4-d shapes incl. zero extents x op x format x fill x source; asarray: random small integer "
                   "arrays from ndarray/list/scalar/scipy/COO/GCXS/DOK x format x dtype; random: every nnz 0..size for "
                   "13 shapes of size <= 40 x seeds, a density grid x seeds, larger sizes at branch boundaries, rejected "
                   "requests, index dtypes (each request run 3 times: instrumented, int seed, Generator); kernels: all "
                   "subsets for reverse N<=6 + random + malformed, algA/algD py_func on scripted streams with recorded "
                   "decisions and compiled with seeded Generators, int(elements*density) grid.  distinct = distinct "
                   "inputs ignoring seed/format/dtype")
    cov["exhaustive"] = False
    cov["phase_seconds"] = phases
    cov["samples"] = [sample_eye, sample_full, sample_random]
    cov["branch_tags"] = tags
    cov["differential_only"] = dict(diff_only, note="result dtype and class compared with NumPy's in Python")
    cov["unproved_statements"] = []
    return V


def replay(path):
    v = json.load(open(path))
    print(json.dumps(v, indent=1)[:3000])
    if v.get("replay_py") and not v["replay_py"].startswith("#"):
        import subprocess
        p = subprocess.run([vlib.PY, "-c", v["replay_py"]], env=vlib.env_clean(), capture_output=True, text=True)
        print(p.stdout, p.stderr[-500:])
    return 0
