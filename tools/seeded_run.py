#!/venv/bin/python
"""Run the checks against the seeded changes kept under /verif/seeded/<id>/ (patch.diff, demo.py,
meta.json).  For each: git -C /repo apply patch.diff; run the checks named in meta["checks"] (default:
the property it breaks); record which raised a VIOLATION; git -C /repo checkout -- . (always).
usage: tools/seeded_run.py [<id> ...] [--tier quick|thorough] [--checks C01,C06]
Never used by a registered check; /repo must be clean before and is clean after."""
import argparse
import json
import os
import subprocess
import sys
import time

V = os.path.dirname(os.path.dirname(os.path.abspath(__file__)))
REPO = "/repo"


def sh(cmd, **kw):
    return subprocess.run(cmd, shell=True, capture_output=True, text=True, **kw)


def main():
    ap = argparse.ArgumentParser()
    ap.add_argument("ids", nargs="*")
    ap.add_argument("--tier", default="quick")
    ap.add_argument("--checks")
    ap.add_argument("--worktree", action="store_true",
                    help="apply the patch in a scratch worktree and point the checks at it with VERIF_REPO "
                         "(leaves /repo untouched; for use while other work reads /repo)")
    a = ap.parse_args()
    sd = os.path.join(V, "seeded")
    ids = a.ids or sorted(d for d in os.listdir(sd) if os.path.isdir(os.path.join(sd, d)))
    if not a.worktree and sh(f"git -C {REPO} status --porcelain -- sparse").stdout.strip():
        print("refusing: /repo has uncommitted changes under sparse/")
        sys.exit(2)
    summary = {}
    for i in ids:
        d = os.path.join(sd, i)
        meta = json.load(open(os.path.join(d, "meta.json")))
        checks = a.checks.split(",") if a.checks else meta.get("checks", [meta["property"]])
        res = {"id": i, "tier": a.tier, "runs": []}
        target = REPO
        env = dict(os.environ)
        if a.worktree:
            target = f"/tmp/seeded-wt-{i}-{os.getpid()}"
            sh(f"git -C {REPO} worktree remove --force {target}")
            sh(f"git -C {REPO} worktree add --detach {target} HEAD")
            env["VERIF_REPO"] = target
        r = sh(f"git -C {target} apply {os.path.join(d, 'patch.diff')}")
        if r.returncode != 0:
            res["error"] = "patch does not apply: " + r.stderr[-300:]
            print(i, res["error"])
            summary[i] = res
            continue
        # evidence and replays of these runs go to a scratch directory (VERIF_EVIDENCE_DIR), never to
        # /verif/evidence, which holds the evidence of the unchanged tree
        import shutil
        import tempfile
        evd = tempfile.mkdtemp(prefix=f"seeded-evidence-{i}-")
        env["VERIF_EVIDENCE_DIR"] = evd
        try:
            for c in checks:
                t0 = time.time()
                p = sh(f"cd {V} && ./check {c} --tier {a.tier}", timeout=3600, env=env)
                lines = [l for l in p.stdout.splitlines() if l.startswith(("VIOLATION", "["))]
                det = any(l.startswith("VIOLATION") for l in lines)
                res["runs"].append({"check": c, "exit": p.returncode, "detected": det,
                                    "lines": [l.replace(evd, "<scratch evidence>") for l in lines[:12]],
                                    "wall_s": round(time.time() - t0, 1)})
                print(i, c, "DETECTED" if det else "missed", f"exit={p.returncode}", lines[:2], flush=True)
                # keep the replay files this run produced beside the seeded change
                rdir = os.path.join(evd, "replays")
                out = os.path.join(d, f"replays_{a.tier}")
                if c == checks[0]:
                    shutil.rmtree(out, ignore_errors=True)
                os.makedirs(out, exist_ok=True)
                if os.path.isdir(rdir):
                    for fn in os.listdir(rdir):
                        if fn.startswith(c + "_"):
                            shutil.copy(os.path.join(rdir, fn), out)
        finally:
            shutil.rmtree(evd, ignore_errors=True)
            if a.worktree:
                sh(f"git -C {REPO} worktree remove --force {target}")
            else:
                sh(f"git -C {REPO} checkout -- .")
        # merge with the stored result: runs of checks not repeated now are kept
        rp = os.path.join(d, f"result_{a.tier}.json")
        if os.path.exists(rp) and "error" not in res:
            try:
                old = json.load(open(rp))
                done = {x["check"] for x in res["runs"]}
                res["runs"] = [x for x in old.get("runs", []) if x["check"] not in done] + res["runs"]
                order = meta.get("checks", [meta["property"]])
                res["runs"].sort(key=lambda x: order.index(x["check"]) if x["check"] in order else 99)
            except Exception:  # noqa: BLE001
                pass
        res["detected_by"] = [x["check"] for x in res["runs"] if x["detected"]]
        json.dump(res, open(rp, "w"), indent=1)
        summary[i] = res
    print(json.dumps({k: v.get("detected_by", v.get("error")) for k, v in summary.items()}, indent=1))


if __name__ == "__main__":
    main()
