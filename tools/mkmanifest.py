"""(re)write MANIFEST.json from the table below (kept valid at all times)."""
import json
import os

V = os.path.dirname(os.path.dirname(os.path.abspath(__file__)))
ALL = [f"C{i:02d}" for i in range(1, 21)]
CLAIMED = json.load(open(os.path.join(V, "tools", "claims.json")))

checks = []
for pid, c in sorted(CLAIMED.items()):
    checks.append({
        "property_id": pid,
        "quick_cmd": f"./check {pid} --tier quick",
        "thorough_cmd": f"./check {pid} --tier thorough",
        "evidence_file": f"/verif/evidence/{pid}.json",
        "replay_cmd_template": f"./check {pid} --replay {{path}}",
        "engine": "coq-proof+correspondence",
        "level_claimed": {"category": c.get("category", "proof"), "text": c["text"], "design_ref": c.get("design_ref", "DESIGN.md §4 " + pid)},
        "level_note": c["note"],
        "technique": c.get("technique", "machine-checked proof in Coq 8.16.1 about a model regenerated from / checked against the source"),
    })
na = [{"property_id": p, "reason": "check not built yet (work in progress); no claim is made"} for p in ALL if p not in CLAIMED]
m = {
    "version": 1,
    "setup_cmd": "tools/setup.sh",
    "hooks": {"guard": "PYDATA_SPARSE_VERIF", "enable": "none needed: no hooks in /repo; checks import /repo's working tree via PYTHONPATH=/repo",
              "baseline_off_cmd": "cd /repo && /venv/bin/python -m pytest -ra -q -p no:cacheprovider --timeout=900 --continue-on-collection-errors",
              "source_commits": [], "add_only": True},
    "engines": [{"name": "coq-proof+correspondence", "path": "/verif/check", "serves_properties": sorted(CLAIMED),
                 "kind_free_text": "Coq 8.16.1 development (coq/) rebuilt per run against definitions regenerated from /repo (tools/py2v.py, tools/sitegen), plus model-vs-implementation correspondence evaluated inside Coq (vm_compute)"}],
    "checks": checks,
    "not_applicable": na,
    "notes": "See DESIGN.md. Evidence is rewritten by every run; known_findings.json is never written at run time.",
}
json.dump(m, open(os.path.join(V, "MANIFEST.json"), "w"), indent=1)
import jsonschema
jsonschema.validate(m, json.load(open("/root/.vp/MANIFEST.schema.json")))
print("MANIFEST ok:", len(checks), "checks,", len(na), "not claimed")
