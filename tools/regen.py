"""regenerate coq/Gen/*.v in place (reference copies; every check regenerates its own in scratch)."""
import os
import sys
sys.path.insert(0, os.path.dirname(os.path.abspath(__file__)))
import vlib

b = vlib.Build("regen")
b.dir = os.path.join(vlib.VERIF, sys.argv[1]) if len(sys.argv) > 1 else vlib.COQ_SRC
b.regenerate()
for item in b.broken:
    print("BROKEN", *item[:3])
sys.exit(1 if b.broken else 0)
