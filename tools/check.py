#!/venv/bin/python
"""check — decide one property: regenerate the model's generated parts from /repo, rebuild and
re-check the property's theorems, run the correspondence campaign, classify, write evidence.

usage: check Cxx [--tier quick|thorough] [--replay FILE] [--keep]
exit 0: property held on everything explored; exit 1: a line `VIOLATION property=Cxx replay=<path>`.
"""
import argparse
import importlib
import json
import os
import sys
import time
import traceback

sys.path.insert(0, os.path.dirname(os.path.abspath(__file__)))
import vlib  # noqa: E402

ALLOWED_AXIOMS = {
    # axioms declared by Coq's standard library that a theorem may depend on (named in DESIGN.md 3.3)
    "functional_extensionality_dep", "FunctionalExtensionality.functional_extensionality_dep",
}


def main():
    ap = argparse.ArgumentParser()
    ap.add_argument("prop")
    ap.add_argument("--tier", default=os.environ.get("VERIF_TIER", "quick"), choices=["quick", "thorough"])
    ap.add_argument("--replay")
    ap.add_argument("--keep", action="store_true")
    a = ap.parse_args()
    prop = a.prop.upper()
    seed = int(os.environ.get("VERIF_SEED", "0") or 0)
    mod = importlib.import_module(f"props.{prop.lower()}")
    if a.replay:
        sys.exit(mod.replay(a.replay))
    t0 = time.time()
    build = vlib.Build(f"{prop}-{a.tier}-{os.getpid()}")
    rc = 1
    try:
        rc = run(prop, mod, build, a.tier, seed, t0)
    finally:
        if not a.keep:
            build.cleanup()
    sys.exit(rc)


def run(prop, mod, build, tier, seed, t0):
    findings = vlib.load_known_findings()
    violations = []       # dicts: kind, what, replay-able case, ...
    obligations = []      # (name, status, detail)
    build.prepare()
    changed = build.changed_gen()

    # --- proofs
    expected = json.load(open(os.path.join(vlib.COQ_SRC, "Props", f"{prop}.expected.json")))
    props_file = f"Props/{prop}.v"
    ok, assumptions, out = build.compile_props(props_file, timeout=1500 if tier == "quick" else 3000)
    src = os.path.join(build.dir, props_file)
    present = vlib.theorems_in(src) if os.path.exists(src) else []
    printed = vlib.print_assumptions_in(src) if os.path.exists(src) else []
    ass_map = {}
    if ok and len(assumptions) == len(printed):
        ass_map = dict(zip(printed, assumptions, strict=True))
    for th in expected:
        if th not in present:
            obligations.append((th, "missing", "theorem not present in " + props_file))
        elif not ok:
            obligations.append((th, "unchecked", "build of " + props_file + " failed"))
        elif th not in ass_map:
            obligations.append((th, "unchecked", "no Print Assumptions output"))
        else:
            axs = ass_map[th]
            if axs == "closed":
                obligations.append((th, "proved", "Closed under the global context"))
            else:
                names = set(x.split(":")[0].strip() for x in axs.split("  ") if x.strip())
                bad = [n for n in names if n.split(".")[-1] not in ALLOWED_AXIOMS and n not in ALLOWED_AXIOMS]
                obligations.append((th, "proved" if not bad else "axioms", axs))
    build_tail = ""
    if not ok:
        build_tail = "\n".join(out.splitlines()[-25:])
    proof_broken = [o for o in obligations if o[1] != "proved"]

    # --- correspondence
    report = {"coverage": {}, "notes": []}
    try:
        budget = 3 if proof_broken else 1
        violations = mod.campaign(build, tier, seed, report, budget=budget)
    except vlib.CoqEvalError as ex:
        obligations.append(("correspondence-evaluation", "broken", str(ex)[-1500:]))
        proof_broken = [o for o in obligations if o[1] != "proved"]
        # The judges do not build against the definitions regenerated from the current source.  Search
        # for a concrete failing input with the REFERENCE model instead (the committed Gen/ files, i.e.
        # the definitions generated from the tree on which every theorem was proved): a case on which
        # the implementation now differs from that proved model is a failing input.
        ref = vlib.Build(os.path.basename(build.dir) + "-ref")
        try:
            ref.prepare(regenerate=False)
            report = {"coverage": {}, "notes": ["judged with the reference model (committed Gen/) because the "
                                                "regenerated development does not build"]}
            violations = mod.campaign(ref, tier, seed, report, budget=3)
            for v in violations:
                v.setdefault("judged_by", "reference model (committed Gen/)")
        except Exception:  # noqa: BLE001
            report.setdefault("notes", []).append("search with the reference model failed: " + traceback.format_exc()[-600:])
        finally:
            ref.cleanup()
    except Exception:  # noqa: BLE001
        obligations.append(("correspondence-harness", "broken", traceback.format_exc()[-1500:]))
        proof_broken = [o for o in obligations if o[1] != "proved"]

    # --- generation failures that concern this property: those of the Gen files its theorems or
    #     judges (transitively) import
    roots = [f"Props/{prop}.v"]
    mf = build.module_files()
    for imp in getattr(build, "judge_modules", set()):
        for name in imp.split():
            if name in mf:
                roots.append(mf[name])
    deps = build.closure(roots)
    for h in build.hygiene(only=deps):
        obligations.append(("hygiene", "broken", h))
    dep_gen = {os.path.basename(f) for f in deps if f.startswith("Gen/")}
    for kind, name, detail, gfiles in build.broken:
        if dep_gen & set(gfiles):
            obligations.append((f"{kind}:{name}", "broken", detail))
    changed = [c for c in changed if c in dep_gen]
    proof_broken = [o for o in obligations if o[1] != "proved"]

    # --- classify
    rdir = os.path.join(vlib.evidence_dir(), "replays")
    os.makedirs(rdir, exist_ok=True)
    for fn in os.listdir(rdir):
        if fn.startswith(prop + "_"):
            os.remove(os.path.join(rdir, fn))
    lines = []
    known_hit = []
    n_new = 0
    seen_classes = set()
    for v in violations:
        f = vlib.match_finding(findings, prop, v)
        if f:
            key = f["id"]
            if key not in known_hit:
                known_hit.append(key)
                lines.append(f"KNOWN-FINDING: property={prop} {f['what']}")
            continue
        cls = (v.get("op"), v.get("clause"), v.get("kind"))
        if cls in seen_classes and n_new >= 1:
            continue
        seen_classes.add(cls)
        n_new += 1
        p = os.path.join(rdir, f"{prop}_{n_new}.json")
        json.dump(v, open(p, "w"), indent=1, default=str)
        suffix = " no-failing-input-found" if v.get("kind") == "representation" else ""
        lines.append(f"VIOLATION property={prop} replay={p}{suffix}")
    if proof_broken and n_new == 0:
        p = os.path.join(rdir, f"{prop}_obligations.json")
        json.dump({"property": prop, "kind": "obligation",
                   "broken": [dict(name=o[0], status=o[1], detail=o[2]) for o in proof_broken],
                   "changed_generated_files": changed, "build_tail": build_tail,
                   "note": "a theorem or correspondence no longer checks; the search found no input on which "
                           "the implementation fails"}, open(p, "w"), indent=1)
        lines.append(f"VIOLATION property={prop} replay={p} no-failing-input-found")
        n_new += 1
    # a finding listed as open must still reproduce, otherwise say so (informational)
    for f in findings:
        if f.get("property") == prop and f.get("status", "open") == "open" and f["id"] not in known_hit:
            report["notes"].append(f"known finding {f['id']} was not hit by this run")

    # --- evidence
    cov = dict(report.get("coverage", {}))
    n_obl = len([o for o in obligations if o[0] not in ("hygiene",)]) or 1
    cov.update({
        "obligations": max(1, len(obligations)),
        "discharged": len([o for o in obligations if o[1] == "proved"]),
        "obligation_list": [dict(name=o[0], status=o[1], detail=o[2][:300]) for o in obligations],
        "checker_cmd": f"cd build/<scratch> && make -j16 {props_file[:-2]}.vo  (coqc 8.16.1, full .vo build of the "
                       f"regenerated development; Print Assumptions under every property theorem)",
        "trusted_base": mod.TRUSTED_BASE if hasattr(mod, "TRUSTED_BASE") else [],
        "generated_fragments": {k: v for k, v in build.gen_report.items()
                                if k in dep_gen or any(g in dep_gen for g in ([("S_" + k[:-3] + ".v")] if k.endswith(".py") else []))},
        "depends_on_generated": sorted(dep_gen),
        "generated_files_changed_vs_reference": changed,
        "known_findings_hit": known_hit,
    })
    cov.setdefault("evaluations", 0)
    cov.setdefault("distinct_nontrivial", 0)
    cov.setdefault("samples", [])
    level = getattr(mod, "LEVEL", "proof")
    if cov["discharged"] == 0:
        # nothing was proved on this run (the development no longer builds against the current source):
        # the run is not evidence at proof level
        level = "other"
        cov["explanation"] = ("no proof obligation was discharged on this run (the property's theorems do not "
                              "build against the definitions regenerated from the current source); see "
                              "obligation_list and the replay file")
    ev = {
        "property_id": prop, "tier": tier, "seed": seed, "level": level,
        "coverage": cov, "assumptions": getattr(mod, "ASSUMPTIONS", []),
        "wall_s": round(time.time() - t0, 1), "violations": n_new,
        "notes": report.get("notes", []),
    }
    for ln in lines:
        print(ln)
    sys.stdout.flush()
    try:
        vlib.write_evidence(prop, ev)
    except Exception as ex:  # noqa: BLE001  (never lose the verdict because of an evidence problem)
        print(f"[{prop}] WARNING: evidence file did not validate: {str(ex)[:300]}")
    print(f"[{prop}] tier={tier} seed={seed} obligations={cov['discharged']}/{cov['obligations']} "
          f"cases={cov.get('evaluations')} violations={n_new} known={len(known_hit)} wall={ev['wall_s']}s")
    return 1 if n_new else 0


if __name__ == "__main__":
    main()
