#!/usr/bin/env python3
"""py2v — fail-closed translator from a scalar fragment of Python (ast) to Gallina.

Target: the shallow embedding coq/Lib/Py.v (values `pyv`, monad `res`).  Every
construct outside the grammar raises Unsupported, which the caller records as a broken
obligation (the generated file then contains no definition for that fragment, so every
theorem depending on it stops compiling).

Grammar (see DESIGN.md 2.2 A):
  stmts : Assign (name | tuple of names) | AugAssign | If/elif/else | Return | Raise
          | Expr(docstring) | Expr(call)         — no loops
  exprs : names, int/bool/None/Ellipsis constants, + - * // %, unary - / not, comparison chains
          (< <= > >= == != is is-not), and/or with Python value semantics, conditional
          expressions, tuples, constant subscripts, .start/.stop/.step, calls to
          min/max/abs/len/int/slice/isinstance/math.isnan and to other fragments.
  extern: an expression whose *source text* (ast.unparse) is listed in the fragment's
          `extern` map is replaced by the given hand-written Coq term (the text must match
          exactly; when the source changes the key disappears and translation aborts).
"""
import ast
import hashlib
import sys


class Unsupported(Exception):
    pass


BINOPS = {ast.Add: "py_add", ast.Sub: "py_sub", ast.Mult: "py_mul",
          ast.FloorDiv: "py_floordiv", ast.Mod: "py_mod"}
CMPOPS = {ast.Lt: "py_lt", ast.LtE: "py_le", ast.Gt: "py_gt", ast.GtE: "py_ge",
          ast.Eq: "py_eq", ast.NotEq: "py_ne"}
EXCS = {"ValueError", "IndexError", "TypeError", "ZeroDivisionError", "RuntimeError",
        "NotImplementedError", "OverflowError"}
COQ_RESERVED = {"end", "in", "let", "fun", "if", "then", "else", "match", "with", "as", "at",
                "return", "forall", "exists", "Type", "Prop", "Set", "fix", "cofix", "for",
                "where", "using", "max", "min", "bind", "cond", "res", "pyv", "exc"}


def cname(n):
    if n in COQ_RESERVED or n.startswith("py_") or n.startswith("V"):
        return n + "_"
    return n


class Tr:
    def __init__(self, frag_names, extern):
        self.frag_names = frag_names      # python name -> coq name of other fragments
        self.extern = extern or {}
        self.tmp = 0
        self.used_extern = set()

    def fresh(self):
        self.tmp += 1
        return f"t{self.tmp}_"

    # ---- expressions: returns (term, pure) ; pure => term : pyv, else term : res pyv
    def E(self, e):
        src = ast.unparse(e)
        if src in self.extern:
            self.used_extern.add(src)
            return (self.extern[src], False)
        if isinstance(e, ast.Name):
            return (cname(e.id), True)
        if isinstance(e, ast.Constant):
            v = e.value
            if v is None:
                return ("VNone", True)
            if v is Ellipsis:
                return ("VEllipsis", True)
            if isinstance(v, bool):
                return ("(VBool %s)" % ("true" if v else "false"), True)
            if isinstance(v, int):
                return ("(VInt (%d))" % v, True)
            raise Unsupported(f"constant {v!r}")
        if isinstance(e, ast.BinOp):
            if type(e.op) not in BINOPS:
                raise Unsupported(f"binop {ast.dump(e.op)} in `{src}`")
            return self.app(BINOPS[type(e.op)], [e.left, e.right])
        if isinstance(e, ast.UnaryOp):
            if isinstance(e.op, ast.USub):
                if isinstance(e.operand, ast.Constant) and isinstance(e.operand.value, int) \
                        and not isinstance(e.operand.value, bool):
                    return ("(VInt (%d))" % (-e.operand.value), True)
                return self.app("py_neg", [e.operand])
            if isinstance(e.op, ast.Not):
                return self.app("py_not", [e.operand])
            raise Unsupported(f"unaryop in `{src}`")
        if isinstance(e, ast.Compare):
            return self.compare(e)
        if isinstance(e, ast.BoolOp):
            return self.boolop(e)
        if isinstance(e, ast.IfExp):
            c = self.Em(e.test)
            t = self.fresh()
            return (f"({t} <- {c} ;; if cond {t} then {self.Em(e.body)} else {self.Em(e.orelse)})", False)
        if isinstance(e, ast.Tuple):
            names, pre = self.atoms(e.elts)
            return (pre + "Ok (VTuple [%s])" % "; ".join(names) if pre else
                    "(VTuple [%s])" % "; ".join(names), not pre)
        if isinstance(e, ast.Attribute):
            if e.attr in ("start", "stop", "step"):
                return self.app("attr_" + e.attr, [e.value])
            raise Unsupported(f"attribute `{src}`")
        if isinstance(e, ast.Subscript):
            if isinstance(e.slice, ast.Constant) and isinstance(e.slice.value, int) and e.slice.value >= 0:
                names, pre = self.atoms([e.value])
                return (f"({pre}py_item {names[0]} {e.slice.value}%nat)", False)
            raise Unsupported(f"subscript `{src}`")
        if isinstance(e, ast.Call):
            return self.call(e)
        raise Unsupported(f"expression `{src}`")

    def Em(self, e):
        """expression as a term of type res pyv"""
        t, pure = self.E(e)
        return f"Ok {t}" if pure else t

    def atoms(self, es):
        """evaluate es left to right; returns (list of pure atom names, prefix binding string)"""
        names, pre = [], ""
        for x in es:
            t, pure = self.E(x)
            if pure:
                names.append(t)
            else:
                n = self.fresh()
                pre += f"{n} <- {t} ;; "
                names.append(n)
        return names, pre

    def app(self, fn, args):
        names, pre = self.atoms(args)
        return (f"({pre}{fn} {' '.join(names)})", False)

    def compare(self, e):
        # a op1 b op2 c ...  with short-circuit on the first falsy link
        operands = [e.left] + list(e.comparators)
        names, pre = self.atoms(operands[:2])
        # later operands are evaluated lazily; restrict them to pure atoms for simplicity
        for x in operands[2:]:
            t, pure = self.E(x)
            if not pure:
                raise Unsupported("impure operand late in comparison chain")
            names.append(t)

        def link(op, a, b):
            if isinstance(op, (ast.Is, ast.IsNot)):
                neg = isinstance(op, ast.IsNot)
                if b == "VNone":
                    return f"{'py_is_not_none' if neg else 'py_is_none'} {a}"
                if b == "VEllipsis":
                    return f"Ok (VBool ({'negb ' if neg else ''}(is_ellipsis {a})))"
                raise Unsupported("`is` with a non-constant")
            if type(op) not in CMPOPS:
                raise Unsupported(f"comparison {ast.dump(op)}")
            return f"{CMPOPS[type(op)]} {a} {b}"

        term = link(e.ops[-1], names[-2], names[-1])
        for i in range(len(e.ops) - 2, -1, -1):
            r = self.fresh()
            term = f"{r} <- {link(e.ops[i], names[i], names[i + 1])} ;; if cond {r} then {term} else Ok {r}"
        return (f"({pre}{term})", False)

    def boolop(self, e):
        vals = e.values
        term = self.Em(vals[-1])
        for v in reversed(vals[:-1]):
            t = self.fresh()
            if isinstance(e.op, ast.And):
                term = f"({t} <- {self.Em(v)} ;; if cond {t} then {term} else Ok {t})"
            else:
                term = f"({t} <- {self.Em(v)} ;; if cond {t} then Ok {t} else {term})"
        return (term, False)

    def call(self, e):
        src = ast.unparse(e)
        if e.keywords:
            raise Unsupported(f"keyword arguments in `{src}`")
        f = ast.unparse(e.func)
        a = e.args
        if f in ("min", "max") and len(a) >= 2:
            fn = "py_min2" if f == "min" else "py_max2"
            names, pre = self.atoms(a)
            term = names[0]
            parts = ""
            for n in names[1:]:
                r = self.fresh()
                parts += f"{r} <- {fn} {term} {n} ;; "
                term = r
            return (f"({pre}{parts}Ok {term})", False)
        if f == "abs" and len(a) == 1:
            return self.app("py_abs", a)
        if f == "len" and len(a) == 1:
            return self.app("py_len", a)
        if f == "int" and len(a) == 1:
            return self.app("py_int", a)
        if f == "math.isnan" and len(a) == 1:
            return self.app("py_isnan", a)
        if f == "slice" and len(a) == 3:
            names, pre = self.atoms(a)
            t = f"VSlice {names[0]} {names[1]} {names[2]}"
            return (f"({pre}Ok ({t}))", False) if pre else (f"({t})", True)
        if f == "isinstance" and len(a) == 2:
            ty = set(x.strip() for x in ast.unparse(a[1]).replace("(", "").replace(")", "").replace("|", ",").split(","))
            table = {frozenset({"slice"}): "isinst_slice", frozenset({"Integral"}): "isinst_integral",
                     frozenset({"tuple"}): "isinst_tuple", frozenset({"Iterable"}): "isinst_iterable",
                     frozenset({"np.ndarray", "list"}): "isinst_array"}
            k = frozenset(ty)
            if k not in table:
                raise Unsupported(f"isinstance against {sorted(ty)}")
            names, pre = self.atoms([a[0]])
            t = f"VBool ({table[k]} {names[0]})"
            return (f"({pre}Ok ({t}))", False) if pre else (f"({t})", True)
        if f in self.frag_names:
            return self.app(self.frag_names[f], a)
        raise Unsupported(f"call `{src}`")

    # ---- statements
    @staticmethod
    def may_exit(stmts):
        for s in stmts:
            for n in ast.walk(s):
                if isinstance(n, (ast.Return, ast.Raise)):
                    return True
        return False

    @staticmethod
    def assigned(stmts):
        out = []
        for s in stmts:
            for n in ast.walk(s):
                tg = []
                if isinstance(n, ast.Assign):
                    tg = n.targets
                elif isinstance(n, ast.AugAssign):
                    tg = [n.target]
                for t in tg:
                    for m in ast.walk(t):
                        if isinstance(m, ast.Name) and m.id not in out:
                            out.append(m.id)
        return out

    def S(self, stmts, env, tail):
        """stmts: list of ast stmts; env: set of defined python names;
        tail: Coq term to use when control falls off the end (type res _)."""
        if not stmts:
            return tail(env)
        s, rest = stmts[0], stmts[1:]
        if isinstance(s, ast.Expr) and isinstance(s.value, ast.Constant) and isinstance(s.value.value, str):
            return self.S(rest, env, tail)
        if isinstance(s, ast.Expr):
            return f"_ <- {self.Em(s.value)} ;;\n{self.S(rest, env, tail)}"
        if isinstance(s, ast.Pass):
            return self.S(rest, env, tail)
        if isinstance(s, ast.Return):
            if s.value is None:
                return "Ok VNone"
            return self.Em(s.value)
        if isinstance(s, ast.Raise):
            ex = s.exc
            name = None
            if isinstance(ex, ast.Call):
                name = ast.unparse(ex.func)
            elif isinstance(ex, ast.Name):
                name = ex.id
            if name not in EXCS:
                raise Unsupported(f"raise of {name}")
            return f"Raise {name}"
        if isinstance(s, ast.Assign):
            if len(s.targets) != 1:
                raise Unsupported("chained assignment")
            t = s.targets[0]
            if isinstance(t, ast.Name) and isinstance(s.value, ast.Constant) and isinstance(s.value.value, str):
                # a message string: not a value of the fragment; any later *use* of the name
                # leaves an unbound identifier in the output, which fails to compile (fail-closed)
                return self.S(rest, env, tail)
            if isinstance(t, ast.Name):
                body = self.S(rest, env | {t.id}, tail)
                return f"{cname(t.id)} <- {self.Em(s.value)} ;;\n{body}"
            if isinstance(t, ast.Tuple) and all(isinstance(x, ast.Name) for x in t.elts) \
                    and isinstance(s.value, ast.Tuple) and len(s.value.elts) == len(t.elts):
                tmps, pre = self.atoms(s.value.elts)
                binds = "".join(f"{cname(x.id)} <- Ok {tmp} ;; " for x, tmp in zip(t.elts, tmps, strict=True))
                body = self.S(rest, env | {x.id for x in t.elts}, tail)
                return f"{pre}{binds}\n{body}"
            raise Unsupported(f"assignment target `{ast.unparse(t)}`")
        if isinstance(s, ast.AugAssign):
            if not isinstance(s.target, ast.Name) or type(s.op) not in BINOPS:
                raise Unsupported(f"augmented assignment `{ast.unparse(s)}`")
            if s.target.id not in env:
                raise Unsupported(f"augmented assignment to undefined {s.target.id}")
            names, pre = self.atoms([s.value])
            body = self.S(rest, env, tail)
            return f"{cname(s.target.id)} <- ({pre}{BINOPS[type(s.op)]} {cname(s.target.id)} {names[0]}) ;;\n{body}"
        if isinstance(s, ast.If):
            c = self.fresh()
            ce = self.Em(s.test)
            if self.may_exit(s.body) or self.may_exit(s.orelse):
                a = self.S(list(s.body) + rest, env, tail)
                b = self.S(list(s.orelse) + rest, env, tail)
                return f"{c} <- {ce} ;;\nif cond {c} then (\n{a}\n) else (\n{b}\n)"
            vs = self.assigned(list(s.body) + list(s.orelse))
            for v in vs:
                if v not in env and not (v in self.assigned(s.body) and v in self.assigned(s.orelse)):
                    raise Unsupported(f"variable {v} conditionally defined")
            if not vs:
                raise Unsupported("if without effect")
            tup = lambda _env: "Ok (%s)" % ", ".join(cname(v) for v in vs)  # noqa: E731
            a = self.S(list(s.body), env, tup)
            b = self.S(list(s.orelse), env, tup)
            pat = "'(%s)" % ", ".join(cname(v) for v in vs) if len(vs) > 1 else cname(vs[0])
            body = self.S(rest, env | set(vs), tail)
            return f"{pat} <- ({c} <- {ce} ;; if cond {c} then (\n{a}\n) else (\n{b}\n)) ;;\n{body}"
        raise Unsupported(f"statement `{ast.unparse(s).splitlines()[0]}`")


def find_function(tree, qualname):
    parts = qualname.split(".")
    body = tree.body
    node = None
    for p in parts:
        node = None
        for n in body:
            if isinstance(n, (ast.FunctionDef, ast.ClassDef)) and n.name == p:
                node = n
                break
        if node is None:
            raise Unsupported(f"{qualname} not found")
        body = node.body
    if not isinstance(node, ast.FunctionDef):
        raise Unsupported(f"{qualname} is not a function")
    return node


def select_block(fn, selector):
    """selector: None (whole body) or ('if', <source text of the test>) to take the *body*
    of the first `if` (at any depth) whose test unparses to the given text."""
    if selector is None:
        return list(fn.body)
    kind, text = selector
    for n in ast.walk(fn):
        if isinstance(n, ast.If) and ast.unparse(n.test) == text:
            return list(n.body) if kind == "if" else list(n.orelse)
    raise Unsupported(f"block {selector} not found in {fn.name}")


def translate_fragment(src_text, spec, frag_names):
    """spec: dict(name, func, params(optional), selector(optional), extern(optional),
    result(optional list of variable names returned as a VTuple when the block falls off its end))."""
    tree = ast.parse(src_text)
    fn = find_function(tree, spec["func"])
    stmts = select_block(fn, spec.get("selector"))
    params = spec.get("params")
    if params is None:
        if fn.args.vararg or fn.args.kwarg or fn.args.kwonlyargs:
            raise Unsupported("varargs")
        params = [a.arg for a in fn.args.args]
    tr = Tr(frag_names, spec.get("extern"))
    result = spec.get("result")
    if result:
        tail = lambda env: "Ok (VTuple [%s])" % "; ".join(cname(v) for v in result)  # noqa: E731
    else:
        tail = lambda env: "Ok VNone"  # noqa: E731
    body = tr.S(stmts, set(params), tail)
    missing = set((spec.get("extern") or {}).keys()) - tr.used_extern
    if missing:
        raise Unsupported(f"extern keys no longer present in source: {sorted(missing)}")
    seg = "\n".join(ast.unparse(s) for s in stmts)
    h = hashlib.sha256(seg.encode()).hexdigest()[:16]
    args = " ".join(f"({cname(p)} : pyv)" for p in params)
    return (f"(* fragment {spec['name']} from {spec['file']}:{spec['func']} "
            f"selector={spec.get('selector')} srchash={h} *)\n"
            f"Definition {spec['name']} {args} : res pyv :=\n{body}.\n"), h


def generate(repo, specs, out_header="From Verif Require Import Py PyExt.\n"):
    """Translate all specs; returns (coq_text, report) where report[name] = dict(status, hash|error)."""
    import os
    frag_names = {s["func"].split(".")[-1]: s["name"] for s in specs if s.get("callable", True)}
    out = [out_header, "From Coq Require Import ZArith List.\nImport ListNotations.\nOpen Scope Z_scope.\n"]
    report = {}
    for s in specs:
        path = os.path.join(repo, s["file"])
        try:
            with open(path) as f:
                text = f.read()
            coq, h = translate_fragment(text, s, frag_names)
            out.append(coq)
            report[s["name"]] = {"status": "ok", "hash": h}
        except (Unsupported, OSError, SyntaxError) as ex:
            out.append(f"(* fragment {s['name']}: TRANSLATION FAILED: {ex} *)\n")
            report[s["name"]] = {"status": "failed", "error": str(ex)}
    return "\n".join(out), report


if __name__ == "__main__":
    import json
    import importlib.util
    spec_file, repo, outdir = sys.argv[1:4]
    sp = importlib.util.spec_from_file_location("fragspecs", spec_file)
    m = importlib.util.module_from_spec(sp)
    sp.loader.exec_module(m)
    rep_all = {}
    import os
    for fname, specs in m.FILES.items():
        text, rep = generate(repo, specs)
        p = os.path.join(outdir, fname)
        old = open(p).read() if os.path.exists(p) else None
        if old != text:
            with open(p, "w") as f:
                f.write(text)
        rep_all[fname] = rep
    json.dump(rep_all, sys.stdout, indent=1)
