"""Fragment table (tools/py2v.py) for the element-wise area (C01, shared with C08/C18).

`_umath._get_broadcast_shape` is

    if not all(<per-axis predicate> for l1, l2 in zip(shape1[::-1], shape2[::-1], strict=False)):
        raise ValueError(...)
    return tuple(<per-axis result> for l1, l2 in zip_longest(shape1[::-1], shape2[::-1], fillvalue=1))[::-1]

The two comprehensions are loops, i.e. outside the statement grammar of py2v.  What is translated HERE is
the control skeleton of the function (which test raises, which exception, what is returned).  The two
comprehension expressions are located structurally in the current source (an `all(<generator>)` call
under a `not` in the test of the first `if`, and `tuple(<generator>)[::-1]` as the returned value) and their source
text becomes the `extern` keys; they stand for the two extra parameters `all_ok` / `zipped`, which the
hand-written model (Model/Elemwise.v: broadcast_shape2) computes by folding the *generated per-axis
definitions* over the reversed shapes.  If the function no longer has that structure the keys are
sentinels that do not occur in the source and translation fails closed.

The per-axis predicate / result / parameter expressions themselves (the comprehension elements, which
py2v's selector cannot address because they are not statements) are translated with the same expression
translator (py2v.Tr) by tools/sitegen/umath.py into Gen/S_umath.v (g_bcast_axis_ok, g_bcast_axis_result,
g_bcast_param), together with the zip / zip_longest / fillvalue / [::-1] facts of the comprehension
headers — so a semantic edit of a per-axis expression changes a generated definition (and breaks the
theorems about it) instead of merely failing translation."""
import ast
import os

UM = "sparse/numba_backend/_umath.py"
REPO = os.environ.get("VERIF_REPO", "/repo")


def _skeleton_keys():
    try:
        tree = ast.parse(open(os.path.join(REPO, UM)).read())
        fn = next(n for n in tree.body if isinstance(n, ast.FunctionDef) and n.name == "_get_broadcast_shape")
        body = [s for s in fn.body
                if not (isinstance(s, ast.Expr) and isinstance(s.value, ast.Constant) and isinstance(s.value.value, str))]
        test, ret = body[0], body[1]
        assert len(body) == 2 and isinstance(test, ast.If) and isinstance(ret, ast.Return) and not test.orelse
        # the test is a boolean expression in which `not all(<generator>)` occurs (round 7: it is or-ed with the
        # is_result length guard); the all(...) call is the only part outside the statement grammar
        calls = [n for n in ast.walk(test.test) if isinstance(n, ast.Call) and ast.unparse(n.func) == "all"]
        assert len(calls) == 1
        call = calls[0]
        nots = [n for n in ast.walk(test.test) if isinstance(n, ast.UnaryOp) and isinstance(n.op, ast.Not) and n.operand is call]
        assert len(nots) == 1
        assert len(call.args) == 1 and isinstance(call.args[0], ast.GeneratorExp) and not call.keywords
        v = ret.value
        assert isinstance(v, ast.Subscript) and ast.unparse(v.slice) == "::-1"
        inner = v.value
        assert isinstance(inner, ast.Call) and ast.unparse(inner.func) == "tuple" and len(inner.args) == 1 \
            and isinstance(inner.args[0], ast.GeneratorExp) and not inner.keywords
        return ast.unparse(call), ast.unparse(v)
    except Exception:  # noqa: BLE001  (fail-closed: keys that cannot occur in the source)
        return "<<all(<generator>) not found in _get_broadcast_shape>>", "<<tuple(<generator>)[::-1] not found>>"


ALL_TEXT, TUPLE_TEXT = _skeleton_keys()

FILES = {
    "G_umath.v": [
        dict(name="g_get_broadcast_shape", file=UM, func="_get_broadcast_shape", callable=False,
             params=["shape1", "shape2", "is_result", "all_ok", "zipped"],
             extern={ALL_TEXT: "Ok all_ok", TUPLE_TEXT: "Ok zipped"}),
    ],
}
