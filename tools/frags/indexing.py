"""Fragment tables of the indexing area (C02 part 2: COO/GCXS/DOK getitem).

Tables:

FILES   — empty: py2v.generate writes a fixed header (Py, PyExt) and the extern terms of this area live in
          coq/Lib/PyIndex.v, so the whole-function fragments go through the site generator as well.

WHOLE   — whole functions translated as they stand (`extern` for the few list expressions):
          `_slicing.replace_ellipsis` (its arithmetic `n - (len(index) - #None - 1)`, the single-ellipsis
          test, the early return) and `_slicing._sanitize_index_element`.

PICKED  — scalar expressions / statements that sit *inside loops* of functions whose bodies are far
          outside py2v's grammar (`_filter_pairs`' match predicate, getitem's coordinate map and `sorted`
          flag, `_prune_indices`' full-slice tests, normalize_index's counting/padding/too-many tests).
          py2v's only selector takes the body of an `if`, so these cannot be addressed by it.
          tools/sitegen/indexing.py picks each node out of the function's AST by a *structural* address
          (never a line number; fail-closed: the surrounding statements must have exactly the shape
          described by the picker), wraps it into a tiny synthetic function `def name(params): return <expr>`
          and hands that to the unmodified py2v.translate_fragment.  Output: coq/Gen/S_indexing.v.
          The hand-written meanings of the extern terms are in coq/Lib/PyIndex.v.
"""

SL = "sparse/numba_backend/_slicing.py"
CI = "sparse/numba_backend/_coo/indexing.py"

FILES = {}

WHOLE = [
        dict(name="g_replace_ellipsis", file=SL, func="replace_ellipsis",
             extern={
                 "[i for i, ind in enumerate(index) if ind is Ellipsis]": "ext_ellipsis_positions index",
                 "sum((i is None for i in index))": "ext_count_none index",
                 "index[:loc] + (slice(None, None, None),) * extra_dimensions + index[loc + 1:]":
                     "ext_splice_full index loc extra_dimensions",
             }),
        dict(name="g_sanitize_index_element", file=SL, func="_sanitize_index_element"),
]

# header of the generated files of this area (PyIndex holds the extern terms)
HEADER = "From Verif Require Import Py PyExt PyIndex.\n"

PICKED = [
    # _filter_pairs:  match &= <expr>      (idx = one row [start, stop, step] of `indices`, elem = one coordinate)
    dict(name="s_filter_match", file=CI, func="_filter_pairs", pick=("augassign_value", "match"),
         params=["idx_0", "idx_1", "idx_2", "elem"], subscripts={"idx": ["idx_0", "idx_1", "idx_2"]}),
    # getitem, slice branch:  coords.append((x.coords[i, mask].astype(np.intp) - ind.start) // ind.step)
    # (one coordinate c of the selected column; the cast to intp is the identity on unbounded Z)
    dict(name="s_coord_map", file=CI, func="getitem",
         pick=("call_arg", "isinstance(ind, slice)", "coords.append"),
         params=["c", "ind"], extern={"x.coords[i, mask].astype(np.intp)": "Ok c"}),
    # getitem, slice branch:  shape.append(len(range(ind.start, ind.stop, ind.step)))
    dict(name="s_slice_len", file=CI, func="getitem",
         pick=("call_arg", "isinstance(ind, slice)", "shape.append"),
         params=["ind"], extern={"len(range(ind.start, ind.stop, ind.step))": "ext_slice_len ind"}),
    # getitem:  sorted = adv_idx is None or adv_idx.pos == 0
    dict(name="s_sorted_init", file=CI, func="getitem", pick=("assign_value", "sorted"),
         params=["adv_idx", "adv_pos"], extern={"adv_idx.pos": "Ok adv_pos"}),
    # getitem, slice branch:  if ind.step < 0: sorted = False
    dict(name="s_sorted_step", file=CI, func="getitem",
         pick=("if_stmt", "isinstance(ind, slice)", "ind.step < 0", "sorted"),
         params=["sorted", "ind"]),
    # _prune_indices: the two full-slice tests of the backwards loop
    dict(name="s_prune_full_fwd", file=CI, func="_prune_indices", pick=("prune_test", 1), params=["idx", "sh"]),
    dict(name="s_prune_full_rev", file=CI, func="_prune_indices", pick=("prune_test", 2), params=["idx", "sh"]),
    # normalize_index: per-entry increment of n_sliced_dims (the loop body; `continue` in tail position = pass)
    dict(name="s_count_sliced", file=SL, func="normalize_index", pick=("count_loop", "n_sliced_dims"),
         params=["n_sliced_dims", "i"],
         extern={"hasattr(i, 'ndim') and i.ndim >= 1": "ext_is_ndarray i", "i.ndim": "ext_ndim i"}),
    # normalize_index: idx += (slice(None),) * (len(shape) - n_sliced_dims)
    dict(name="s_pad_count", file=SL, func="normalize_index", pick=("pad_count",),
         params=["shape", "n_sliced_dims"]),
    # normalize_index: if len([i for i in idx if i is not None]) > len(shape): raise IndexError
    dict(name="s_too_many", file=SL, func="normalize_index", pick=("raise_test", "IndexError('Too many indices for array')"),
         params=["idx", "shape"], extern={"[i for i in idx if i is not None]": "ext_not_none idx"}),
]
