"""Fragment tables of the argument-validation area (property C18).

FILES  (plain py2v selectors, output coq/Gen/G_validators.v, header imports Lib/Py.v + Lib/PyExt.v only)

  gv_normalize_axis_int  _utils.normalize_axis, body of `if isinstance(axis, Integral):`
                         (int(), the `axis += ndim` wrap, the range test, the raise).  The Iterable
                         branch is a generator expression (outside the grammar): Model/Validators.v
                         transcribes the element-wise map by hand and calls this fragment per element.
  gv_coo_init_checks     COO.__init__, body of `if self.shape:` — the two length checks
                         (len(data) vs coords.shape[1]; len(shape) vs coords.shape[0]).  The four
                         array attributes are the fragment's parameters.
  (check_index is already generated as g_check_index in Gen/G_slicing.v and is reused from there.)

SITE   (tools/sitegen/validators.py, output coq/Gen/S_validators.v, header also imports Lib/PyValid.v)

  pieces that the plain selectors cannot address — the *test* of an `if` (select_block only yields
  bodies), the element expression of a generator, or a whole function whose externs need the
  hand-written terms of Lib/PyValid.v.  Locators (all by exact source text, fail-closed):

    ("func",)                 the whole function body
    ("if_stmt", test)         the first `if` (any depth) whose test unparses to `test`, which must have
                              no else and a body consisting of one `raise`; synthesised as
                                  def f(params): if <test>: <raise> ; return None
    ("if_test", test)         only the test expression:  def f(params): return <test>
    ("gen_elt", text)         the element expression of the generator / list comprehension whose
                              unparsed text is `text`:  def f(params): return <elt>
    ("assign_value", name)    the right-hand side of the (unique) assignment `name = <expr>` in the function:
                                  def f(params): return <expr>
    ("if_or_first", gen)      X of the `if X or not all(<gen>): raise` guard whose generator unparses to `gen`:
                                  def f(params): return X
    ("float_test", k)         the test of the `if <test>: break` inside the k-th top-level `while`, translated
                              SYMBOLICALLY over Lib/PyValid.v:fops (* / + max np.log > and integer constants):
                                  Definition f (F : fops) (params : ft F) : bool
    ("while_test", k)         the test of the k-th `while` among the function's top-level statements:
                                  def f(params): return <test>
    ("stmt_present", text) / ("if_test_present", text)
                              a boolean constant `true`; fails unless a statement with this exact text exists
                              (a call-site fact the model relies on)
"""

UT = "sparse/numba_backend/_utils.py"
CO = "sparse/numba_backend/_coo/core.py"
UM = "sparse/numba_backend/_umath.py"
CM = "sparse/numba_backend/_common.py"

FILES = {
    "G_validators.v": [
        dict(name="gv_normalize_axis_int", file=UT, func="normalize_axis", callable=False,
             selector=("if", "isinstance(axis, Integral)"), params=["axis", "ndim"]),
        dict(name="gv_coo_init_checks", file=CO, func="COO.__init__", callable=False,
             selector=("if", "self.shape"), params=["ndata", "ncols", "nshape", "nrows"],
             extern={
                 "len(self.data)": "Ok ndata",
                 "self.coords.shape[1]": "Ok ncols",
                 "len(self.shape)": "Ok nshape",
                 "self.coords.shape[0]": "Ok nrows",
             }),
    ],
}

SITE = [
    dict(name="sv_check_compressed_axes", file=UT, func="check_compressed_axes", locator=("func",),
         params=["ndim", "compressed_axes"],
         extern={
             # sorted(set(t)) == t  <=>  t strictly increasing (the Integral check precedes it since 35dbcbd)
             "np.array_equal(sorted(set(compressed_axes)), compressed_axes)": "ext_sorted_set_equal compressed_axes",
             "all((isinstance(a, Integral) for a in compressed_axes))": "ext_all_integral compressed_axes",
             "min(compressed_axes)": "ext_min compressed_axes",
             "max(compressed_axes)": "ext_max compressed_axes",
         }),
    dict(name="sv_reshape_size_check", file=CO, func="COO.reshape",
         locator=("if_stmt", "self.size != reduce(operator.mul, shape, 1)"), params=["size", "prod"],
         extern={"self.size": "Ok size", "reduce(operator.mul, shape, 1)": "Ok prod"}),
    dict(name="sv_transpose_repeat", file=CO, func="COO.transpose",
         locator=("if_stmt", "len(np.unique(axes)) < len(axes)"), params=["axes"],
         extern={"len(np.unique(axes))": "ext_len_unique axes"}),
    dict(name="sv_transpose_len", file=CO, func="COO.transpose",
         locator=("if_stmt", "not len(axes) == self.ndim"), params=["axes", "ndim"],
         extern={"self.ndim": "Ok ndim"}),
    dict(name="sv_bcast_ok", file=UM, func="_get_broadcast_shape",
         locator=("gen_elt", "(l1 == l2 or l1 == 1 or (l2 == 1 and (not is_result)) for l1, l2 in "
                             "zip(shape1[::-1], shape2[::-1], strict=False))"),
         params=["l1", "l2", "is_result"]),
    # the guard added by 7dd4784: broadcast_to (is_result) rejects an operand with more axes than the target
    dict(name="sv_bcast_more_dims", file=UM, func="_get_broadcast_shape",
         locator=("if_or_first", "(l1 == l2 or l1 == 1 or (l2 == 1 and (not is_result)) for l1, l2 in "
                                 "zip(shape1[::-1], shape2[::-1], strict=False))"),
         params=["is_result", "shape1", "shape2"]),
    dict(name="sv_bcast_dim", file=UM, func="_get_broadcast_shape",
         locator=("gen_elt", "(l1 if l1 != 1 else l2 for l1, l2 in zip_longest(shape1[::-1], shape2[::-1], fillvalue=1))"),
         params=["l1", "l2"]),
    dict(name="sv_td_count_ne", file=CM, func="tensordot", locator=("if_test", "na != nb"), params=["na", "nb"]),
    dict(name="sv_td_extent_ne", file=CM, func="tensordot", locator=("if_test", "as_[axes_a[k]] != bs[axes_b[k]]"),
         params=["ea", "eb"], extern={"as_[axes_a[k]]": "Ok ea", "bs[axes_b[k]]": "Ok eb"}),
    dict(name="sv_td_unequal_raise", file=CM, func="tensordot", locator=("if_stmt", "not equal"), params=["equal"]),
    dict(name="sv_td_zero_elt", file=CM, func="tensordot",
         locator=("gen_elt", "(dim == 0 for dim in chain(newshape_a, newshape_b))"), params=["dim"]),
    # the two shapes the zero-size shortcut of tensordot inspects: only the contracted extent N2 can be 0
    dict(name="sv_td_newshape_a", file=CM, func="tensordot", locator=("assign_value", "newshape_a"), params=["N2"]),
    dict(name="sv_td_newshape_b", file=CM, func="tensordot", locator=("assign_value", "newshape_b"), params=["N2"]),
    dict(name="site_td_shortcut", file=CM, func="tensordot",
         locator=("if_test_present", "builtins.any((dim == 0 for dim in chain(newshape_a, newshape_b)))")),
    # dot of two 1-d operands: the lengths must agree (the repair of D19)
    dict(name="sv_dot_1d_shape_check", file=CM, func="dot", locator=("if_stmt", "a.shape != b.shape"), params=["sa", "sb"],
         extern={"a.shape != b.shape": "ext_shape_ne sa sb"}),
    # matmul rejects 0-d operands before delegating to dot (9e6cc99)
    dict(name="sv_matmul_0d_check", file=CM, func="matmul", locator=("if_stmt", "a.ndim == 0 or b.ndim == 0"), params=["nda", "ndb"],
         extern={"a.ndim": "Ok nda", "b.ndim": "Ok ndb"}),
    # einsum: an output subscript must occur exactly once in the output (a749d30); cnt = output_subscript.count(char)
    dict(name="sv_einsum_out_count_check", file=CM, func="_parse_einsum_input",
         locator=("if_stmt", "output_subscript.count(char) != 1"), params=["cnt"],
         extern={"output_subscript.count(char)": "Ok cnt"}),
    # _compute_mask: the cost estimate that decides between per-position binary searches and one linear filter.
    # The work bound of Props/C18.v (compute_mask_work_bound) is proved about THESE two extracted expressions.
    dict(name="sv_cm_n_current_slices", file="sparse/numba_backend/_coo/indexing.py", func="_compute_mask",
         locator=("assign_value", "n_current_slices"), params=["rlen", "n_pairs"],
         extern={"len(range(indices[i, 0], indices[i, 1], indices[i, 2]))": "Ok rlen"}),
    dict(name="sv_cm_break", file="sparse/numba_backend/_coo/indexing.py", func="_compute_mask",
         locator=("float_test", 0), params=["n_current_slices", "n_pairs", "n_matches"]),
    # moveaxis: WHICH validation statement runs WHEN (the repeat test must see normalised axes)
    dict(name="site_moveaxis_steps", file=CM, func="moveaxis", locator=("moveaxis_steps",)),
    # the outer-loop tests of the two COO x ndarray kernels (the guard that repaired D3 lives here)
    dict(name="sv_dcn_outer_test", file=CM, func="_dot_coo_ndarray_type._dot_coo_ndarray", locator=("while_test", 0),
         params=["didx1", "n", "ncols"], extern={"len(data1)": "Ok n", "out_shape[1]": "Ok ncols"}),
    dict(name="sv_dcs_outer_test", file=CM, func="_dot_coo_ndarray_type_sparse._dot_coo_ndarray", locator=("while_test", 0),
         params=["didx1", "n", "ncols"], extern={"len(data1)": "Ok n", "out_shape[1]": "Ok ncols"}),
    # _dot hands the COO x ndarray kernels the output shape (a.shape[0], b.shape[1]) with no further guard
    dict(name="site_dot_out_shape", file=CM, func="_dot", locator=("stmt_present", "out_shape = (a.shape[0], b.shape[1])")),
]


# ---------------------------------------------------------------------------------------------------
# PROGS: call skeletons (tools/sitegen/validators.py:extract_prog -> `site_prog_* : prog` in S_validators.v)
# for the public functions whose validators are generated above.  Every call in the function must be
# classified (fail-closed): VALIDATOR_CALLS may reject, KERNEL_CALLS touch or produce array data, NEUTRAL_CALLS
# are scalar / shape / type bookkeeping.  `neutral_text`: exact source texts of calls whose *name* is a kernel
# name but whose receiver is a plain ndarray / tuple (e.g. `self.coords.reshape(...)` inside COO.__init__).
VALIDATOR_CALLS = {"normalize_axis", "normalize_index", "check_index", "check_compressed_axes", "check_zero_fill_value",
                   "check_consistent_fill_value", "check_fill_value", "_get_broadcast_shape", "_get_nary_broadcast_shape"}
KERNEL_CALLS = {"COO", "GCXS", "DOK", "cls", "_dot", "as_coo", "_from_coo", "linear_loc", "todense", "tocoo", "reshape",
                "transpose", "_get_expanded_coords_data", "_sort_indices", "_sum_duplicates", "_prune",
                "change_compressed_axes", "_mask", "stack", "tensordot", "sum", "asformat",
                "dot", "_matmul_recurser", "from_coo", "get_array_selection", "get_single_element", "get_slicing_selection",
                "convert_to_flat", "uncompress_dimension"}
NEUTRAL_CALLS = {"insert", "pop", "prod", "index", "isalpha", "join", "replace", "set", "sorted", "split", "List", "arange",
                 "array", "bincount", "cumsum", "isscalar", "tolist",
                 # inspection of the INPUT operands that rejects nothing (NaN warning; is the index array sorted)
                 "check_class_nan", "is_sorted",
                 "count", "len", "list", "tuple", "range", "reversed", "unique", "append", "any", "all", "isinstance", "enumerate", "max",
                 "min_scalar_type", "can_store", "reduce", "empty", "zip", "zip_longest", "_get_broadcast_parameters", "chain", "int",
                 "iter", "result_type", "_is_scipy_sparse_obj", "hasattr", "type", "_zero_of_dtype", "equivalent", "extend",
                 "slice", "zeros", "asarray", "super", "__init__", "warn", "format", "broadcast_to",
                 # NumPy element-wise conversions of argument / attribute arrays
                 "astype", "where", "flatten",
                 # attribute bookkeeping on self (no array data is computed)
                 "_make_shallow_copy_of", "enable_caching",
                 # conversion of a scipy.sparse INPUT operand (before validation by construction of the API)
                 "from_scipy_sparse"}
PROGS = [
    dict(name="site_prog_coo_transpose", file=CO, func="COO.transpose"),
    dict(name="site_prog_coo_reshape", file=CO, func="COO.reshape"),
    dict(name="site_prog_broadcast_to", file=UM, func="broadcast_to"),
    dict(name="site_prog_tensordot", file=CM, func="tensordot"),
    dict(name="site_prog_dot", file=CM, func="dot"),
    dict(name="site_prog_coo_getitem", file="sparse/numba_backend/_coo/indexing.py", func="getitem"),
    dict(name="site_prog_matmul", file=CM, func="matmul"),
    dict(name="site_prog_parse_einsum", file=CM, func="_parse_einsum_input"),
    dict(name="site_prog_gcxs_getitem", file="sparse/numba_backend/_compressed/indexing.py", func="getitem"),
    dict(name="site_prog_coo_init", file=CO, func="COO.__init__",
         neutral_text=["self.coords.reshape((len(shape), len(data)))"]),
]
