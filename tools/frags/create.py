"""Fragment table of the creation area (C19): the scalar arithmetic of `_common.eye` (data_length and
the start coordinates of both rows) and the scalar prefix of `_utils.random` (argument guards, the
`nnz` computation and the five-way sampling branch chain).

Neither piece is reachable with py2v's plain selectors: both sit at the top level of a function whose
body also contains statements outside the grammar (`from ._coo import COO`, keyword calls, the
constructor call), and `select_block` can only take the body of one `if`.  They are therefore *sliced*
fragments: tools/sitegen/create.py cuts the statement range described here out of the function's AST
(fail-closed: every statement that is dropped, and the whole tail that is not translated, must match
the exact text listed here), applies two semantics-preserving rewrites (`builtins.min/max` -> `min/max`,
`a = b = e` -> `a = e; b = a`), and hands the result to the unmodified py2v.translate_fragment with the
`params`/`result`/`extern`/`calls` below.  Output: coq/Gen/S_create.v.

FILES stays empty (nothing here goes through the plain-selector path)."""

CM = "sparse/numba_backend/_common.py"
UT = "sparse/numba_backend/_utils.py"

FILES = {}

SLICED = [
    dict(
        name="s_eye_arith", file=CM, func="eye",
        # statements dropped from the head (exact text)
        drop=["from ._coo import COO"],
        # the translated range ends just before the statement with this text; the remaining tail must
        # be exactly `tail` (it carries the constructor facts the model relies on: shape=(N, M),
        # scalar data 1, has_duplicates=False, sorted=True)
        tail=[
            "coords = np.stack([n_coords, m_coords])",
            "data = np.array(1, dtype=dtype)",
            "return COO(coords, data=data, shape=(N, M), has_duplicates=False, sorted=True).asformat(format, **kwargs)",
        ],
        params=["N", "M", "k"],
        result=["N", "M", "data_length", "n_coords", "m_coords"],
        extern={
            # the zero-length shortcut: result is zeros((N, M)) — tagged by a 2-tuple
            "zeros((N, M), dtype=dtype, format=format, device=device)": "Ok (VTuple [N; M])",
            # an arange row is represented by its first element (Lib/PyCreate.v)
            "np.arange(data_length, dtype=np.intp)": "Ok (VInt 0)",
        },
        calls={},
    ),
    dict(
        name="s_random_plan", file=UT, func="random",
        drop=[
            "from ._coo import COO",
            "if random_state is None:\n    random_state = default_rng\nelif isinstance(random_state, Integral):\n"
            "    random_state = np.random.default_rng(random_state)",
            "if data_rvs is None:\n    data_rvs = random_state.random",
        ],
        tail=[
            "data = data_rvs(nnz)",
            "ar = COO(ind[None, :], data, shape=elements, fill_value=fill_value).reshape(shape)",
            "if idx_dtype:\n    if can_store(idx_dtype, max(shape, default=0)):\n        ar.coords = ar.coords.astype(idx_dtype)\n"
            "    else:\n        raise ValueError(f'cannot cast array with shape {shape} to dtype {idx_dtype}.')",
            "return ar.asformat(format, **kwargs)",
        ],
        # density: its class (Lib/PyCreate.v); prod: the value of int(elements * density);
        # elements: the value of np.prod(shape, dtype=np.intp); random_state: opaque; nnztemp: a local that
        # only one branch defines (never read before it is assigned) — pre-bound so that py2v's SSA accepts it
        params=["density", "nnz", "elements", "prod", "random_state", "nnztemp"],
        result=["nnz", "ind"],
        extern={
            "0.01": "Ok (VInt 0)",
            "np.prod(shape, dtype=np.intp)": "Ok elements",
            "int(elements * density)": "Ok prod",
            "nnz > elements / 2": "py_gt_half nnz elements",
        },
        calls={
            "np.arange": "plan_arange",
            "random_state.choice": "plan_choice",
            "reverse": "plan_reverse",
            "algD": "plan_algD",
            "algA": "plan_algA",
        },
    ),
]
