"""Fragment table (tools/py2v.py) for the join / structural-extraction area (property C09).

Translated by py2v proper (whole function bodies inside the translator's statement grammar):

  g_join_normalize_axis   _utils.normalize_axis — the integer branch is what concatenate / stack /
                          take run on their `axis` argument (`axis = normalize_axis(axis, ndim)`,
                          with ndim+1 for stack).  The Iterable branch (tuples of axes) is not used
                          by the joiners; its two generator expressions are outside the grammar
                          and are mapped to `Raise NotImplementedError` (= "not modelled"; if their
                          text changes, the extern key disappears and translation fails closed).

The remaining scalar decision code of the area — the triu / tril mask predicates, the
`_diagonal_idx` match predicate, the `diagonal` guard / axis-selection predicate / shape
arithmetic — sits in functions whose bodies start with `from .core import COO` (an ImportFrom
statement, outside py2v's statement grammar) or is the condition of a comprehension, which the
('if'|'else', test) selectors of py2v cannot address.  Those pieces are extracted *by
sub-expression* in tools/sitegen/join.py, which reuses py2v's expression translator (py2v.Tr)
with extern maps for the array operands (`x.coords[-2]` -> the scalar `row`, …) and writes them
to Gen/S_join.v next to the constructor-flag table."""

UT = "sparse/numba_backend/_utils.py"

FILES = {
    "G_join.v": [
        dict(name="g_join_normalize_axis", file=UT, func="normalize_axis", callable=False,
             extern={
                 "all((isinstance(a, Integral) for a in axis))": "Raise NotImplementedError",
                 "tuple((normalize_axis(a, ndim) for a in axis))": "Raise NotImplementedError",
             }),
    ],
}
