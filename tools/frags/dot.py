"""Fragment table (tools/py2v.py) for the products area (C04): the scalar decision code of
`sparse/numba_backend/_common.py` that sits in front of the kernels.

  g_dot            the whole body of `dot(a, b)`: a 0-d operand (tensordot with axes=0), the 1-d . 1-d special case (ValueError when the two
                   lengths differ, else multiply and sum) and the choice of contraction axes handed to
                   tensordot (a_axis = -1, b_axis = -2, or -1 for a 1-d b).
  g_tensordot_0d   the block `if nda == 0 or ndb == 0:` of `tensordot`: a 0-d operand is multiplied
                   in when no axes are requested, otherwise ValueError.
  g_vecdot         the whole body of `vecdot`: the admissibility guard on `axis` and the two extents.

Array-valued sub-expressions are replaced (keyed by their exact source text, fail-closed) by
terms over the scalar parameters: `a.ndim` is the parameter a_ndim, `a.shape != b.shape` (both 1-d
there) compares the parameters a_len and b_len, `x1.shape[axis]` is x1_ext, the
calls that leave the scalar fragment return a tagged tuple describing the call:
  VTuple [VInt 0; a; b]            (a * b).sum()            (1-d . 1-d path of dot)
  VTuple [VInt 1; a_axis; b_axis]  tensordot(a, b, axes=(a_axis, b_axis))
  VTuple [VInt 2; axis]            np.sum(x1 * x2, axis=-1, ...) after moveaxis(x1, axis, -1), moveaxis(x2, axis, -1)
  VTuple [VInt 3]                  tensordot(a, b, axes=0)  (a 0-d operand of dot: multiply by the scalar)
The case chain of `matmul` and the zero-size shortcut of `tensordot` are not expressible with a
block selector (statements without scalar effect in between); tools/sitegen/dot.py extracts them.
"""

CM = "sparse/numba_backend/_common.py"

FILES = {
    "G_dot.v": [
        dict(name="g_dot", file=CM, func="dot", callable=False,
             params=["a", "b", "a_ndim", "b_ndim", "a_len", "b_len"],
             extern={
                 "check_zero_fill_value(a, b)": "Ok VNone",
                 "a.shape != b.shape": "py_ne a_len b_len",
                 "not hasattr(a, 'ndim') or not hasattr(b, 'ndim')": "Ok (VBool false)",
                 "a.ndim": "Ok a_ndim",
                 "b.ndim": "Ok b_ndim",
                 "isinstance(a, SparseArray)": "Ok (VBool true)",
                 "isinstance(b, SparseArray)": "Ok (VBool true)",
                 "as_coo(a)": "Ok a",
                 "as_coo(b)": "Ok b",
                 "(a * b).sum()": "Ok (VTuple [VInt 0; a; b])",
                 "tensordot(a, b, axes=0)": "Ok (VTuple [VInt 3])",
                 "tensordot(a, b, axes=(a_axis, b_axis))": "Ok (VTuple [VInt 1; a_axis; b_axis])",
             }),
        dict(name="g_tensordot_0d", file=CM, func="tensordot", callable=False,
             selector=("if", "nda == 0 or ndb == 0"),
             params=["a", "b", "nda", "ndb", "axes_a", "axes_b"],
             extern={
                 "axes_a == []": "Ok (VBool (negb (truthy axes_a)))",
                 "axes_b == []": "Ok (VBool (negb (truthy axes_b)))",
                 "isinstance(a, SparseArray)": "Ok (VBool true)",
                 "isinstance(b, SparseArray)": "Ok (VBool true)",
                 "a.todense()": "Ok a",
                 "b.todense()": "Ok b",
             }),
        dict(name="g_vecdot", file=CM, func="vecdot", callable=False,
             params=["x1", "x2", "axis", "x1_ndim", "x2_ndim", "x1_ext", "x2_ext"],
             extern={
                 "builtins.min((x1.ndim, x2.ndim))": "py_min2 x1_ndim x2_ndim",
                 "x1.shape[axis] != x2.shape[axis]": "py_ne x1_ext x2_ext",
                 "np.issubdtype(x1.dtype, np.complexfloating)": "Ok (VBool false)",
                 "np.conjugate(x1)": "Ok x1",
                 "moveaxis(x1, axis, -1)": "Ok x1",
                 "moveaxis(x2, axis, -1)": "Ok x2",
                 "np.sum(x1 * x2, axis=-1, dtype=np.result_type(x1, x2))": "Ok (VTuple [VInt 2; axis])",
             }),
    ],
}
