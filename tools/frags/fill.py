"""Fragment table of the fill-value area (C07): the scalar decision logic of the fill guards, of implicit
coercion and of the sparse/dense mix, regenerated as Gallina on every run.

None of these pieces is reachable with py2v's plain selectors (they sit inside `for` loops, behind a
function-local import, or between statements outside the grammar, and their externs live in
Lib/PyFill.v, which the plain path does not import).  They are therefore *sliced* fragments:
tools/sitegen/fill.py picks the statements named by `pick` out of the function's AST, checks
(fail-closed) that the top-level shape of the function is exactly `shape` (when given; `<picked>` stands
for a picked statement, `for T in I: <picked>` for a loop whose body is one picked `if`) and that every
statement text in `requires` is still present at the top level (`requires_nested`: (text, count) at any depth — the
statements a hand-written model definition transcribes), rewrites assignment targets
`self.x = e` to `self_x = e`, and hands the result to the unmodified py2v.translate_fragment with the
`params` / `result` / `extern` below.  Output: coq/Gen/S_fill.v (after the site table).

Conventions (Lib/PyFill.v): a sparse operand is represented by its fill value — an integer token
`VInt t` (integers stand for themselves, -0.0 / NaN / +-inf are distinct opaque tokens, like
vlib.val_token) or `VBool b`; an operand without a `fill_value` attribute (ndarray, scalar) is `VNone`;
a list of arrays is a `VTuple`.  `equivalent(a, b)` (strict: bit patterns) is token equality;
`equivalent(a, b, loose=True)` additionally identifies the two zeros.

FILES stays empty (nothing here goes through the plain-selector path)."""

UT = "sparse/numba_backend/_utils.py"
SA = "sparse/numba_backend/_sparse_array.py"
UM = "sparse/numba_backend/_umath.py"
CO = "sparse/numba_backend/_coo/core.py"
GC = "sparse/numba_backend/_compressed/compressed.py"

FILES = {}

_ZERO_TEST = "hasattr(arg, 'fill_value') and (not equivalent(arg.fill_value, _zero_of_dtype(arg.dtype)))"
_MAYBE = dict(
    pick=[("whole",)], params=["size", "max_size", "density_low"],
    extern={"self.size": "Ok size", "self.density < min_density": "Ok density_low",
            "self.todense()": "ext_densify size"},
    shape=["<picked>", "<picked>"])

SLICED = [
    # check_zero_fill_value(*args): for i, arg in enumerate(args): if <test>: raise ValueError
    dict(name="s_check_zero_one", file=UT, func="check_zero_fill_value",
         pick=[("loop-if", "enumerate(args)", _ZERO_TEST)], params=["arg"],
         extern={"hasattr(arg, 'fill_value')": "ext_has_fill arg",
                 "equivalent(arg.fill_value, _zero_of_dtype(arg.dtype))": "ext_equiv_zero arg"},
         shape=["for i, arg in enumerate(args): <picked>"]),
    # check_consistent_fill_value(arrays): the two argument guards and `fv = arrays[0].fill_value`
    dict(name="s_check_consistent_head", file=UT, func="check_consistent_fill_value",
         pick=[("if", "not all((isinstance(s, SparseArray) for s in arrays))"), ("if", "len(arrays) == 0"),
               ("assign", "fv")],
         params=["arrays"], result=["fv"],
         extern={"all((isinstance(s, SparseArray) for s in arrays))": "ext_all_sparse arrays",
                 "arrays[0].fill_value": "ext_first_fill arrays"},
         shape=["arrays = list(arrays)", "from ._sparse_array import SparseArray", "<picked>", "<picked>", "<picked>",
                "for i, arg in enumerate(arrays): if not equivalent(fv, arg.fill_value)"]),
    # ... and its loop body
    dict(name="s_check_consistent_one", file=UT, func="check_consistent_fill_value",
         pick=[("loop-if", "enumerate(arrays)", "not equivalent(fv, arg.fill_value)")], params=["fv", "arg"],
         extern={"equivalent(fv, arg.fill_value)": "ext_equiv fv arg"},
         shape=["arrays = list(arrays)", "from ._sparse_array import SparseArray",
                "if not all((isinstance(s, SparseArray) for s in arrays)):\n"
                "    raise ValueError('All arrays must be instances of SparseArray.')",
                "if len(arrays) == 0:\n    raise ValueError('At least one array required.')",
                "fv = arrays[0].fill_value", "for i, arg in enumerate(arrays): <picked>"]),
    # check_fill_value(x, /, *, accept_fv=None): whole body (loose comparison)
    dict(name="s_check_fill_value", file=UT, func="check_fill_value", pick=[("whole",)], params=["x", "accept_fv"],
         extern={"[0]": "Ok (VTuple [VInt 0])", "[accept_fv]": "Ok (VTuple [accept_fv])",
                 "any((equivalent(fv, x.fill_value, loose=True) for fv in accept_fv))": "ext_any_loose accept_fv x"},
         shape=["<picked>", "<picked>", "<picked>"]),
    # SparseArray.__array__: the AUTO_DENSIFY test
    dict(name="s_array_coerce", file=SA, func="SparseArray.__array__",
         pick=[("if", "not AUTO_DENSIFY"), ("return",)], params=["AUTO_DENSIFY", "self"],
         extern={"np.asarray(self.todense(), *args, **kwargs)": "ext_densify self"},
         shape=["from ._settings import AUTO_DENSIFY", "<picked>", "<picked>"]),
    # SparseArray._to_scalar (float(x), int(x), bool(x), complex(x), operator.index(x))
    dict(name="s_to_scalar", file=SA, func="SparseArray._to_scalar", pick=[("whole",)], params=["size", "shape"],
         extern={"self.size": "Ok size", "self.shape != ()": "ext_shape_ne shape (VTuple [])",
                 "builtin(self.todense().flatten()[0])": "ext_densify size"},
         shape=["<picked>", "<picked>"]),
    # _Elemwise._get_fill_value: the sparse/dense-mix decision
    dict(name="s_dense_mix", file=UM, func="_Elemwise._get_fill_value",
         pick=[("if", "not equivalent_fv and self.shape != self.ndarray_shape"), ("if", "not equivalent_fv")],
         params=["equivalent_fv", "self_shape", "self_ndarray_shape", "self_dense_result"], result=["self_dense_result"],
         extern={"self.shape != self.ndarray_shape": "ext_shape_ne self_shape self_ndarray_shape"},
         requires=["equivalent_fv = equivalent(fill_value, fill_value_array, loose=True).all()"],
         requires_in=[("_Elemwise.__init__", "self._dense_result = False"),
                      ("_Elemwise.__init__", "self._check_broadcast()"),
                      ("_Elemwise.__init__", "self._get_fill_value()"),
                      ("_Elemwise.get_result",
                       "if self._dense_result:\n    args = [a.todense() if isinstance(a, COO) else a for a in self.args]\n"
                       "    return self.func(*args, **self.kwargs)"),
                      ("_Elemwise._check_broadcast", "self.shape = full_shape"),
                      ("_Elemwise._check_broadcast", "self.ndarray_shape = ndarray_shape")]),
    # SparseArray.reduce: the admissibility test
    dict(name="s_reduce_admissible", file=SA, func="SparseArray.reduce",
         pick=[("if", "not equivalent(zero_reduce_result, self.fill_value) and reduce_super_ufunc is None")],
         params=["equiv_zero_reduce", "reduce_super_ufunc"],
         extern={"equivalent(zero_reduce_result, self.fill_value)": "Ok equiv_zero_reduce"},
         requires=["zero_reduce_result = method.reduce([self.fill_value, self.fill_value], **kwargs)",
                   "reduce_super_ufunc = _reduce_super_ufunc.get(method)"]),
    # the fill correction of SparseArray.reduce that Model/FillRules.v transcribes by hand (sum_group_impl,
    # sum_result_fill): these statements must be present, exactly so often, anywhere in the function.  Emitted as the
    # list `s_reduce_correction_pins`; only the sum_fill_correction theorems depend on it (not the judge).
    dict(name="s_reduce_correction_pins", file=SA, func="SparseArray.reduce", pins=[
        ("missing_counts = counts != n_cols", 2),
        ("data[missing_counts] = method(data[missing_counts], self.fill_value, **kwargs)", 1),
        ("fill_value = data.dtype.type(self.fill_value)", 1),
        ("data[missing_counts] = method(data[missing_counts], reduce_super_ufunc(fill_value, "
         "(n_cols - counts)[missing_counts])).astype(data.dtype)", 1),
        ("result_fill_value = reduce_super_ufunc(fill_value, n_cols)", 1),
        ("result_fill_value = method.reduce(np.empty((0,), dtype=self.dtype), **kwargs)", 1),
    ]),
    # maybe_densify (COO and GCXS): the size test
    dict(_MAYBE, name="s_maybe_densify_coo", file=CO, func="COO.maybe_densify"),
    dict(_MAYBE, name="s_maybe_densify_gcxs", file=GC, func="GCXS.maybe_densify"),
]
