"""Fragment table (tools/py2v.py) for the reductions area (C03).

 * `_utils.normalize_axis` — the integer branch is translated statement by statement; the
   iterable branch is a Python generator expression (outside the scalar grammar): its two
   expressions are replaced by `Raise NotImplementedError` and the element-wise map
   `tuple(normalize_axis(a, ndim) for a in axis)` is transcribed by hand in Model/Reduce.v
   (`norm_axes`), which calls the generated integer branch once per element.  If either source
   text changes the extern key disappears and translation fails closed.
 * everything of `SparseArray.reduce` / `COO._reduce_calc` (head with the admissibility test, the
   three-way fill correction, the `_reduce_super_ufunc` table, the per-axis expression) is extracted
   by tools/sitegen/reduce.py, which needs statement ranges and one rewriting rule (boolean-mask
   assignment read per cell) that the fragment grammar does not have."""

UT = "sparse/numba_backend/_utils.py"

FILES = {
    "G_reduce.v": [
        dict(name="g_normalize_axis", file=UT, func="normalize_axis",
             extern={
                 "all((isinstance(a, Integral) for a in axis))": "Raise NotImplementedError",
                 "tuple((normalize_axis(a, ndim) for a in axis))": "Raise NotImplementedError",
             }),
    ],
}
