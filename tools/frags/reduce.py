"""Fragment table (tools/py2v.py) for the reductions area (C03).

 * `_utils.normalize_axis` — the integer branch is translated statement by statement; the
   iterable branch is a Python generator expression (outside the scalar grammar): its two
   expressions are replaced by `Raise NotImplementedError` and the element-wise map
   `tuple(normalize_axis(a, ndim) for a in axis)` is transcribed by hand in Model/Reduce.v
   (`norm_axes`), which calls the generated integer branch once per element.  If either source
   text changes the extern key disappears and translation fails closed.
 * the `else` branch of `if reduce_super_ufunc is None:` in `SparseArray.reduce` — the fill
   correction for add/multiply — read per output cell (`data`, `counts` are the cell's reduced
   stored value and stored count).  `method(...)`, `reduce_super_ufunc(...)` are applications of
   ufuncs identified by a small integer code; their meaning on Python ints is given inline (so the
   generated file needs nothing beyond Lib/Py.v): codes 0 add, 1 multiply, 9 power.
   The other pieces of `reduce` (head with the admissibility test, the masked `if` branch, the
   `_reduce_super_ufunc` table, `COO._reduce_calc`'s per-axis expression) are extracted by
   tools/sitegen/reduce.py, which needs statement ranges and one rewriting rule the fragment
   grammar does not have."""

UT = "sparse/numba_backend/_utils.py"
SA = "sparse/numba_backend/_sparse_array.py"

# application of the ufunc with integer code `f` to two Python ints (only Lib/Py.v names)
def _apply(f, a, b):
    return (f"(match {f}, as_int {a}, as_int {b} with "
            f"| VInt 0, Some a_, Some b_ => Ok (VInt (a_ + b_)) "
            f"| VInt 1, Some a_, Some b_ => Ok (VInt (a_ * b_)) "
            f"| VInt 9, Some a_, Some b_ => if b_ <? 0 then Raise ValueError else Ok (VInt (a_ ^ b_)) "
            f"| _, _, _ => Raise TypeError end)")


FILES = {
    "G_reduce.v": [
        dict(name="g_normalize_axis", file=UT, func="normalize_axis",
             extern={
                 "all((isinstance(a, Integral) for a in axis))": "Raise NotImplementedError",
                 "tuple((normalize_axis(a, ndim) for a in axis))": "Raise NotImplementedError",
             }),
        dict(name="g_reduce_super", file=SA, func="SparseArray.reduce", callable=False,
             selector=("else", "reduce_super_ufunc is None"),
             params=["method", "reduce_super_ufunc", "fill", "data", "counts", "n_cols"],
             result=["data", "result_fill_value"],
             extern={
                 "method(data, reduce_super_ufunc(self.fill_value, n_cols - counts)).astype(data.dtype)":
                     "(m_ <- py_sub n_cols counts ;; s_ <- " + _apply("reduce_super_ufunc", "fill", "m_") +
                     " ;; " + _apply("method", "data", "s_") + ")",
                 "reduce_super_ufunc(self.fill_value, n_cols)": _apply("reduce_super_ufunc", "fill", "n_cols"),
             }),
    ],
}
