"""Fragment tables of the index-width area (C15).  Output: coq/Gen/S_idxwidth.v, produced by
tools/sitegen/idxwidth.py on every run (FILES stays empty: the generated header must import
Lib/MachInt.v, which the plain py2v path does not).

Three kinds of entries, all fail-closed (a source edit that changes the addressed text makes the
entry fail, the definition disappears from S_idxwidth.v and every theorem using it stops compiling):

PY2V      scalar decision code translated by the unmodified tools/py2v.py (`translate_fragment`):
          the dtype re-choices (`get_out_dtype`, reshape, concatenate, `_from_coo`, GCXS joins) and the
          bodies of the capacity guards.  A guard is addressed by the *exact text of its test*
          (py2v's selector), so the test itself is part of the tie; dtypes are values
          `(bits, signed)` (Lib/MachInt.v `dty_pyv`), `can_store` / `np.min_scalar_type` are extern
          terms of MachInt.v.
ARRAY     coordinate arithmetic that the code performs on index *arrays*: the expression / augmented
          assignment is located by the exact text of one of its leaves' statement, and its operator
          tree is translated into the typed-array algebra of Lib/MachInt.v, every leaf classified as
            arr   an index array in the stored dtype
            py    a Python int (weak scalar: stays in the array's type, OverflowError if unfit)
            np64  an element of an intp array / a NumPy int64 scalar (promotes)
            npk   a NumPy integer scalar whose type is the extra parameter `kt` of the definition
          `X.astype(np.intp | np.int64)` inside such a tree becomes MachInt's `astype (DInt i64) X`.
FACT      statements that must be present verbatim (a `(text, n)` pair: exactly n times); the given Coq
          text is emitted when they are.  Several entries may carry the same name: alternatives, the
          first that matches is emitted.
"""

UT = "sparse/numba_backend/_utils.py"
CORE = "sparse/numba_backend/_coo/core.py"
COMMON = "sparse/numba_backend/_coo/common.py"
INDEXING = "sparse/numba_backend/_coo/indexing.py"
TOP = "sparse/numba_backend/_common.py"
GCXS = "sparse/numba_backend/_compressed/compressed.py"
GCOMMON = "sparse/numba_backend/_compressed/common.py"
GCONVERT = "sparse/numba_backend/_compressed/convert.py"

FILES = {}

CAN = "ext_can_store"
MST = "ext_min_scalar_type"

# roll's capacity guard: the `if not all(<generator over zip(shift, axis)>)` whose element mentions
# can_store(a.coords.dtype, ...).  It is located by this pattern rather than by its exact text, so that an
# edit of the per-axis condition regenerates g_roll_axis_ok from the edited source (the roll theorems are
# then re-checked against it, and the campaign runs against the regenerated model) instead of failing closed.
ROLL_GUARD_RE = r"^not all\(\(.*can_store\(a\.coords\.dtype, .*for sh, ax in zip\(shift, axis, strict=True\)\)\)$"

PY2V = [
    dict(name="g_get_out_dtype", file=UT, func="get_out_dtype", params=["arr", "scalar"],
         extern={"arr.dtype": "Ok arr",
                 "can_store(out_type, scalar)": f"{CAN} out_type scalar",
                 "np.min_scalar_type(scalar)": f"{MST} scalar"}),
    # COO.__init__: `if idx_dtype: if not can_store(idx_dtype, max(shape, default=0)): raise ValueError(...)`
    dict(name="g_ctor_guard", file=CORE, func="COO.__init__", params=[],
         selector=("if", "not can_store(idx_dtype, max(shape, default=0))")),
    # COO.reshape: idx_dtype = self.coords.dtype; if shape != () and not can_store(...): idx_dtype = min_scalar_type(...)
    dict(name="g_reshape_choice", file=CORE, func="COO.reshape", params=["idx_dtype", "m"], result=["idx_dtype"],
         selector=("if", "shape != () and (not can_store(idx_dtype, max(shape)))"),
         extern={"np.min_scalar_type(max(shape))": f"{MST} m"}),
    # concatenate: if not can_store(coords.dtype, max(shape)): coords = coords.astype(min_scalar_type(max(shape)))
    dict(name="g_concat_upcast", file=COMMON, func="concatenate", params=["coords", "m"], result=["coords"],
         selector=("if", "not can_store(coords.dtype, max(shape))"),
         extern={"coords.astype(np.min_scalar_type(max(shape)))": f"{MST} m"}),
    # _from_coo: explicit idx_dtype guard, and the default choice
    dict(name="g_from_coo_guard", file=GCXS, func="_from_coo", params=[],
         selector=("if", "idx_dtype and (not can_store(idx_dtype, max(max(compressed_shape), x.nnz)))")),
    dict(name="g_from_coo_choice", file=GCXS, func="_from_coo", params=["xdt", "m"], result=["idx_dtype"],
         selector=("if", "not idx_dtype"),
         extern={"x.coords.dtype": "Ok xdt",
                 "can_store(idx_dtype, max(max(compressed_shape), x.nnz))": f"{CAN} idx_dtype m",
                 "np.min_scalar_type(max(max(compressed_shape), x.nnz))": f"{MST} m"}),
    # GCXS concatenate / stack: indptr upcast for max(total nnz, joined row count) (36b3bc9)
    dict(name="g_gcxs_concat_upcast", file=GCOMMON, func="concatenate", params=["indptr", "needed"],
         result=["indptr"], selector=("if", "not can_store(indptr.dtype, needed)"),
         extern={"indptr.astype(np.min_scalar_type(needed))": f"{MST} needed"}),
    dict(name="g_gcxs_stack_upcast", file=GCOMMON, func="stack", params=["indptr", "needed"],
         result=["indptr"], selector=("if", "not can_store(indptr.dtype, needed)"),
         extern={"indptr.astype(np.min_scalar_type(needed))": f"{MST} needed"}),
]

# ... and the per-axis condition inside that test: the element of the generator expression of the `if`
# whose test has exactly the given text, translated by py2v's expression translator
# (`can_store` -> ext_can_store, `int` -> py_int).
GENEXPR = [
    dict(name="g_roll_axis_ok", file=COMMON, func="roll", test_re=ROLL_GUARD_RE, params=["dt", "sh", "n"],
         calls={"can_store": CAN},
         extern={"a.coords.dtype": "Ok dt", "a.shape[ax]": "Ok n"}),
]

# the body of the `if` located by the same pattern (must translate to `Raise ValueError`)
IFBODY = [
    dict(name="g_roll_guard", file=COMMON, func="roll", test_re=ROLL_GUARD_RE, params=[]),
]

# the right-hand side of the single assignment `<target> = ...` of a function, translated by py2v's
# expression translator (calls -> other generated fragments; extern for the array-valued leaves).
# Extern keys listed under `optional` may be absent: dropping a term (e.g. `x.nnz`) then changes the generated
# definition (the theorem about it breaks, the campaign runs against the changed model) instead of failing closed.
ASSIGN = [
    # GCXS re-compression / transpose / reshape: the dtype of the new indices AND of the new indptr
    dict(name="g_transpose_dtype", file=GCONVERT, func="_transpose", target="coords_dtype",
         params=["xdt", "mcs", "nnz"], calls={"get_out_dtype": "g_get_out_dtype"},
         extern={"x.indices": "Ok xdt", "max(new_compressed_shape)": "Ok mcs", "x.nnz": "Ok nnz"},
         optional=["x.nnz", "max(new_compressed_shape)"]),
    # GCXS concatenate / stack: what the joined index pointer's dtype must hold (plen = indptr.shape[0])
    dict(name="g_gcxs_join_needed", file=GCOMMON, func="concatenate", target="needed",
         params=["total_nnz", "plen"], calls={}, extern={"indptr.shape[0]": "Ok plen"}),
    dict(name="g_gcxs_stack_needed", file=GCOMMON, func="stack", target="needed",
         params=["total_nnz", "plen"], calls={}, extern={"indptr.shape[0]": "Ok plen"}),
    dict(name="g_1d_reshape_dtype", file=GCONVERT, func="_1d_reshape", target="coords_dtype",
         params=["xdt", "mcs", "nnz"], calls={"get_out_dtype": "g_get_out_dtype"},
         extern={"x.indices": "Ok xdt", "max(new_compressed_shape)": "Ok mcs", "x.nnz": "Ok nnz"},
         optional=["x.nnz", "max(new_compressed_shape)"]),
]

# _coo/common.linear_loc: the dtype of what each `return` yields, as a function of the stored dtype d and of
# ndim.  The function must consist of `if <test>: return <e>` blocks followed by one `return <e>`; tests and
# returned expressions are classified by the tables below (anything else fails the generation).  A return of
# (a row of) `coords` itself keeps the STORED dtype — np.diff then wraps for unsigned types.
LINEAR_LOC = dict(
    name="s_linear_loc_dtype", file=COMMON, func="linear_loc",
    tests={"shape == () and len(coords) == 0": "(ndim =? 0)", "len(shape) == 1": "(ndim =? 1)",
           "len(shape) == 0": "(ndim =? 0)"},
    returns={"np.zeros(coords.shape[1:], dtype=np.intp)": "DInt i64",
             "np.ravel_multi_index(coords, shape)": "DInt i64",
             "coords[0]": "d", "coords[0, :]": "d", "coords[0].astype(np.intp)": "DInt i64"},
)

# Numba kernel conditions: the `if` of the single list comprehension in the function's return statement,
# an equality between operator trees over elements of index arrays ("arr") and Numba int64 scalars ("nb64"),
# translated with MachInt's Numba promotion (nb_arr_sc / nb_arr_arr).
NUMBA_COND = [
    dict(name="s_diagonal_mask", file=COMMON, func="_diagonal_idx",
         leaves={"coordlist[axis1][i]": ("arr", "a1"), "coordlist[axis2][i]": ("arr", "a2"), "offset": ("nb64", "offset")},
         params=[("a1", "tarr"), ("a2", "tarr"), ("offset", "Z")]),
]

# stmt: exact text (ast.unparse) of the statement holding the expression.
# what: 'value' (right-hand side of an Assign / the single argument of an Expr call), 'aug' (AugAssign:
#       target op= value), 'cmp' (Assign whose value is a comparison  lhs <cmp> rhs  -> list bool)
# leaves: source text of a leaf -> (kind, Coq parameter name)
# params: Coq parameters in order, with types
ARRAY = [
    dict(name="s_getitem_map", file=INDEXING, func="getitem",
         stmt="coords.append((x.coords[i, mask].astype(np.intp) - ind.start) // ind.step)", what="value",
         leaves={"x.coords[i, mask]": ("arr", "c"), "ind.start": ("py", "start"), "ind.step": ("py", "step")},
         params=[("c", "tarr"), ("start", "Z"), ("step", "Z")]),
    dict(name="s_flip_map", file=COMMON, func="flip",
         stmt="new_coords[ax, :] = x.shape[ax] - 1 - x.coords[ax, :]", what="value",
         leaves={"x.shape[ax]": ("py", "n"), "x.coords[ax, :]": ("arr", "c")},
         params=[("n", "Z"), ("c", "tarr")]),
    dict(name="s_triu_mask", file=COMMON, func="triu",
         stmt="mask = x.coords[-2].astype(np.int64) + k <= x.coords[-1].astype(np.int64)", what="cmp",
         leaves={"x.coords[-2]": ("arr", "r"), "k": ("py", "k"), "x.coords[-1]": ("arr", "c")},
         params=[("r", "tarr"), ("c", "tarr"), ("k", "Z")]),
    dict(name="s_tril_mask", file=COMMON, func="tril",
         stmt="mask = x.coords[-2].astype(np.int64) + k >= x.coords[-1].astype(np.int64)", what="cmp",
         leaves={"x.coords[-2]": ("arr", "r"), "k": ("py", "k"), "x.coords[-1]": ("arr", "c")},
         params=[("r", "tarr"), ("c", "tarr"), ("k", "Z")]),
    # roll: `sh` is an element of np.full(len(axis), shift) when a scalar shift was given: a NumPy scalar of
    # type kt (int64, or uint64 for a shift in 2^63 .. 2^64-1: MachInt.np_int_type) ...
    dict(name="s_roll_add_np", file=COMMON, func="roll", stmt="coords[ax] += sh", what="aug",
         leaves={"coords[ax]": ("arr", "c"), "sh": ("npk", "sh")}, params=[("c", "tarr"), ("kt", "ity"), ("sh", "Z")]),
    # ... and a Python int when a tuple of shifts as long as the tuple of axes was given
    dict(name="s_roll_add_py", file=COMMON, func="roll", stmt="coords[ax] += sh", what="aug",
         leaves={"coords[ax]": ("arr", "c"), "sh": ("py", "sh")}, params=[("c", "tarr"), ("sh", "Z")]),
    dict(name="s_roll_mod", file=COMMON, func="roll", stmt="coords[ax] %= a.shape[ax]", what="aug",
         leaves={"coords[ax]": ("arr", "c"), "a.shape[ax]": ("py", "n")}, params=[("c", "tarr"), ("n", "Z")]),
    dict(name="s_concat_add", file=COMMON, func="concatenate", stmt="coords[axis, nnz:x.nnz + nnz] += dim", what="aug",
         leaves={"coords[axis, nnz:x.nnz + nnz]": ("arr", "seg"), "dim": ("py", "dim")},
         params=[("seg", "tarr"), ("dim", "Z")]),
    dict(name="s_kron_map", file=COMMON, func="kron",
         stmt="o_coords = a_expanded_coords * np.asarray(b.shape)[:, None] + b_expanded_coords", what="value",
         leaves={"a_expanded_coords": ("arr", "a"), "np.asarray(b.shape)[:, None]": ("np64", "bs"),
                 "b_expanded_coords": ("arr", "b")},
         params=[("a", "tarr"), ("bs", "Z"), ("b", "tarr")]),
    dict(name="s_pad_map", file=TOP, func="pad",
         stmt="new_coords = array.coords + pad_width[:, 0:1]", what="value",
         leaves={"array.coords": ("arr", "c"), "pad_width[:, 0:1]": ("np64", "p")},
         params=[("c", "tarr"), ("p", "Z")]),
    dict(name="s_gcxs_concat_add", file=GCOMMON, func="concatenate", stmt="indptr[ptr_len:] += nnz", what="aug",
         leaves={"indptr[ptr_len:]": ("arr", "seg"), "nnz": ("py", "nnz")}, params=[("seg", "tarr"), ("nnz", "Z")]),
]

# (name, file, func, [statements that must all be present verbatim], Coq text)
FACT = [
    ("s_can_store", UT, "can_store",
     ["try:\n    with warnings.catch_warnings():\n        warnings.simplefilter('ignore')\n"
      "        warnings.filterwarnings('error', 'out-of-bound', DeprecationWarning)\n"
      "        return np.array(scalar, dtype=dtype) == np.array(scalar)\n"
      "except (ValueError, OverflowError):\n    return False"],
     "Definition s_can_store (d : dty) (z : Z) : bool := fits d z."),
    # getitem: the identity shortcut taken before the mask — every index entry is the full slice
    # slice(0, dim, 1) => the operand itself is returned (coordinates and their dtype untouched)
    ("s_getitem_identity", INDEXING, "getitem",
     ["if len(index) != 0 and all((isinstance(ind, slice) and ind == slice(0, dim, 1) "
      "for ind, dim in zip_longest(index, x.shape))):\n    return x"],
     "Definition s_getitem_identity (n start stop step : Z) : bool := (start =? 0) && (stop =? n) && (step =? 1)."),
    # COO._sort_indices / _sum_duplicates: "already sorted?" and "adjacent duplicates?" are decided by np.diff of
    # the linear positions, i.e. in the dtype linear_loc returns (LINEAR_LOC below)
    ("s_already_sorted", CORE, "COO._sort_indices",
     ["linear = self.linear_loc()", "if (np.diff(linear) >= 0).all():\n    return",
      "order = np.argsort(linear, kind='mergesort')"],
     "Definition s_already_sorted (lin : tarr) : bool := forallb (fun v => 0 <=? v) (np_diff lin)."),
    ("s_dup_mask", CORE, "COO._sum_duplicates",
     ["linear = self.linear_loc()", "unique_mask = np.diff(linear) != 0",
      "if unique_mask.sum() == len(unique_mask):\n    return", "unique_mask = np.append(True, unique_mask)"],
     "Definition s_dup_mask (lin : tarr) : list bool := map (fun v => negb (v =? 0)) (np_diff lin)."),
    # _dot, COO @ COO: the row pointers of both operands count stored elements; they are intp (alternative: the
    # operands' coordinate dtype, which cannot count more elements than it can index — then the theorem breaks)
    ("s_dot_indptr_dtype", TOP, "_dot",
     ["a_indptr = np.empty(a.shape[0] + 1, dtype=np.intp)", "b_indptr = np.empty(b.shape[0] + 1, dtype=np.intp)",
      "np.cumsum(np.bincount(a.coords[0], minlength=a.shape[0]), out=a_indptr[1:])",
      "np.cumsum(np.bincount(b.coords[0], minlength=b.shape[0]), out=b_indptr[1:])"],
     "Definition s_dot_indptr_dtype (d : dty) : dty := DInt i64."),
    ("s_dot_indptr_dtype", TOP, "_dot",
     ["a_indptr = np.empty(a.shape[0] + 1, dtype=a.coords.dtype)", "b_indptr = np.empty(b.shape[0] + 1, dtype=b.coords.dtype)",
      "np.cumsum(np.bincount(a.coords[0], minlength=a.shape[0]), out=a_indptr[1:])",
      "np.cumsum(np.bincount(b.coords[0], minlength=b.shape[0]), out=b_indptr[1:])"],
     "Definition s_dot_indptr_dtype (d : dty) : dty := d."),
    # COO.__init__: an array without stored elements gets fresh intp coordinates, whatever dtype was supplied
    # (the zero-size shortcut of tensordot supplies uintp ones)
    ("s_ctor_empty_dtype", CORE, "COO.__init__",
     ["if shape and (not self.coords.size):\n    self.coords = np.zeros((len(shape) if isinstance(shape, Iterable) else 1, 0), dtype=np.intp)"],
     "Definition s_ctor_empty_dtype (d : dty) : dty := DInt i64."),
    # GCXS._reduce_calc: the row numbers of the re-compressed array x are made in x's OWN indptr dtype (2e026b4;
    # alternative: the operand's dtype before re-compression, which may be too narrow — then the theorem breaks)
    ("s_gcxs_reduce_rows", GCXS, "GCXS._reduce_calc",
     ["x = self.change_compressed_axes(compressed_axes)",
      "indices = np.arange(x._compressed_shape[0], dtype=x.indptr.dtype)[idx]"],
     "Definition s_gcxs_reduce_rows (d_self d_x : dty) (rows : Z) : tarr := assign_into d_x (mkT (DInt i64) (zrange_ rows))."),
    ("s_gcxs_reduce_rows", GCXS, "GCXS._reduce_calc",
     ["x = self.change_compressed_axes(compressed_axes)",
      "indices = np.arange(x._compressed_shape[0], dtype=self.indptr.dtype)[idx]"],
     "Definition s_gcxs_reduce_rows (d_self d_x : dty) (rows : Z) : tarr := assign_into d_self (mkT (DInt i64) (zrange_ rows))."),
    # _umath._get_expanded_coords_data: positions along broadcast axes (np.arange(d, dtype=intp) products) are
    # written into `expanded_coords`, allocated in intp (alternative: the operand's coordinate dtype, which
    # cannot hold positions of an axis grown beyond it — then the theorem breaks)
    ("s_expanded_coords_dtype", "sparse/numba_backend/_umath.py", "_get_expanded_coords_data",
     ["expanded_coords = np.empty((len(broadcast_shape), all_idx.shape[1]), dtype=np.intp)",
      "all_idx = _cartesian_product(*(np.arange(d, dtype=np.intp) for d in expand_shapes))"],
     "Definition s_expanded_coords_dtype (d : dty) : dty := DInt i64."),
    ("s_expanded_coords_dtype", "sparse/numba_backend/_umath.py", "_get_expanded_coords_data",
     ["expanded_coords = np.empty((len(broadcast_shape), all_idx.shape[1]), dtype=coords.dtype)",
      "all_idx = _cartesian_product(*(np.arange(d, dtype=np.intp) for d in expand_shapes))"],
     "Definition s_expanded_coords_dtype (d : dty) : dty := d."),
    # _calc_counts_invidx: dtype of the returned offsets / counts.  Two alternatives (the first whose
    # statements are all present is emitted): intp (current code), or the dtype of `groups` (finding D2,
    # repaired by 5f3fb78 — if it comes back the definition below changes and reduce's theorem breaks)
    ("s_counts_cast", CORE, "_calc_counts_invidx",
     [("return (np.array(inv_idx, dtype=np.intp), np.array(counts, dtype=np.intp))", 2),
      "inv_idx.append(0)", "counts.append(len(groups) - inv_idx[-1])"],
     "Definition s_counts_cast (d : dty) (a : tarr) : tarr := astype (DInt i64) a."),
    ("s_counts_cast", CORE, "_calc_counts_invidx",
     [("return (np.array(inv_idx, dtype=groups.dtype), np.array(counts, dtype=groups.dtype))", 2),
      "inv_idx.append(0)", "counts.append(len(groups) - inv_idx[-1])"],
     "Definition s_counts_cast (d : dty) (a : tarr) : tarr := astype d a."),
    # roll: a scalar shift becomes an int64 array; TypeError -> ValueError for unsigned dtypes only
    ("s_roll_scalar_shift_is_np64", COMMON, "roll",
     ["if len(shift) == 1:\n    shift = np.full(len(axis), shift)"],
     "Definition s_roll_scalar_shift_is_np64 : bool := true."),
    ("s_roll_handler", COMMON, "roll",
     ["try:\n    for sh, ax in zip(shift, axis, strict=True):\n        coords[ax] += sh\n"
      "        coords[ax] %= a.shape[ax]\nexcept TypeError as e:\n    if is_unsigned_dtype(coords.dtype):\n"
      "        raise ValueError(f'rolling with coords.dtype as {coords.dtype} is not safe. Try using a signed dtype.') from e"],
     "Definition s_roll_handler (d : dty) (partial : tarr) : res tarr :=\n"
     "  if is_unsigned d then Raise ValueError else Ok partial."),
    # concatenate: the offset is added only when it is non-zero (`if dim:`)
    ("s_concat_skip_zero", COMMON, "concatenate",
     ["for x in arrays:\n    if dim:\n        coords[axis, nnz:x.nnz + nnz] += dim\n    dim += x.shape[axis]\n    nnz += x.nnz"],
     "Definition s_concat_skip_zero : bool := true."),
    # stack: the new coordinate row is intp and np.stack promotes all rows together
    ("s_stack_new_row", COMMON, "stack",
     ["new = np.empty(shape=(coords.shape[1],), dtype=np.intp)", "coords.insert(axis, new)",
      "coords = np.stack(coords, axis=0)"],
     "Definition s_stack_new_row : ity := i64."),
    # reshape / _from_coo: new coordinates are digits of the intp linear index, stored into the chosen dtype
    ("s_reshape_digit", CORE, "COO.reshape",
     ["coords = np.empty((len(shape), self.nnz), dtype=idx_dtype)",
      "for i, d in enumerate(shape[::-1]):\n    coords[-(i + 1), :] = linear_loc // strides % d\n    strides *= d"],
     "Definition s_reshape_digit (d : dty) (lin : list Z) (stride dim : Z) : tarr :=\n"
     "  assign_into d (mkT (DInt i64) (map (fun l => np_mod (np_div l stride) dim) lin))."),
    ("s_from_coo_digit", GCXS, "_from_coo",
     ["coords = np.empty((2, x.nnz), dtype=idx_dtype)",
      "for i, d in enumerate(compressed_shape[::-1]):\n    coords[-(i + 1), :] = linear // strides % d\n    strides *= d",
      "indptr = np.empty(row_size + 1, dtype=idx_dtype)",
      "np.cumsum(np.bincount(coords[0], minlength=row_size), out=indptr[1:])"],
     "Definition s_from_coo_digit (d : dty) (lin : list Z) (stride dim : Z) : tarr :=\n"
     "  assign_into d (mkT (DInt i64) (map (fun l => np_mod (np_div l stride) dim) lin))."),
    # _transpose: new coordinates (computed in intp) and the cumulated row counts are stored in coords_dtype
    ("s_transpose_store", GCONVERT, "_transpose",
     ["new_coords = np.empty((2, x.nnz), dtype=coords_dtype)",
      "indptr = np.empty(row_size + 1, dtype=coords_dtype)", "indptr[0] = 0",
      "np.cumsum(np.bincount(new_coords[0], minlength=row_size), out=indptr[1:])",
      "indices = new_coords[1]", "new_coords = new_coords[:, order]"],
     "Definition s_transpose_store (d : dty) (vals : list Z) : tarr := assign_into d (mkT (DInt i64) vals)."),
    # GCXS -> COO: row numbers are written into an array of indptr's dtype
    ("s_uncompress_dtype", GCONVERT, "uncompress_dimension",
     ["uncompressed = np.empty(indptr[-1], dtype=indptr.dtype)",
      "for i in range(len(indptr) - 1):\n    uncompressed[indptr[i]:indptr[i + 1]] = i"],
     "Definition s_uncompress_store (d : dty) (rows : list Z) : tarr := assign_into d (mkT (DInt i64) rows)."),
]
