"""Fragment table for tools/py2v.py: which pieces of /repo are regenerated as Gallina on
every run, and the hand-written meaning of the few NumPy expressions inside them."""

SL = "sparse/numba_backend/_slicing.py"

FILES = {
    "G_slicing.v": [
        dict(name="g_replace_none", file=SL, func="replace_none"),
        dict(name="g_posify_index", file=SL, func="posify_index", callable=False,
             extern={
                 "tuple(map(posify_index, shape, ind))": "Raise NotImplementedError",
                 "np.asanyarray(ind)": "Ok ind",
                 # 5e6e40f: integer index arrays are widened to intp before the wrap.  Model arrays hold
                 # unbounded integers, so the cast is the identity (the model is the intp semantics); the
                 # test is true for every array that reaches this branch (sanitize_index made it integer).
                 "ind.dtype.kind in 'iu'": "Ok (VBool (isinst_array ind))",
                 "ind.astype(np.intp, copy=False)": "Ok ind",
                 "np.where(ind < 0, ind + shape, ind)": "ext_where_neg ind shape",
             }),
        dict(name="g_clip_slice", file=SL, func="clip_slice"),
        dict(name="g_check_index", file=SL, func="check_index",
             extern={
                 "np.asanyarray(ind)": "Ok ind",
                 "np.issubdtype(x.dtype, np.integer) and ((x >= dimension) | (x < -dimension)).any()":
                     "ext_int_arr_oob x dimension",
                 "x.dtype == np.bool_ and len(x) != dimension": "ext_bool_arr_len_ne x dimension",
             }),
    ],
}
