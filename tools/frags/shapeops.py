"""Fragment table (tools/py2v.py) for the shape-manipulation area (C08).

F3  `_utils.normalize_axis`, integer branch: the body of `if isinstance(axis, Integral):`
    (int(), the `axis += ndim` wrap, the range test, the raise).
F10 `COO.reshape`: the body of `if any(d == -1 for d in shape):` — the `-1` inference, integer
    arithmetic since commit ac7b716 (it was float division, finding D12):

        known = reduce(operator.mul, (d for d in shape if d != -1), 1)
        if shape.count(-1) > 1 or known == 0 or self.size % known != 0:      # count test since commit dbf0c20
            raise ValueError(...)
        extra = self.size // known
        shape = tuple([d if d != -1 else extra for d in shape])

    and the body of `if self.size != reduce(operator.mul, shape, 1):` (the raise).  Both `if`
    tests are the translator's *selectors*: they are matched by their exact source text, so an
    edit of either test makes translation fail closed; their meaning is transcribed by hand in
    Model/ShapeOps.v (coo_reshape_shape).  The two expressions over the whole tuple (a generator
    product and a list comprehension) are `extern`s keyed on their exact source text; their
    hand-written meaning is given inline below (generated files import only Lib/Py.v, Lib/PyExt.v).
    Should the source go back to a float `/`, the translator (which has no float operator)
    aborts and every theorem about reshape stops compiling.
    `GCXS.reshape` has its own textual copy of the inference and of the size test (in the other
    order: inference, `self.shape == shape` shortcut, size test); both are translated as well.
"""

UT = "sparse/numba_backend/_utils.py"
CO = "sparse/numba_backend/_coo/core.py"
GC = "sparse/numba_backend/_compressed/compressed.py"

# reduce(operator.mul, (d for d in shape if d != -1), 1): product of the entries other than -1
PROD_NOT_M1 = (
    "(match shape with\n"
    " | VTuple l_ => Ok (VInt (fold_right (fun v acc => match as_int v with Some d => if d =? -1 then acc else d * acc "
    "| None => acc end) 1 l_))\n"
    " | _ => Raise TypeError end)")

# shape.count(-1)
COUNT_M1 = (
    "(match shape with\n"
    " | VTuple l_ => Ok (VInt (Z.of_nat (length (filter (fun v => match as_int v with Some d => d =? -1 | None => false end) l_))))\n"
    " | _ => Raise TypeError end)")

# tuple([d if d != -1 else extra for d in shape])
SUBST_M1 = (
    "(match shape, as_int extra with\n"
    " | VTuple l_, Some e_ => Ok (VTuple (map (fun v => match as_int v with Some d => if d =? -1 then VInt e_ else v "
    "| None => v end) l_))\n"
    " | _, _ => Raise TypeError end)")

FILES = {
    "G_shapeops.v": [
        dict(name="g_normalize_axis_int", file=UT, func="normalize_axis", callable=False,
             selector=("if", "isinstance(axis, Integral)"), params=["axis", "ndim"]),
        dict(name="g_reshape_infer", file=CO, func="COO.reshape", callable=False,
             selector=("if", "any((d == -1 for d in shape))"), params=["shape", "size"], result=["shape"],
             extern={
                 "reduce(operator.mul, (d for d in shape if d != -1), 1)": PROD_NOT_M1,
                 "shape.count(-1)": COUNT_M1,
                 "self.size": "Ok size",
                 "tuple([d if d != -1 else extra for d in shape])": SUBST_M1,
             }),
        dict(name="g_reshape_size_mismatch", file=CO, func="COO.reshape", callable=False,
             selector=("if", "self.size != reduce(operator.mul, shape, 1)"), params=["shape", "size"]),
        # GCXS.reshape carries its own copy of the same inference (integer since commit 0bffb82)
        dict(name="g_gcxs_reshape_infer", file=GC, func="GCXS.reshape", callable=False,
             selector=("if", "any((d == -1 for d in shape))"), params=["shape", "size"], result=["shape"],
             extern={
                 "reduce(operator.mul, (d for d in shape if d != -1), 1)": PROD_NOT_M1,
                 "shape.count(-1)": COUNT_M1,
                 "self.size": "Ok size",
                 "tuple([d if d != -1 else extra for d in shape])": SUBST_M1,
             }),
        dict(name="g_gcxs_reshape_size_mismatch", file=GC, func="GCXS.reshape", callable=False,
             selector=("if", "self.size != reduce(operator.mul, shape, 1)"), params=["shape", "size"]),
    ],
}
