"""Fragment table (tools/py2v.py) for the shape-manipulation area (C08).

F3  `_utils.normalize_axis`, integer branch: the body of `if isinstance(axis, Integral):`
    (int(), the `axis += ndim` wrap, the range test, the raise).
F10 `COO.reshape`: the body of `if any(d == -1 for d in shape):` — the `-1` inference

        extra = int(self.size / np.prod([d for d in shape if d != -1]))
        shape = tuple([d if d != -1 else extra for d in shape])

    and the body of `if self.size != reduce(operator.mul, shape, 1):` (the raise).  Both `if`
    tests are the translator's *selectors*: they are matched by their exact source text, so an
    edit of either test makes translation fail closed; their meaning is transcribed by hand in
    Model/ShapeOps.v (coo_reshape_shape).

    NOTE the code divides with FLOAT division `/`.  The translator has no floats.  The quotient
    expression is an `extern` keyed on its exact source text; its hand-written meaning (below,
    inline because generated files import only Lib/Py.v and Lib/PyExt.v) is

      * b = 0                          -> the exception int() raises on nan / inf
      * |a| <= 2^53 and |b| <= 2^53    -> the truncated exact quotient (Z.quot): both operands are
                                          exactly representable, and whenever b divides a the IEEE
                                          quotient is exact.  THIS is the only part the theorems use
                                          (domain clause "D12_size_beyond_2^53" = this test failing).
      * otherwise                      -> round-to-nearest-even float64 arithmetic carried out in Z
                                          (operands rounded to 53 significant bits, correctly rounded
                                          quotient, truncation).  Validated by correspondence only;
                                          it is what makes the D12 witness computable.
"""

UT = "sparse/numba_backend/_utils.py"
CO = "sparse/numba_backend/_coo/core.py"

# product of the entries of `shape` other than -1   (np.prod([d for d in shape if d != -1]))
_PROD_NOT_M1 = ("(fold_right (fun v acc => match as_int v with Some d => if d =? -1 then acc else d * acc "
                "| None => acc end) 1 l_)")

# round a positive integer to 53 significant bits, ties to even (int -> float64 conversion)
_RNE_INT = ("(fun n : Z => if n <? 2 ^ 53 then n else "
            "let s := Z.log2 n - 52 in let m := n / 2 ^ s in let r := n mod 2 ^ s in "
            "let h := 2 ^ (s - 1) in "
            "let m' := if orb (h <? r) (andb (r =? h) (Z.odd m)) then m + 1 else m in m' * 2 ^ s)")

# int(x / y) for positive floats x, y holding integers: correctly rounded quotient, truncated
_RNE_QUOT_TRUNC = ("(fun x y : Z => "
                   "let e0 := Z.log2 x - Z.log2 y - 52 in "
                   "let sig := fun e : Z => if 0 <=? e then x / (y * 2 ^ e) else (x * 2 ^ (- e)) / y in "
                   "let e := if 2 ^ 52 <=? sig e0 then e0 else e0 - 1 in "
                   "let num := if 0 <=? e then x else x * 2 ^ (- e) in "
                   "let den := if 0 <=? e then y * 2 ^ e else y in "
                   "let m := num / den in let r := num mod den in "
                   "let m' := if orb (den <? 2 * r) (andb (2 * r =? den) (Z.odd m)) then m + 1 else m in "
                   "if 0 <=? e then m' * 2 ^ e else m' / 2 ^ (- e))")

FLOAT_QUOT = (
    "(match shape, as_int size with\n"
    " | VTuple l_, Some a_ =>\n"
    "   let b_ := " + _PROD_NOT_M1 + " in\n"
    "   if b_ =? 0 then (if a_ =? 0 then Raise ValueError else Raise OverflowError)\n"
    "   else if andb (Z.abs a_ <=? 2 ^ 53) (Z.abs b_ <=? 2 ^ 53) then Ok (VInt (Z.quot a_ b_))\n"
    "   else (* D12_size_beyond_2^53: float64 arithmetic, by correspondence only *)\n"
    "     let rne_ := " + _RNE_INT + " in\n"
    "     let qt_ := " + _RNE_QUOT_TRUNC + " in\n"
    "     if a_ =? 0 then Ok (VInt 0) else\n"
    "     Ok (VInt (Z.sgn a_ * Z.sgn b_ * qt_ (rne_ (Z.abs a_)) (rne_ (Z.abs b_))))\n"
    " | _, _ => Raise TypeError end)")

SUBST_M1 = (
    "(match shape, as_int extra with\n"
    " | VTuple l_, Some e_ => Ok (VTuple (map (fun v => match as_int v with Some d => if d =? -1 then VInt e_ else v "
    "| None => v end) l_))\n"
    " | _, _ => Raise TypeError end)")

FILES = {
    "G_shapeops.v": [
        dict(name="g_normalize_axis_int", file=UT, func="normalize_axis", callable=False,
             selector=("if", "isinstance(axis, Integral)"), params=["axis", "ndim"]),
        dict(name="g_reshape_infer", file=CO, func="COO.reshape", callable=False,
             selector=("if", "any((d == -1 for d in shape))"), params=["shape", "size"], result=["shape"],
             extern={
                 "self.size / np.prod([d for d in shape if d != -1])": FLOAT_QUOT,
                 "tuple([d if d != -1 else extra for d in shape])": SUBST_M1,
             }),
        dict(name="g_reshape_size_mismatch", file=CO, func="COO.reshape", callable=False,
             selector=("if", "self.size != reduce(operator.mul, shape, 1)"), params=["shape", "size"]),
    ],
}
