"""Fragment table (tools/py2v.py) for the DOK area: the slice-bounds block of DOK._setitem,

    if step > 0:
        start = ind.start if ind.start is not None else 0
        ...
    else:
        start = ind.start if ind.start is not None else self.shape[i] - 1
        ...                                  # (before fix 97946a9: `ind.start or self.shape[i] - 1`,
                                             #  finding D4 — the translator models `or` by truthiness,
                                             #  so that form breaks Proofs/DOKP.v dok_bounds_clipped)

translated branch by branch (the translator's selector addresses the body / the orelse of the
`if` whose test unparses to exactly `step > 0`; if that test is edited the selector no longer
matches and translation fails closed).  `self.shape[i]` is the extent of the axis being
expanded: it becomes the parameter `dim`.  The dispatch on `step > 0` and the defaulting
`step = ind.step if ind.step is not None else 1` are transcribed by hand in Model/DOK.v
(dok_bounds)."""

DK = "sparse/numba_backend/_dok.py"

FILES = {
    "G_dok.v": [
        dict(name="g_dok_bounds_pos", file=DK, func="DOK._setitem", callable=False,
             selector=("if", "step > 0"), params=["ind", "dim"], result=["start", "stop"],
             extern={"self.shape[i]": "Ok dim"}),
        dict(name="g_dok_bounds_neg", file=DK, func="DOK._setitem", callable=False,
             selector=("else", "step > 0"), params=["ind", "dim"], result=["start", "stop"],
             extern={"self.shape[i]": "Ok dim"}),
    ],
}
