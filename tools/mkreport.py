"""Print the per-property summary table of DESIGN.md section 8.3 from what is on disk:
theorem names (coq/Props/Cxx.expected.json), generated files each Props file depends on, last
evidence (cases, wall time, known findings hit), and seeded-change results (seeded/*/result_*.json)."""
import glob
import json
import os
import re

V = os.path.dirname(os.path.dirname(os.path.abspath(__file__)))


def closure_gen(prop):
    sys_path = os.path.join(V, "tools")
    import sys
    sys.path.insert(0, sys_path)
    import vlib
    b = vlib.Build("report")
    b.dir = vlib.COQ_SRC
    roots = [f"Props/{prop}.v"]
    mf = b.module_files()
    src = ""
    for fn in glob.glob(os.path.join(V, "tools", "props", prop.lower() + "*.py")):
        src += open(fn).read()
    for m in re.finditer(r"Require Import ([A-Za-z0-9_ ]+)\.", src):
        for n in m.group(1).split():
            if n in mf:
                roots.append(mf[n])
    deps = b.closure(roots)
    return sorted(os.path.basename(f) for f in deps if f.startswith("Gen/")), len(deps)


def main():
    seeded = {}
    for d in sorted(glob.glob(os.path.join(V, "seeded", "*"))):
        meta = json.load(open(os.path.join(d, "meta.json")))
        res = {}
        for r in glob.glob(os.path.join(d, "result_*.json")):
            res[os.path.basename(r)[7:-5]] = json.load(open(r)).get("detected_by", [])
        seeded.setdefault(meta["property"], []).append((meta["id"], res))
    print("| property | theorems | generated files in its import closure | files | quick cases | quick wall (s) | known findings hit | seeded changes (detected by) |")
    print("|---|---|---|---|---|---|---|---|")
    tot = 0
    for i in range(1, 21):
        p = f"C{i:02d}"
        exp = json.load(open(os.path.join(V, "coq", "Props", p + ".expected.json")))
        tot += len(exp)
        gen, nfiles = closure_gen(p)
        ev = {}
        try:
            ev = json.load(open(os.path.join(V, "evidence", p + ".json")))
        except Exception:  # noqa: BLE001
            pass
        cov = ev.get("coverage", {})
        sd = "; ".join(f"{i_} → {','.join(r.get('quick', [])) or 'missed' if r else 'not run'}" for i_, r in seeded.get(p, []))
        print(f"| {p} | {len(exp)} | {', '.join(gen) or '—'} | {nfiles} | {cov.get('evaluations', '?')} | {ev.get('wall_s', '?')} | "
              f"{len(cov.get('known_findings_hit', []))} | {sd or '—'} |")
    print(f"\ntotal property-level theorems: {tot}")


if __name__ == "__main__":
    main()
