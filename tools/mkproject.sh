#!/bin/sh
# (re)generate coq/_CoqProject from the files present and the Makefile; usage: tools/mkproject.sh <coqdir>
d="${1:-$(dirname "$0")/../coq}"
cd "$d" || exit 2
{ echo "-Q . Verif"; find Lib Spec Gen Model Proofs Corr Props -name '*.v' 2>/dev/null | grep -v '/cases_' | grep -v 'Corr/c[0-9]' | LC_ALL=C sort; } > _CoqProject
coq_makefile -f _CoqProject -o Makefile >/dev/null 2>&1
