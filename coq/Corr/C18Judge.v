(* Corr/C18Judge.v — verdict functions of the C18 correspondence.
   API level: one case = what the oracle (NumPy on the densified operands, or the executable Spec for
   sparse-only operations) says about the argument tuple, the verdict of the modelled validator where
   there is one, and what the implementation did (returned object, exception class, hang, crash).
   Kernel level: inputs and outputs of one call of a compiled kernel, compared with the fuelled
   transcription of Model/Kernels.v run with the fuel the termination theorem states. *)
From Coq Require Import ZArith List Bool.
From Verif Require Import Py PyExt PyValid G_slicing G_validators S_validators NpValid Validators.
From Verif Require Import Shape COO GCXS Judge SArr.
From Verif Require Kernels.
Import ListNotations.
Open Scope Z_scope.

(* the modelled operation (Model/Validators.v: vop, model_verdict, vop_np_accepts, clean) *)
Definition mcase := vop.
Definition spec_accepts (m : mcase) : option bool :=
  match m with MNone => None | _ => Some (vop_np_accepts m) end.

(* (oracle, expected shape, expected flat, allowed limitation, modelled validator, status, result)
   oracle: 0 = rejects, 1 = accepts and the dense value is given, 2 = accepts, value not compared
   status: 0 = the call came back, 1 = watchdog (hang), 2 = the worker process died *)
Definition api_case := (Z * list Z * list Z * bool * mcase * Z * sarr)%type.

(* 0 ok
   10 hang | 11 interpreter crash
   20 oracle rejects, implementation returned a result
   21 oracle rejects, implementation raised a class other than ValueError/IndexError/TypeError
      (a NotImplementedError for a documented limitation, flag `allowed`, is tolerated)
   30 oracle accepts, implementation returned another value (informational: other properties)
   40 oracle accepts, implementation raised ValueError/IndexError/TypeError outside the table of
      documented limitations
   41 oracle accepts, implementation raised an internal error class
   50 class differs from the modelled validator's | 51 model accepts, implementation (and oracle) reject
   52 model rejects, implementation (and oracle) accept | 53 oracle and Spec disagree (harness) *)
Definition judge_api (c : api_case) : Z :=
  let '(orc, sh, flat, allowed, m, status, impl) := c in
  if status =? 1 then 10 else if status =? 2 then 11 else
  let spec_conflict :=
    match spec_accepts m with
    | Some b => negb (Bool.eqb b (negb (orc =? 0)))
    | None => false end in
  match impl with
  | SHang => 10
  | SExc e =>
    if orc =? 0 then
      if clean e then
        if spec_conflict then 53 else
        match model_verdict m with
        | Some (Some e') => if exc_eqb e e' then 0 else 50
        | Some None => 51
        | None => 0
        end
      else if allowed && exc_eqb e NotImplementedError then 0 else 21
    else
      if allowed then (if clean e || exc_eqb e NotImplementedError then 0 else 41)
      else if clean e then 40 else 41
  | _ =>
    if orc =? 0 then 20
    else if spec_conflict then 53
    else match model_verdict m with
         | Some (Some _) => 52
         | _ => if orc =? 1 then (if sarr_same_dense impl sh flat then 0 else 30) else 0
         end
  end.

(* ------------------------------------------------------------------ kernel level *)
Inductive kcase :=
| KDotCN (rows cols data : list Z) (arr2 : list (list Z)) (R C : Z) (out : list (list Z))
| KDotCNS (rows cols data : list Z) (arr2 : list (list Z)) (C : Z) (out : list (Z * Z * Z))
| KDotNC (arr1 : list (list Z)) (crow ccol data : list Z) (R C : Z) (out : list (list Z))
| KDotNCS (arr1 : list (list Z)) (c0 c1 data : list Z) (R : Z) (out : list (Z * Z * Z))
| KSlicing (row col : list Z) (start : Z) (out : list (Z * Z))
| KMatch (a b : list Z) (out : list (Z * Z))
| KMaskPairs (pairs : list (Z * Z)) (c ps : list Z) (out : list (Z * Z))
| KSearch (rgt : bool) (a : list Z) (v : Z) (out : Z)
| KDotCsrCsr (ai ad ap bi bd bp : list Z) (n_row n_col : Z) (out : list Z * list Z * list Z)
| KDotCscNd (ai ad ap : list Z) (b : list (list Z)) (a_rows bK bC : Z) (out : list Z * list Z * list Z)
| KUncompress (indptr : list Z) (out : list Z)
| KLinearize (xs shape order rshape cshape : list Z) (out : list Z * list Z * list Z)
(* indexing on a huge extent: the answer computed from the coordinate list (shape, sorted coords, data) and the
   implementation's; status 1 = the CPU-time limit was hit, 3 = the call raised *)
| KSparseEq (esh : list Z) (eco : list (list Z)) (eda : list Z) (sh : list Z) (co : list (list Z)) (da : list Z).

Definition pair_eqb (x y : Z * Z) : bool := (fst x =? fst y) && (snd x =? snd y).
Definition triple_eqb (x y : Z * Z * Z) : bool :=
  let '(a, b, c) := x in let '(d, e, f) := y in (a =? d) && (b =? e) && (c =? f).

Definition kcmp {A} (eqb : A -> A -> bool) (r : Kernels.kres A) (out : A) : Z :=
  match r with
  | Kernels.Done v => if eqb v out then 0 else 1
  | Kernels.OutOfFuel => 2
  | Kernels.OutOfBounds => 3
  | Kernels.DivZero => 4
  end.

Definition triple3_eqb (x y : list Z * list Z * list Z) : bool :=
  let '(a, b, c) := x in let '(d, e, f) := y in zl_eqb a d && zl_eqb b e && zl_eqb c f.

Definition nat_of (z : Z) : nat := Z.to_nat z.

(* status as above; 0 agree | 1 outputs differ | 2/3/4 the model ran out of fuel / bounds / divided
   by zero with the fuel of the theorem | 10 the compiled kernel hung | 11 crashed *)
Definition judge_kernel (c : Z * kcase) : Z :=
  let '(status, k) := c in
  if status =? 1 then 10 else if status =? 2 then 11 else if status =? 3 then 12 else
  match k with
  | KSparseEq esh eco eda sh co da => if zl_eqb esh sh && zll_eqb eco co && zl_eqb eda da then 0 else 1
  | KDotCN rows cols data arr2 R C out =>
    kcmp zll_eqb (Kernels.dot_coo_ndarray rows cols data arr2 R C (nat_of (Kernels.zlen data + 1))) out
  | KDotCNS rows cols data arr2 C out =>
    kcmp (list_eqb triple_eqb)
         (Kernels.dot_coo_ndarray_sparse rows cols data arr2 C (nat_of (Kernels.zlen data + Z.max 0 C + 1))) out
  | KDotNC arr1 crow ccol data R C out =>
    kcmp zll_eqb (Kernels.dot_ndarray_coo arr1 crow ccol data R C) out
  | KDotNCS arr1 c0 c1 data R out =>
    kcmp (list_eqb triple_eqb) (Kernels.dot_ndarray_coo_sparse arr1 c0 c1 data R) out
  | KSlicing row col start out =>
    kcmp (list_eqb pair_eqb)
         (Kernels.slicing_selection_row row col start (nat_of (Kernels.zlen row + Kernels.zlen col + 1))) out
  | KMatch a b out =>
    kcmp (list_eqb pair_eqb) (Kernels.match_arrays b (nat_of (Kernels.zlen b + 1)) a) out
  | KMaskPairs pairs c ps out =>
    kcmp (list_eqb pair_eqb) (Kernels.get_mask_pairs (nat_of (Kernels.zlen c + 1)) pairs c ps []) out
  | KSearch rgt a v out =>
    kcmp Z.eqb (Kernels.searchsorted rgt (nat_of (Kernels.zlen a + 1)) a v) out
  | KDotCsrCsr ai ad ap bi bd bp n_row n_col out =>
    kcmp triple3_eqb (Kernels.dot_csr_csr ai ad ap bi bd bp n_row n_col) out
  | KDotCscNd ai ad ap b a_rows bK bC out =>
    kcmp triple3_eqb (Kernels.dot_csc_ndarray_sparse ai ad ap b a_rows bK bC) out
  | KUncompress indptr out => kcmp zl_eqb (Kernels.uncompress_dimension indptr) out
  | KLinearize xs shape order rshape cshape out =>
    kcmp triple3_eqb (Kernels.linearize (nat_of (Z.max 2 (Kernels.zlen shape))) xs shape order rshape cshape) out
  end.
