(* Corr/C19Judge.v — verdict functions of the C19 correspondence.  Each takes the input and the
   implementation's concrete output and returns 0 when they agree with the Spec and the model, otherwise
   a small code naming the failed comparison.  Values are integers (the harness uses integer-valued data
   and converts). *)
From Coq Require Import ZArith List Bool.
From Verif Require Import Py PyExt PyCreate S_create Shape COO NpCreate Create Random Judge.
Import ListNotations.
Open Scope Z_scope.

(* a concrete COO as the harness reads it: shape, coords as index tuples, data, fill *)
Definition raw := (list Z * list (list Z) * list Z * Z)%type.
(* a dense result: shape and row-major contents *)
Definition dns := (list Z * list Z)%type.

Definition raw_eqb (r : raw) (c : coo Z) : bool :=
  let '(sh, co, da, fi) := r in
  zl_eqb sh (c_shape c) && zll_eqb co (c_coords c) && zl_eqb da (c_data c) && (fi =? c_fill c).

Definition raw_coo (r : raw) : coo Z := let '(sh, co, da, fi) := r in mkCOO sh co da fi.

Definition dns_eqb (d : dns) (sh : list Z) (f : idx -> Z) : bool :=
  zl_eqb (fst d) sh && zl_eqb (snd d) (flat sh f).

(* ------------------------------------------------------------------ eye
   (N, M, k, raw COO when format = coo, dense result)
   0 ok | 2 dense result <> np.eye (value) | 1 stored representation <> model (representation)
   | 3 model could not be built (generated arithmetic raised) *)
Definition eye_case := (Z * option Z * Z * option raw * dns)%type.

Definition judge_eye (c : eye_case) : Z :=
  let '(N, M, k, r, d) := c in
  let M' := match M with Some m => m | None => N end in
  if negb (dns_eqb d [N; M'] (np_eye 0 1 k)) then 2 else
  match eye 0 1 N M k with
  | None => 3
  | Some m =>
    if negb (canonicalb m) then 3 else
    match r with
    | None => 0
    | Some r => if raw_eqb r m then 0 else 1
    end
  end.

Definition tag_eye (c : eye_case) : Z := let '(N, M, k, _, _) := c in eye_tag N M k.

(* ------------------------------------------------------------------ full / zeros / ones / empty (+ _like)
   (op, shape argument or shape of `a`, shape override of the _like forms, fill value, raw, dense)
   op: 0 full 1 zeros 2 ones 3 empty 4 full_like 5 zeros_like 6 ones_like 7 empty_like
   0 ok | 2 dense <> np.<op> (value; for empty only the shape is compared) | 1 representation *)
Definition full_case := (Z * list Z * option (list Z) * Z * option raw * dns)%type.

Definition judge_full (c : full_case) : Z :=
  let '(op, sh, sho, v, r, d) := c in
  let a := mkCOO sh [] [] 0 in
  let m :=
    if op =? 0 then full sh v else if op =? 1 then zeros 0 sh else if op =? 2 then ones 1 sh
    else if op =? 3 then empty 0 sh else if op =? 4 then full_like a v sho
    else if op =? 5 then zeros_like 0 a sho else if op =? 6 then ones_like 1 a sho
    else empty_like 0 a sho in
  let esh := match sho with Some s => if 4 <=? op then s else sh | None => sh end in
  let ev := if (op =? 1) || (op =? 5) then 0 else if (op =? 2) || (op =? 6) then 1 else v in
  let value_ok :=
    if (op =? 3) || (op =? 7) then zl_eqb (fst d) esh
    else dns_eqb d esh (np_full ev) in
  if negb value_ok then 2 else
  match r with
  | None => 0
  | Some r => if raw_eqb r m then 0 else 1
  end.

(* ------------------------------------------------------------------ asarray
   (source as a dense array, raw result when format = coo and the source was dense, dense result)
   0 ok | 2 dense result <> source (value) | 1 representation <> COO.from_numpy model *)
Definition asarray_case := (dns * option raw * dns)%type.

Definition judge_asarray (c : asarray_case) : Z :=
  let '(src, r, d) := c in
  if negb (zl_eqb (fst d) (fst src) && zl_eqb (snd d) (snd src)) then 2 else
  match r with
  | None => 0
  | Some r => if raw_eqb r (asarray_dense 0 Z.eqb (mkDense (fst src) (snd src))) then 0 else 1
  end.

(* ------------------------------------------------------------------ sparse.random (API level)
   input: shape, density (dyadic), nnz;  output: None when the call raised ValueError, else
   (raw COO of the result (converted to COO for other formats), the sampler's output, observed branch
    (tag, n, N) from the instrumented module, same-seed-same-result flag)
   0 ok | 1 raised although the request is admissible / returned although it is not
   | 2 stored count <> requested nnz (or int(elements*density)) | 3 positions not canonical
   (out of range / not strictly increasing / data length) | 4 shape, fill or data <> request / sampler output
   | 5 observed branch <> branch of the generated chain (representation) | 6 plan outside plan_okb
   | 7 two runs with the same seed differ *)
Definition random_out := (raw * (Z * Z * list Z) * (Z * Z * Z) * bool)%type.

(* the sampler's output: (n it was called with, kind, recorded values)
   kind 0: the default float sampler, of which only the number is compared (the harness then reports every
   stored value as 1) | 1: the harness' arange sampler 1..n | 2: the values the sampler handed out, recorded
   by the harness (samplers that return the fill value: the stored data must still be exactly these) *)
Definition sampler_output (s : Z * Z * list Z) : list Z :=
  let '(n, kind, rec) := s in
  if kind =? 0 then map (fun _ => 1) (zrange n)
  else if kind =? 1 then map (fun i => i + 1) (zrange n)
  else if Z.of_nat (length rec) =? n then rec else (-1) :: rec.   (* wrong length handed out: never equal *)
Definition random_case := (list Z * option (Z * Z) * option Z * Z * option random_out)%type.

Definition plan_args (p : plan) : Z * Z :=
  match p with
  | PBase (BAll a) => (a, a)
  | PBase (BChoice a k) | PRev (BChoice a k) _ => (k, a)
  | PBase (BD n a) | PRev (BD n a) _ => (n, a)
  | PBase (BA n a) | PRev (BA n a) _ => (n, a)
  | PRev (BAll a) _ => (a, a)
  end.

(* what the property demands of the arguments, independently of the generated chain: density and nnz
   not both given, density in [0,1], the requested count inside [0, elements] (= the right-hand side of
   Props.C19.random_plan_guards) *)
Definition request_okb (dens : option dyadic) (nz : option Z) (el : Z) : bool :=
  let dc := dcv (option_map density_class dens) in
  let n := requested dens nz el in
  (match dens, nz with Some _, Some _ => false | _, _ => true end)
  && (0 <=? dc) && (dc <=? 1) && (0 <=? n) && (n <=? el).

(* value comparisons (against the request, via Spec/NpCreate.v only) come first, so that a real failing
   input is reported as such even when the generated chain has changed with it *)
Definition judge_random (c : random_case) : Z :=
  let '(sh, dens, nz, fv, out) := c in
  let el := size sh in
  let okreq := request_okb dens nz el in
  let n := requested dens nz el in
  match out with
  | None =>
    if okreq then 1 else
    match random_plan dens nz el with Raise _ => 0 | Ok _ => 6 end
  | Some (r, sampled, (otag, on, oN), same) =>
    let '(rsh, rco, rda, rfi) := r in
    if negb okreq then 1
    else if negb (Z.of_nat (length rco) =? n) then 2
    else if negb (canonicalb (raw_coo r)) then 3
    else if negb (zl_eqb rsh sh && (rfi =? fv) && zl_eqb rda (sampler_output sampled)) then 4
    else if negb same then 7
    else
      match random_plan dens nz el with
      | Ok (VTuple [VInt n'; p]) =>
        match decode_plan p with
        | None => 6
        | Some pl =>
          if negb (plan_okb n' el (dcv (option_map density_class dens)) pl && (n' =? n)) then 6
          else if negb ((otag =? plan_tag pl) && (on =? fst (plan_args pl)) && (oN =? snd (plan_args pl))) then 5
          else 0
        end
      | _ => 6
      end
  end.

Definition tag_random (c : random_case) : Z :=
  let '(sh, dens, nz, _, _) := c in
  match random_nnz_tag dens nz (size sh) with Some (_, t) => t | None => 99 end.

(* ------------------------------------------------------------------ kernels
   reverse: (inv, N, output or None when the kernel raised) must equal the model exactly. *)
Definition reverse_case := (list Z * Z * option (list Z))%type.
Definition judge_reverse (c : reverse_case) : Z :=
  let '(inv, N, out) := c in
  if opt_eqb zl_eqb (reverse inv N) out then
    (* on well-formed input the result is also the Spec's complement *)
    if increasingb inv && forallb (fun x => (0 <=? x) && (x <? N)) inv && (0 <=? N)
    then (if opt_eqb zl_eqb out (Some (complement inv N)) then 0 else 2) else 0
  else 1.

(* algA: (n, N, oracle answers recorded from / derived for the run, output)
   0 ok | 1 model on the same oracle answers <> output | 2 output is not a sample (value) *)
Definition algA_case := (Z * Z * list Z * list Z)%type.
Definition judge_algA (c : algA_case) : Z :=
  let '(n, N, reqs, out) := c in
  if negb (sample_okb n N out) then 2
  else if opt_eqb zl_eqb (algA n N reqs) (Some out) then 0 else 1.

(* algD: (n, N, recorded events, output or None when the scripted stream ran out) *)
Definition algD_case := (Z * Z * list ev * option (list Z))%type.
Definition judge_algD (c : algD_case) : Z :=
  let '(n, N, evs, out) := c in
  if negb (match out with Some l => sample_okb n N l | None => true end) then 2
  else if opt_eqb zl_eqb (algD n N evs) out then 0 else 1.

(* int(elements * density) alone: (elements, m, e, Python's value) *)
Definition prod_case := (Z * Z * Z * Z)%type.
Definition judge_prod (c : prod_case) : Z :=
  let '(el, m, e, py) := c in if int_mul_f64 el m e =? py then 0 else 1.
