(* Corr/C06Judge.v — verdict functions of the C06 correspondence.
   (a) the runtime canonicity judge: the Coq booleans sarr_wfb / sarr_prunedb of Corr/SArr.v (the
       canonical-form predicates of Model/COO.v and Model/GCXS.v) judge the RAW arrays of every
       result the implementation returns; nnz is compared with the number of non-fill elements of
       the dense meaning; optionally the dense meaning is compared with NumPy's answer;
   (b) the constructor model coo_ctor against COO.__init__ on raw (also promise-violating) inputs;
   (c) the csr @ csr kernel model against GCXS @ GCXS. *)
From Coq Require Import String ZArith List Bool.
From Verif Require Import Py Shape COO GCXS Judge SArr Ctor.
Import ListNotations.
Open Scope Z_scope.

(* ------------------------------------------------------------------ (a) canonicity of a result *)

Fixpoint insert_z (x : Z) (l : list Z) : list Z :=
  match l with [] => [x] | y :: r => if x <=? y then x :: y :: r else y :: insert_z x r end.
Definition sort_z (l : list Z) : list Z := fold_right insert_z [] l.

(* the same GCXS with every row's column indices sorted: tells "rows unsorted" (the shape of
   former finding D8) from any other malformation *)
Definition gcxs_rows_sorted (g : gcxs Z) : gcxs Z :=
  match g_shape g with
  | _ :: _ :: _ =>
    mkGCXS (g_shape g) (g_caxes g) (g_data g) (concat (map sort_z (rows_of (g_indices g) (g_indptr g))))
           (g_indptr g) (g_fill g)
  | _ => mkGCXS (g_shape g) (g_caxes g) (g_data g) (sort_z (g_indices g)) (g_indptr g) (g_fill g)
  end.

Definition count_nonfill_flat (fill : Z) (flat : list Z) : Z :=
  Z.of_nat (length (filter (fun v => negb (v =? fill)) flat)).

(* (result, operands stored no fill value?, NumPy's (shape, flat) when a reference exists) *)
Definition c06_case := (sarr * bool * option (list Z * list Z))%type.

(* 0 ok
   1 the raw result is not in canonical / self-consistent form
   5 the same, but the only defect is the order of column indices inside GCXS rows
   2 the operands stored no fill value, the result does
   3 nnz differs from the number of elements that differ from the fill value
   4 the dense meaning differs from NumPy's result (shape or values) *)
Definition judge_result (c : c06_case) : Z :=
  let '(r, pruned_in, ref) := c in
  if negb (sarr_wfb r) then
    match r with
    | SGcxs g => if gcxs_wfb (gcxs_rows_sorted g) then 5 else 1
    | _ => 1
    end
  else if pruned_in && negb (sarr_prunedb r) then 2
  else if pruned_in && sarr_is_sparse r
          && negb (opt_eqb Z.eqb (sarr_nnz r)
                     (match sarr_fill r, sarr_flat r with
                      | Some f, Some fl => Some (count_nonfill_flat f fl)
                      | _, _ => None end)) then 3
  else match ref with
       | Some (sh, flat) => if sarr_same_dense r sh flat then 0 else 4
       | None => 0
       end.

(* histogram tag: 0 COO 1 GCXS 2 DOK 3 dense 4 scalar 5 exception 6 hang 7 other *)
Definition tag_result (c : c06_case) : Z :=
  match fst (fst c) with
  | SCoo _ => 0 | SGcxs _ => 1 | SDok _ _ _ => 2 | SDense _ => 3 | SScalar _ => 4
  | SExc _ => 5 | SHang => 6 | SOther => 7 end.

(* ------------------------------------------------------------------ (b) the constructor *)

(* ((sorted, has_duplicates, prune), coords, data, shape, fill, what COO(...) returned) *)
Definition ctor_case := ((bool * bool * bool) * list idx * list Z * shape * Z * sarr)%type.

(* 0 ok | 1 COO.__init__ built another representation than the model | 2 model raises, the
   implementation does not (or the other way round) *)
Definition judge_ctor (c : ctor_case) : Z :=
  let '(fl, coords, data, sh, fill, r) := c in
  let '(s, d, p) := fl in
  match coo_ctor_checked Z Z.eqb Z.add (mkFlags s d p) coords data sh fill, r with
  | Some m, SCoo i => if coo_eqb m i then 0 else 1
  | None, SExc ValueError => 0
  | _, _ => 2
  end.

(* promise kept?  (for the branch histogram) 0 kept, 1 sorted promise false, 2 duplicate promise false *)
Fixpoint lex_nondec (l : list idx) : bool :=
  match l with
  | [] => true
  | a :: r => match r with [] => true | b :: _ => (lex_ltb a b || idx_eqb a b) && lex_nondec r end
  end.
Fixpoint nodup_idx (l : list idx) : bool :=
  match l with [] => true | a :: r => negb (existsb (idx_eqb a) r) && nodup_idx r end.
Definition tag_ctor (c : ctor_case) : Z :=
  let '(fl, coords, data, sh, fill, r) := c in
  let '(s, d, p) := fl in
  if s && negb (lex_nondec coords) then 1
  else if negb d && negb (nodup_idx coords) then 2 else 0.

(* ------------------------------------------------------------------ (c) csr @ csr *)

Definition gcxs_eqb (a b : gcxs Z) : bool :=
  zl_eqb (g_shape a) (g_shape b) && zl_eqb (g_caxes a) (g_caxes b) && zl_eqb (g_data a) (g_data b)
  && zl_eqb (g_indices a) (g_indices b) && zl_eqb (g_indptr a) (g_indptr b) && (g_fill a =? g_fill b).

(* (a, b with compressed axis 0, what a @ b returned) *)
Definition csr_case := (gcxs Z * gcxs Z * sarr)%type.

(* 0 ok | 1 other raw arrays than the kernel model + GCXS._prune | 2 not a GCXS *)
Definition judge_csr (c : csr_case) : Z :=
  let '(a, b, r) := c in
  match r with
  | SGcxs g => if gcxs_eqb (gcxs_prune2 (dot_csr_csr a b)) g then 0 else 1
  | _ => 2
  end.

(* ------------------------------------------------------------------ (d') csc @ ndarray with a GCXS result *)

(* (a with compressed axis 1, the columns of the dense b, what tensordot(a, b, return_type=GCXS) returned) *)
Definition cscnd_case := (gcxs Z * list (list Z) * sarr)%type.

Definition judge_cscnd (c : cscnd_case) : Z :=
  let '(a, bcols, r) := c in
  match r with
  | SGcxs g => if gcxs_eqb (gcxs_prune2 (dot_csc_ndarray a bcols)) g then 0 else 1
  | _ => 2
  end.
