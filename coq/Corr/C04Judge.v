(* Corr/C04Judge.v — verdict functions of the C04 correspondence (products and contractions).
   Kernel level: the typed numba kernels called on raw arrays, against Model/Dot.v (exact output,
   order of the indices included) and against Spec/NpDot.v.  API level: sparse.dot / matmul / @ /
   tensordot / einsum / vecdot / kron / outer against NumPy's answer on the densified operands,
   against the Spec evaluated here (2-d products), and against the model's exact GCXS
   representation where the model reaches (GCXS x GCXS). *)
From Coq Require Import ZArith List Bool.
From Verif Require Import Py Shape COO GCXS Judge SArr NpDot Dot.
Import ListNotations.
Open Scope Z_scope.

Definition zdot_csr_csr := dot_csr_csr Z 0 Z.add Z.mul.
Definition zdot_coo_coo := dot_coo_coo Z 0 Z.add Z.mul.
Definition zdot_coo_ndarray := dot_coo_ndarray Z 0 Z.add Z.mul.
Definition zprune := prune_csr Z 0 Z.eqb.
Definition zmatmul2 := np_matmul2 Z 0 Z.add Z.mul.

Definition gcxs_eqb (a b : gcxs Z) : bool :=
  zl_eqb (g_shape a) (g_shape b) && zl_eqb (g_caxes a) (g_caxes b) && zl_eqb (g_data a) (g_data b)
  && zl_eqb (g_indices a) (g_indices b) && zl_eqb (g_indptr a) (g_indptr b) && (g_fill a =? g_fill b).

Definition sarr_eqb (a b : sarr) : bool :=
  match a, b with
  | SCoo x, SCoo y => coo_eqb x y
  | SGcxs x, SGcxs y => gcxs_eqb x y
  | SDense x, SDense y => zl_eqb (d_shape x) (d_shape y) && zl_eqb (d_flat x) (d_flat y)
  | SScalar x, SScalar y => x =? y
  | SExc x, SExc y => exc_eqb x y
  | SHang, SHang => true
  | _, _ => false
  end.

(* dense matrix given row-major *)
Definition mat_fn (n_col : Z) (flat : list Z) : Z -> Z -> Z := fun i j => znth flat (i * n_col + j) 0.
Definition dshape2 (d : dense Z) : Z * Z :=
  match d_shape d with [m; n] => (m, n) | _ => (0, 0) end.

(* the canonical CSR triple of a dense matrix: stored = non-zero, rows in order, columns ascending *)
Definition csr_of_mat (m n : Z) (f : Z -> Z -> Z) : csr Z :=
  let cells := flat_map (fun i => map (fun j => (i, j, f i j)) (zrange n)) (zrange m) in
  let kept := filter (fun c => negb (snd c =? 0)) cells in
  mkCSR (map snd kept) (map (fun c => snd (fst c)) kept)
        (map (fun r => Z.of_nat (length (filter (fun c => fst (fst c) <? r) kept))) (zrange (m + 1))).

Definition csr_to_mat (a : csr Z) : Z -> Z -> Z := csr_den Z 0 a.

(* ---------------------------------------------------------------- kernel level *)
Inductive kinput :=
| KinCsrCsr (n_row n_col : Z) (a b : csr Z) (count : Z)   (* count: what _csr_csr_count_nnz returned *)
| KinCooCoo (n_row n_col : Z) (a b : csr Z)               (* COO operands as (data, coords[1], indptr) *)
| KinCooNd (rows cols data : list Z) (array2 : dense Z) (out_rows out_cols : Z)
| KinCscNdSparse (m n p : Z) (a : csr Z) (b : dense Z)     (* a: CSC triple of the m x n left operand *)
| KinCsrNd (sp : bool) (m p : Z) (a : csr Z) (b : dense Z)        (* _dot_csr_ndarray / _sparse; a: CSR triple *)
| KinCscNd (m n p : Z) (a : csr Z) (b : dense Z)                  (* _dot_csc_ndarray; a: CSC triple *)
| KinNdCoo (m n p : Z) (a1 : dense Z) (r2 c2 d2 : list Z)         (* _dot_ndarray_coo; cells of b *)
| KinNdCooSp (m n p : Z) (a1 : dense Z) (c2 r2 d2 : list Z)       (* _dot_ndarray_coo_sparse; cells of b.T *)
| KinCooNdSp (rows cols data : list Z) (array2 : dense Z) (out_rows out_cols : Z)
| KinSpec (a b : dense Z).                                (* kernels compared with the Spec only *)

Definition kres_csr_sarr (n_row n_col : Z) (r : kres (csr Z)) : sarr :=
  match r with
  | KOk m => SGcxs (mkGCXS [n_row; n_col] [0] (m_data m) (m_indices m) (m_indptr m) 0)
  | KFuel => SHang
  | _ => SOther
  end.

Definition spec_flat (a b : dense Z) : shape * list Z :=
  let '(m, n) := dshape2 a in
  let '(_, p) := dshape2 b in
  ([m; p], mat_flat Z m p (zmatmul2 n (mat_fn n (d_flat a)) (mat_fn p (d_flat b)))).

Definition same_as_spec (impl : sarr) (sp : shape * list Z) : bool :=
  sarr_same_dense impl (fst sp) (snd sp).

(* dense inputs of a CSR pair *)
Definition csr_dense (n_row n_col : Z) (a : csr Z) : dense Z :=
  mkDense [n_row; n_col] (mat_flat Z n_row n_col (csr_to_mat a)).

(* 0 ok | 1 impl <> model, impl = Spec (model unfaithful) | 2 impl <> model and impl <> Spec
   | 3 the pre-count kernel differs from the model's | 4 model <> Spec although the model returned
   | 5 (Spec-only kernels) impl <> Spec
   | 6 _dot_csc_ndarray_sparse: the model ends with an unwritten buffer tail (the pre-count exceeds the
     number of cells written): the implementation returns uninitialised memory
   | 7 _dot_csc_ndarray_sparse: implementation = model = Spec, but the columns' row indices are unsorted *)
Definition judge_kernel (c : kinput * sarr) : Z :=
  let '(inp, impl) := c in
  match inp with
  | KinCsrCsr n_row n_col a b count =>
    let n_in := Z.of_nat (length (m_indptr b)) - 1 in
    let sp := spec_flat (csr_dense n_row n_in a) (csr_dense n_in n_col b) in
    let m := kres_csr_sarr n_row n_col (zdot_csr_csr n_row n_col a b) in
    if negb (count =? csr_csr_count_nnz n_row n_col (m_indices a) (m_indices b) (m_indptr a) (m_indptr b)) then 3
    else if sarr_eqb impl m then
      match m with SGcxs _ => if same_as_spec m sp then 0 else 4 | _ => 0 end
    else if same_as_spec impl sp then 1 else 2
  | KinCooCoo n_row n_col a b =>
    let n_in := Z.of_nat (length (m_indptr b)) - 1 in
    let sp := spec_flat (csr_dense n_row n_in a) (csr_dense n_in n_col b) in
    let m := match zdot_coo_coo n_row n_col a b with
             | KOk (rows, cols, data) => SCoo (mkCOO [n_row; n_col] (map (fun rc => [fst rc; snd rc]) (combine rows cols)) data 0)
             | KFuel => SHang | _ => SOther end in
    if sarr_eqb impl m then
      match m with SCoo _ => if same_as_spec m sp then 0 else 4 | _ => 0 end
    else if same_as_spec impl sp then 1 else 2
  | KinCooNd rows cols data array2 out_rows out_cols =>
    let '(_, n_in) := dshape2 array2 in
    let a2 := mat_fn n_in (d_flat array2) in
    (* fuel: the bound of the termination theorem, nnz + 1 *)
    let m := match zdot_coo_ndarray (S (length data)) rows cols data a2 out_cols with
             | KOk o => SDense (mkDense [out_rows; out_cols] (tab2 Z out_rows out_cols o))
             | KFuel => SHang | _ => SOther end in
    if sarr_eqb impl m then 0
    else match impl with SDense _ | SHang => 2 | _ => 1 end
  | KinCscNdSparse m n p a b =>
    let sp := spec_flat (mkDense [m; n] (mat_flat Z m n (fun i j => csr_to_mat a j i))) b in
    match dot_csc_ndarray_sparse Z 0 Z.add Z.mul Z.eqb m n p a (mat_fn p (d_flat b)) with
    | KOk r =>
      let g := mkGCXS [m; p] [1] (m_data r) (m_indices r) (m_indptr r) 0 in
      if sarr_eqb impl (SGcxs g) then
        if negb (same_as_spec impl sp) then 4 else if gcxs_wfb g then 0 else 7
      else if same_as_spec impl sp then 1 else 2
    | KTail => 6
    | _ => 4
    end
  | KinCsrNd sp m p a b =>
    let '(n_in, _) := dshape2 b in
    let sp_ := spec_flat (csr_dense m n_in a) b in
    let bf := mat_fn p (d_flat b) in
    let mo := if sp then
                match dot_csr_ndarray_sparse Z 0 Z.add Z.mul Z.eqb m p a bf with
                | KOk r => SGcxs (mkGCXS [m; p] [0] (m_data r) (m_indices r) (m_indptr r) 0)
                | _ => SOther end
              else SDense (mkDense [m; p] (tab2 Z m p (dot_csr_ndarray Z 0 Z.add Z.mul m p a bf))) in
    if sarr_eqb impl mo then (if same_as_spec mo sp_ then 0 else 4)
    else if same_as_spec impl sp_ then 1 else 2
  | KinCscNd m n p a b =>
    let sp_ := spec_flat (mkDense [m; n] (mat_flat Z m n (fun i j => csr_to_mat a j i))) b in
    let mo := SDense (mkDense [m; p] (tab2 Z m p (dot_csc_ndarray Z 0 Z.add Z.mul n p a (mat_fn p (d_flat b))))) in
    if sarr_eqb impl mo then (if same_as_spec mo sp_ then 0 else 4)
    else if same_as_spec impl sp_ then 1 else 2
  | KinNdCoo m n p a1 r2 c2 d2 =>
    let sp_ := spec_flat a1 (mkDense [n; p] (mat_flat Z n p (coo_cells_den Z 0 r2 c2 d2))) in
    let mo := SDense (mkDense [m; p] (tab2 Z m p (dot_ndarray_coo Z 0 Z.add Z.mul m (mat_fn n (d_flat a1)) r2 c2 d2))) in
    if sarr_eqb impl mo then (if same_as_spec mo sp_ then 0 else 4)
    else if same_as_spec impl sp_ then 1 else 2
  | KinNdCooSp m n p a1 c2 r2 d2 =>
    let sp_ := spec_flat a1 (mkDense [n; p] (mat_flat Z n p (fun r j => coo_cells_den Z 0 c2 r2 d2 j r))) in
    let o := dot_ndarray_coo_sparse Z 0 Z.add Z.mul Z.eqb m (mat_fn n (d_flat a1)) c2 r2 d2 in
    let mo := SCoo (mkCOO [m; p] (map (fun t => [fst (fst t); snd (fst t)]) o) (map snd o) 0) in
    if sarr_eqb impl mo then (if same_as_spec mo sp_ then 0 else 4)
    else if same_as_spec impl sp_ then 1 else 2
  | KinCooNdSp rows cols data array2 out_rows out_cols =>
    let '(_, n_in) := dshape2 array2 in
    let a2 := mat_fn n_in (d_flat array2) in
    let sp_ := spec_flat (mkDense [out_rows; n_in] (mat_flat Z out_rows n_in (coo_cells_den Z 0 rows cols data)))
                         (mkDense [n_in; out_cols] (mat_flat Z n_in out_cols (fun c j => a2 j c))) in
    let mo := match dot_coo_ndarray_sparse Z 0 Z.add Z.mul Z.eqb (S (length data)) rows cols data a2 out_cols with
              | KOk o => SCoo (mkCOO [out_rows; out_cols] (map (fun t => [fst (fst t); snd (fst t)]) o) (map snd o) 0)
              | KFuel => SHang | _ => SOther end in
    if sarr_eqb impl mo then (match mo with SCoo _ => if same_as_spec mo sp_ then 0 else 4 | _ => 0 end)
    else if same_as_spec impl sp_ then 1 else 2
  | KinSpec a b => if same_as_spec impl (spec_flat a b) then 0 else 5
  end.

(* ---------------------------------------------------------------- API level *)
(* flags: 0 differential only (NumPy's answer is the oracle) | 1 2-d x 2-d product: the Spec is
   evaluated here from a and b | 2 / 3 as 1, and the model's exact GCXS result with compressed
   axes (0,) / (1,) must be what the implementation returned.
   kindreq: 0 any | 1 COO | 2 GCXS | 3 ndarray or scalar | 4 any sparse array. *)
Definition acase := (Z * dense Z * dense Z * Z * sarr * sarr)%type.

Definition kind_ok (kindreq : Z) (r : sarr) : bool :=
  match kindreq, r with
  | 0, _ => true
  | 1, SCoo _ => true
  | 2, SGcxs _ => true
  | 3, (SDense _ | SScalar _) => true
  | 4, (SCoo _ | SGcxs _ | SScalar _) => true
  | _, _ => false
  end.

Definition mat_t (f : Z -> Z -> Z) : Z -> Z -> Z := fun i j => f j i.

(* the GCXS x GCXS path of _dot on canonical operands, both with compressed axes ca *)
Definition model_gcxs2 (ca : bool) (a b : dense Z) : sarr :=
  let '(m, n) := dshape2 a in
  let '(_, p) := dshape2 b in
  let fa := mat_fn n (d_flat a) in
  let fb := mat_fn p (d_flat b) in
  if ca then
    (* csc @ csc: _dot_csr_csr(out_shape[::-1], b..., a...) on the CSR triples of b.T and a.T *)
    match zdot_csr_csr p m (csr_of_mat p n (mat_t fb)) (csr_of_mat n m (mat_t fa)) with
    | KOk r => let q := zprune p r in SGcxs (mkGCXS [m; p] [1] (m_data q) (m_indices q) (m_indptr q) 0)
    | KFuel => SHang | _ => SOther end
  else
    match zdot_csr_csr m p (csr_of_mat m n fa) (csr_of_mat n p fb) with
    | KOk r => let q := zprune m r in SGcxs (mkGCXS [m; p] [0] (m_data q) (m_indices q) (m_indptr q) 0)
    | KFuel => SHang | _ => SOther end.

Definition is_exc (r : sarr) : bool := match r with SExc _ => true | _ => false end.

(* 0 ok
   10 never returned | 11 ZeroDivisionError where NumPy returns | 12 another exception where NumPy
   returns | 13 returned where NumPy raises
   20 shape or values differ from NumPy's | 22 the Spec (evaluated here) differs from NumPy's answer
   | 23 values differ from the Spec
   15 result not in canonical form | 16 result stores explicit zeros | 14 result kind not the requested one
   30 representation differs from the model's (values agree with the Spec) *)
Definition judge_api (c : acase) : Z :=
  let '(flags, a, b, kindreq, npres, impl) := c in
  match impl with
  | SHang => 10
  | SExc e =>
    if is_exc npres then 0
    else if exc_eqb e ZeroDivisionError then 11 else 12
  | SOther => 12
  | _ =>
    if is_exc npres then 13
    else
      match sarr_shape npres, sarr_flat npres with
      | Some sh, Some fl =>
        if negb (sarr_same_dense impl sh fl) then 20
        else if (1 <=? flags) && negb (let sp := spec_flat a b in zl_eqb (fst sp) sh && zl_eqb (snd sp) fl) then 22
        else if negb (sarr_wfb impl) then 15
        else if negb (sarr_prunedb impl) then 16
        else if negb (kind_ok kindreq impl) then 14
        else if (2 <=? flags) && negb (sarr_eqb impl (model_gcxs2 (flags =? 3) a b)) then 30
        else 0
      | _, _ => 22
      end
  end.

(* ---------------------------------------------------------------- einsum with one operand *)
(* (lhs labels, rhs labels, operand, NumPy's answer, implementation's answer):
   0 ok | 22 Spec (np_einsum1, evaluated here) <> NumPy | 20 implementation <> NumPy | 10/12 hang / exception *)
Definition ecase := (list Z * list Z * dense Z * sarr * sarr)%type.
Definition judge_einsum1 (c : ecase) : Z :=
  let '(lhs, rhs, a, npres, impl) := c in
  let arr_a := mkArr (d_shape a) (fun ix => znth (d_flat a) (ravel (d_shape a) ix) 0) in
  let r := np_einsum1 Z 0 Z.add lhs rhs arr_a in
  let spec_flat := map (a_at r) (all_indices (a_shape r)) in
  match impl with
  | SHang => 10
  | SExc _ | SOther => if is_exc npres then 0 else 12
  | _ =>
    if negb (sarr_same_dense npres (a_shape r) spec_flat) then 22
    else if negb (sarr_same_dense impl (a_shape r) spec_flat) then 20 else 0
  end.
