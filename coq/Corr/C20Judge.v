(* Corr/C20Judge.v — verdict functions of the C20 correspondence (evaluated by vm_compute on the
   implementation's concrete outputs).  No proofs here. *)
From Coq Require Import ZArith List Bool.
From Verif Require Import Py Shape S_mlir Mlir Judge.
Import ListNotations.
Open Scope Z_scope.

(* ---------------------------------------------------------------- formats as literals *)
(* (levels as (format code, property bits), order, pos_width, crd_width); codes 0 dense 1 compressed 2 singleton *)
Definition fmt_lit := (list (Z * Z) * list Z * Z * Z)%type.

Definition lvl_of (c : Z) : lvlfmt := if c =? 0 then LDense else if c =? 1 then LCompressed else LSingleton.
Definition code_of (l : lvlfmt) : Z := match l with LDense => 0 | LCompressed => 1 | LSingleton => 2 end.
Definition fmt_of (x : fmt_lit) : cformat :=
  let '(lv, o, p, c) := x in mkFmt (map (fun lp => mkLevel (lvl_of (fst lp)) (snd lp)) lv) o p c.
Definition fmt_eqb (f : cformat) (x : fmt_lit) : bool :=
  let '(lv, o, p, c) := x in
  list_eqb (fun (a b : Z * Z) => (fst a =? fst b) && (snd a =? snd b))
           (map (fun l => (code_of (l_fmt l), l_props l)) (f_levels f)) lv
  && zl_eqb (f_order f) o && (f_pos f =? p) && (f_crd f =? c).

(* direct call of formats._determine_format: (operand formats, union, out_ndim, impl result, impl exception:
   0 none, 1 ValueError, 2 anything else) *)
Definition detfmt_case := (list fmt_lit * bool * option nat * option fmt_lit * Z)%type.

(* 0 agree | 1 the model's format differs from the implementation's | 2 one raises and the other does not /
   different exception class | 3 the implementation returned a format that is not well formed *)
Definition judge_detfmt (c : detfmt_case) : Z :=
  let '(fs, union, on, r, e) := c in
  match determine_format (map fmt_of fs) union on, r with
  | Ok f, Some x => if negb (fmt_wfb (fmt_of x)) then 3 else if fmt_eqb f x then 0 else 1
  | Raise ValueError, None => if e =? 1 then 0 else 2
  | Raise _, None => if e =? 2 then 0 else 2
  | _, _ => 2
  end.

(* the format an operation chose: (0 add | 1 reshape, operand formats, new rank, result format) *)
Definition opfmt_case := (Z * list fmt_lit * nat * fmt_lit)%type.
Definition judge_opfmt (c : opfmt_case) : Z :=
  let '(op, fs, nd, r) := c in
  let m := if op =? 0 then
             match fs with [a; b] => add_format (fmt_of a) (fmt_of b) | _ => Raise OtherError end
           else match fs with [a] => reshape_format (fmt_of a) nd | _ => Raise OtherError end in
  match m with Ok f => if fmt_eqb f r then 0 else 1 | Raise _ => 2 end.

(* ---------------------------------------------------------------- constituent arrays vs dense meaning *)
(* (level codes, order, shape, index arrays in field order, values, expected dense array in C order) *)
Definition layout_case := (list Z * list Z * list Z * list (list Z) * list Z * list Z)%type.

Definition sum_at (es : list (idx * Z)) (ix : idx) : Z :=
  fold_left (fun acc e => if idx_eqb (fst e) ix then acc + snd e else acc) es 0.

(* 0 the arrays denote the expected dense array
   1 the number/kind of arrays does not fit the level list (model of Storage._fields_ unfaithful)
   2 a coordinate outside the shape, or a position outside `values`
   3 the denoted array differs from the expected one
   4 the number of arrays differs from fields_of_levels *)
Definition judge_layout (c : layout_case) : Z :=
  let '(lv, order, sh, arrs, data, expected) := c in
  let lvs := map lvl_of lv in
  if negb (Nat.eqb (length (fields_of_levels lvs)) (S (length arrs))) then 4 else
  match assemble lvs (lvl_shape order sh) arrs with
  | None => 1
  | Some st =>
    let w := walk st 0 in
    if negb (forallb (fun e => Shape.in_rangeb sh (to_dims order (fst e))
                               && (0 <=? snd e) && (snd e <? Z.of_nat (length data))) w) then 2
    else
      let es := map (fun e => (to_dims order (fst e), nthd 0 data (snd e))) w in
      if zl_eqb (map (sum_at es) (all_indices sh)) expected then 0 else 3
  end.

(* the same for arrays too large to densify (extents up to 2^31 and beyond): the expected array is given by
   its nonzero entries [(index tuple, value)], without repeats.
   0 ok | 1/4 as above | 2 a coordinate outside the shape or a position outside `values`
   3 the stored nonzero entries are not exactly the expected ones *)
Definition sparse_case := (list Z * list Z * list Z * list (list Z) * list Z * list (list Z * Z))%type.

Definition entry_in (es : list (idx * Z)) (e : idx * Z) : bool :=
  existsb (fun x => idx_eqb (fst x) (fst e) && (snd x =? snd e)) es.

Definition judge_sparse (c : sparse_case) : Z :=
  let '(lv, order, sh, arrs, data, expected) := c in
  let lvs := map lvl_of lv in
  if negb (Nat.eqb (length (fields_of_levels lvs)) (S (length arrs))) then 4 else
  match assemble lvs (lvl_shape order sh) arrs with
  | None => 1
  | Some st =>
    let w := walk st 0 in
    if negb (forallb (fun e => Shape.in_rangeb sh (to_dims order (fst e))
                               && (0 <=? snd e) && (snd e <? Z.of_nat (length data))) w) then 2
    else
      let es := map (fun e => (to_dims order (fst e), nthd 0 data (snd e))) w in
      (* merge repeated coordinates, drop explicit zeros *)
      let merged := filter (fun e => negb (snd e =? 0)) (map (fun e => (fst e, sum_at es (fst e))) es) in
      if forallb (entry_in expected) merged && forallb (entry_in merged) expected then 0 else 3
  end.

(* ---------------------------------------------------------------- to_numpy *)
(* (order, array shape, stored values, shape of to_numpy's result, its elements in C order) *)
Definition tonumpy_case := (list Z * list Z * list Z * list Z * list Z)%type.

(* 0 ok | 1 the model of to_numpy disagrees with the implementation (shape or elements)
   2 the result is not the array MLIR stores *)
Definition judge_tonumpy (c : tonumpy_case) : Z :=
  let '(order, sh, data, rsh, rflat) := c in
  let msh := to_numpy_shape order sh in
  let model_ok :=
      zl_eqb msh rsh &&
      zl_eqb (map (fun ix => nthd 0 data (to_numpy_pos order sh ix)) (all_indices rsh)) rflat in
  let spec_ok :=
      zl_eqb sh rsh &&
      zl_eqb (map (fun ix => nthd 0 data (dense_pos order sh ix)) (all_indices sh)) rflat in
  if negb model_ok then 1
  else if spec_ok then 0 else 2.

(* ---------------------------------------------------------------- lifetimes *)
Inductive instr :=
| INp (x : nat)                                 (* x = a fresh ndarray *)
| ISps (x : nat) (k : nat)                      (* x = a SciPy container holding k fresh ndarrays *)
| IAsarray (d x : nat)                          (* d = asarray(ndarray x) *)
| IAsarraySps (d x : nat) (coo : bool)          (* d = asarray(scipy x); coo: a fresh local `pos` array *)
| IOp (op : opk) (d : nat) (args : list nat) (nb : nat) (tmp : bool)
                                                (* d = op(args); nb result arrays; tmp: reshape's shape array *)
| ISame (d a : nat)                             (* d = a.asformat(a.format) *)
| IToNumpy (d a : nat)                          (* d = to_numpy(a) *)
| IArrays (d a : nat) (n : nat) (drop_first : bool)
                                                (* d = a.get_constituent_arrays() / to_scipy(a) (coo drops pos) *)
| ICopy (d a : nat) (n : nat)                   (* d = a.copy() *)
| IDel (x : nat).

Definition env := list (nat * list nat).
Definition lookup (e : env) (x : nat) : list nat :=
  match find (fun p => Nat.eqb (fst p) x) e with Some p => snd p | None => [] end.
Definition hd0 (l : list nat) : nat := hd 0%nat l.
Definition unset (e : env) (x : nat) : env := filter (fun p => negb (Nat.eqb (fst p) x)) e.

Fixpoint root_index (l : list nat) (id : nat) : nat :=
  match l with [] => 0%nat | r :: t => if Nat.eqb r id then 0%nat else S (root_index t id) end.

Definition drop_root (c : cfg) (s : state) (id : nat) : state :=
  if memn id (s_roots s) then step c s (EDel (root_index (s_roots s) id)) else s.
Definition newroot (s : state) : nat := hd0 (s_roots s).

(* what CPython's reference counting destroys: every live object unreachable from the held references *)
Fixpoint close (s : state) (fuel : nat) (m : list nat) : list nat :=
  match fuel with
  | O => m
  | S f => close s f (fold_left (fun acc r => if memn r acc then acc else r :: acc)
                                (flat_map (fun i => o_refs (get s i)) m) m)
  end.
Definition gc_set (s : state) : list nat :=
  let m := close s (nobj s) (fold_left (fun acc r => if memn r acc then acc else r :: acc) (s_roots s) []) in
  filter (fun i => liveb s i && negb (memn i m)) (seq 0 (nobj s)).
Definition collect (c : cfg) (s : state) : state := step c s (ECollect (gc_set s)).

(* asarray of an ndarray already held as root a: np.ascontiguousarray(a).reshape(-1) is a view of a *)
Definition do_from_numpy (c : cfg) (s : state) (a : nat) : state * nat :=
  let s1 := step c s (EDerive a) in let w := newroot s1 in
  let s2 := step c s1 (EFromArrays [w]) in let st := newroot s2 in
  let s3 := step c s2 (EWrap st) in let ar := newroot s3 in
  (drop_root c (drop_root c s3 st) w, ar).

Definition get_views (c : cfg) (s : state) (a : nat) (n : nat) : state * list nat :=
  fold_left (fun sv k => let s' := step c (fst sv) (EGetView a k) in (s', snd sv ++ [newroot s']))
            (seq 0 n) (s, []).

Definition exec (c : cfg) (se : state * env) (i : instr) : state * env :=
  let '(s, e) := se in
  let '(s', e') :=
    match i with
    | INp x => let s1 := step c s ENewNumpy in (s1, (x, [newroot s1]) :: e)
    | ISps x k =>
      let '(s1, ids) := fold_left (fun sv _ => let s' := step c (fst sv) ENewNumpy in (s', snd sv ++ [newroot s']))
                                  (seq 0 k) (s, []) in
      (s1, (x, ids) :: e)
    | IAsarray d x => let '(s1, ar) := do_from_numpy c s (hd0 (lookup e x)) in (s1, (d, [ar]) :: e)
    | IAsarraySps d x coo =>
      let s0 := if coo then step c s ENewNumpy else s in
      let p := newroot s0 in
      let srcs := (if coo then [p] else []) ++ lookup e x in
      let s2 := step c s0 (EFromArrays srcs) in let st := newroot s2 in
      let s3 := step c s2 (EWrap st) in let ar := newroot s3 in
      let s4 := drop_root c s3 st in
      ((if coo then drop_root c s4 p else s4), (d, [ar]) :: e)
    | IOp op d args nb tmp =>
      let ids := map (fun x => hd0 (lookup e x)) args in
      if tmp then
        let s1 := step c s ENewNumpy in let t := newroot s1 in
        let '(s2, ta) := do_from_numpy c s1 t in
        let s3 := step c s2 (EOp op (ids ++ [ta]) nb) in let rs := newroot s3 in
        let s4 := step c s3 (EWrap rs) in let ra := newroot s4 in
        (drop_root c (drop_root c (drop_root c s4 rs) ta) t, (d, [ra]) :: e)
      else
        let s3 := step c s (EOp op ids nb) in let rs := newroot s3 in
        let s4 := step c s3 (EWrap rs) in let ra := newroot s4 in
        (drop_root c s4 rs, (d, [ra]) :: e)
    | ISame d a => let id := hd0 (lookup e a) in (step c s (EAlias id), (d, [id]) :: e)
    | IToNumpy d a =>
      let s1 := step c s (EGetView (hd0 (lookup e a)) 0) in let v := newroot s1 in
      (* data.reshape(..).transpose(..): for a wrapped dtype NumPy collapses the base past `data` *)
      let s2 := step c s1 (if c_wrapped c then ECollapse v else EDerive v) in let w := newroot s2 in
      (drop_root c s2 v, (d, [w]) :: e)
    | IArrays d a n drop_first =>
      let '(s1, vs) := get_views c s (hd0 (lookup e a)) n in
      if drop_first then (drop_root c s1 (hd0 vs), (d, tl vs) :: e) else (s1, (d, vs) :: e)
    | ICopy d a n =>
      let '(s1, vs) := get_views c s (hd0 (lookup e a)) n in
      let '(s2, cs) := fold_left (fun sv _ => let s' := step c (fst sv) ENewNumpy in (s', snd sv ++ [newroot s']))
                                 (seq 0 n) (s1, []) in
      let s3 := step c s2 (EFromArrays cs) in let st := newroot s3 in
      let s4 := step c s3 (EWrap st) in let ar := newroot s4 in
      (fold_left (drop_root c) (st :: cs ++ vs) s4, (d, [ar]) :: e)
    | IDel x => (fold_left (drop_root c) (lookup e x) s, unset e x)
    end in
  (collect c s', e').

(* buffers released by Storage.__del__ so far (one free_memref call each) *)
Definition storage_frees (s : state) : Z :=
  Z.of_nat (length (flat_map (fun d => match o_kind (get s d) with KStorage => o_frees (get s d) | _ => [] end)
                             (s_dead s))).

(* (dtype class, script, per instruction: (free_memref calls so far, some held result points into freed memory)) *)
Definition life_case := (Z * list instr * list (Z * bool))%type.

(* 0 agree, safe | 1 number of frees differs from the model | 2 the implementation leaves a held result
   over freed memory where the model (hence the theorem) says safe | 3 the same where the model also
   predicts it (wrapped dtype: clause wrapped_dtype_view) | 4 the model predicts a dangling result, the
   implementation shows none | 5 observation list and script have different lengths *)
Fixpoint judge_life_go (c : cfg) (se : state * env) (is : list instr) (obs : list (Z * bool)) : Z :=
  match is, obs with
  | [], [] => 0
  | i :: is', (fr, dang) :: obs' =>
    let se' := exec c se i in
    let msafe := safeb (fst se') in
    if dang && msafe then 2
    else if dang && negb msafe then 3
    else if negb dang && negb msafe then 4
    else if negb (storage_frees (fst se') =? fr) then 1
    else judge_life_go c se' is' obs'
  | _, _ => 5
  end.
Definition judge_life (c : life_case) : Z :=
  let '(dt, is, obs) := c in judge_life_go (site_cfg (wrapped_dtype dt)) (init, []) is obs.

(* does the model predict a dangling result somewhere in the script?  (1 yes, 0 no) *)
Definition predict_life (c : life_case) : Z :=
  let '(dt, is, _) := c in
  let cf := site_cfg (wrapped_dtype dt) in
  if forallb (fun k => safeb (fst (fold_left (exec cf) (firstn k is) (init, [])))) (seq 0 (S (length is)))
  then 0 else 1.

(* which dtype classes get a wrapped view: (dtype class, implementation: the memref view's base is an ndarray) *)
Definition judge_wrapped (c : Z * bool) : Z :=
  if Bool.eqb (wrapped_dtype (fst c)) (snd c) then 0 else 1.
