(* Corr/C08GJudge.v — C08 correspondence, GCXS side: the implementation's raw
   (data, indices, indptr, compressed_axes, shape, fill) against Model/ShapeOpsG.v, and the
   kernels convert._convert_coords / _linearize / _c_ordering against their one-iteration models. *)
From Coq Require Import ZArith List Bool.
From Verif Require Import Py Shape COO GCXS Judge SArr Convert G_shapeops ShapeOps NpShapeOps ShapeOpsG C08Judge.
Import ListNotations.
Open Scope Z_scope.

Definition gcxs_eqb (a b : gcxs Z) : bool :=
  zl_eqb (g_shape a) (g_shape b) && zl_eqb (g_caxes a) (g_caxes b) && zl_eqb (g_data a) (g_data b)
  && zl_eqb (g_indices a) (g_indices b) && zl_eqb (g_indptr a) (g_indptr b) && (g_fill a =? g_fill b).

(* (input as a canonical COO, its compressed axes ([] below 2-d), operation, the implementation's
   input GCXS, the implementation's result) *)
Definition c08g_case := (coo Z * list Z * c08op * sarr * sarr)%type.

Definition run_gmodel (g : gcxs Z) (o : c08op) : option (res (gcxs Z)) :=
  match o with
  | OTranspose axes => Some (gcxs_transpose g axes)
  | OT => Some (gcxs_T g)
  | OMT => Some (gcxs_mT g)
  | OMove s d => Some (gcxs_moveaxis g s d)
  | OReshape new => gcxs_reshape Z.eqb Z.add g new
  | OFlatten => gcxs_flatten Z.eqb Z.add g
  | OSqueeze a => Some (gcxs_squeeze Z.eqb Z.add g a)
  | OBroadcast t => Some (gcxs_broadcast_to Z.eqb Z.add g t)
  | _ => None
  end.

(* 0 agreement (or operation/shape outside the GCXS model) | 1 the input is not _from_coo of the
   described array (harness) | 2 exception class differs | 3 raw representation differs *)
Definition judge_c08g (c : c08g_case) : Z :=
  let '(x, ca, o, inp, out) := c in
  let g := gcxs_from_coo x ca in
  match inp with
  | SGcxs gi =>
    if negb (gcxs_eqb gi g) then 1
    else match run_gmodel g o with
    | None => 0
    | Some (Raise e) => match out with SExc e' => if exc_eqb e e' then 0 else 2 | _ => 2 end
    | Some (Ok m) => match out with SGcxs r => if gcxs_eqb r m then 0 else 3 | _ => 3 end
    end
  | _ => 1
  end.

(* 1 when the case is inside the GCXS model (for the coverage count) *)
Definition tag_c08g (c : c08g_case) : Z :=
  let '(x, ca, o, _, _) := c in
  match run_gmodel (gcxs_from_coo x ca) o with None => 0 | Some (Ok _) => 1 | Some (Raise _) => 2 end.

(* ------------------------------------------------------------------ kernels *)

(* (transpose flag, linear, old_shape, reordered_shape, sorted_axis_order, axes, shape,
    new_axis_order, new_reordered_shape, new_compressed_shape, new_linear, new_coords rows, columns) *)
Definition convert_case :=
  (bool * list Z * list Z * list Z * list Z * list Z * list Z * list Z * list Z * list Z
   * list Z * list Z * list Z)%type.

Definition judge_convert_coords (c : convert_case) : Z :=
  let '(tr, linear, old_shape, rsh, sao, axes, sh, new_ord, new_rsh, new_cshape, nl, rows, cols) := c in
  let conv := map (fun n => if tr then tr_coord n rsh sao axes new_ord new_rsh new_cshape
                            else convert_coord n old_shape rsh sao sh new_ord new_rsh new_cshape) linear in
  if zl_eqb (map fst conv) nl && zl_eqb (map (fun p => znth (snd p) 0 0) conv) rows
     && zl_eqb (map (fun p => znth (snd p) 1 0) conv) cols then 0 else 1.

(* (x_indices, shape, new_axis_order, new_reordered_shape, new_compressed_shape, new_linear, rows, cols) *)
Definition linearize_case := (list Z * list Z * list Z * list Z * list Z * list Z * list Z * list Z)%type.

Definition judge_linearize (c : linearize_case) : Z :=
  let '(xs, sh, new_ord, new_rsh, new_cshape, nl, rows, cols) := c in
  let conv := map (fun n => lin_coord n sh new_ord new_rsh new_cshape) xs in
  if zl_eqb (map fst conv) nl && zl_eqb (map (fun p => znth (snd p) 0 0) conv) rows
     && zl_eqb (map (fun p => znth (snd p) 1 0) conv) cols then 0 else 1.

(* (linear, reordered_shape, sorted_axis_order, shape, c_linear) *)
Definition c_ordering_case := (list Z * list Z * list Z * list Z * list Z)%type.

Definition judge_c_ordering (c : c_ordering_case) : Z :=
  let '(linear, rsh, sao, sh, cl) := c in
  if zl_eqb (map (fun n => c_order n rsh sao sh) linear) cl then 0 else 1.

(* the functions convert._1d_reshape / convert._transpose called directly (any valid compressed axes):
   (array, its compressed axes, kind, new shape, new compressed axes, axes, returned (data, indices, indptr))
   kind 0: _1d_reshape | 1: _transpose(transpose=False), n-d result | 2: the same, 1-d result
        3: _transpose(transpose=True) with compressed_axes=(argmin(shape),) *)
Definition kfun_case := (coo Z * list Z * Z * list Z * list Z * list Z * (list Z * list Z * list Z))%type.

Definition judge_kfun (c : kfun_case) : Z :=
  let '(x, ca, kind, nsh, nca, axes, out) := c in
  let '(odata, oind, optr) := out in
  let g := gcxs_from_coo x ca in
  let m := if kind =? 0 then gcxs_reshape_1_nd g nsh nca
           else if kind =? 1 then gcxs_reshape_nd_nd g nsh nca
           else if kind =? 2 then gcxs_reshape_nd_1 g nsh
           else gcxs_transpose_nd g axes in
  if zl_eqb (g_data m) odata && zl_eqb (g_indices m) oind && zl_eqb (g_indptr m) optr then 0 else 1.
