(* Corr/C02IndexJudge.v — verdict functions of the C02 correspondence, part 2 (x[index] on COO, GCXS,
   DOK; the jitted mask and selection kernels).  Verdict code = kind + 10 * clause:
     kind   1 implementation agrees with the Spec but not with the model's representation
            2 shape or elements differ from the Spec        3 exception class / raised-or-not differs
            4 scalar-vs-0-d rule   5 fill value not kept    6 result not well-formed   7 hang   8 bad case
            9 Spec/NpIndex.v disagrees with NumPy's own answer on the dense input (Spec wrong)
     clause 0 inside the proved domain, otherwise the first failed domain clause (names in
            tools/props/c02_index.py:CLAUSES). *)
From Coq Require Import ZArith List Bool.
From Verif Require Import Py PyExt PyIndex G_slicing S_indexing PySlice Slicing Shape COO GCXS Convert NpIndex
     CooIndex GcxsIndex GcxsGetitem DokGetitem Judge SArr.
Import ListNotations.
Open Scope Z_scope.

(* ---------------------------------------------------------------- domain clauses *)
Definition fmt_coo := 0.
Definition fmt_gcxs := 1.
Definition fmt_dok := 2.

(* the entries of the expanded index with the extent each one faces *)
Fixpoint faced (sh : shape) (ix : index) : list (ientry * Z) :=
  match ix with
  | [] => []
  | INone :: r => faced sh r
  | e :: r => match sh with [] => [] | d :: sh' => (e, d) :: faced sh' r end
  end.

Definition faced_of (sh : shape) (ix : index) : list (ientry * Z) :=
  match expand (Z.of_nat (length sh)) ix with Ok ex => faced sh ex | Raise _ => [] end.

Definition slice_neg (e : ientry) : bool :=
  match e with ISlice _ _ (Some c) => c <? 0 | _ => false end.
Definition all_arrays (ix : index) : bool :=
  match ix with [] => false | _ => forallb is_iarr ix end.
Definition arr_needs_wrap (p : ientry * Z) : bool :=
  match fst p with
  | IArr l => existsb (fun i => (i <? 0) || (snd p <=? i)) l
  | IBArr _ => true
  | _ => false
  end.

Definition neg_start_or_step (sh : shape) (ix : index) : bool :=
  match normalize_index ix sh with
  | Ok nix => existsb (fun e => match e with NSlice s _ st => (s <? 0) || (st <? 0) | _ => false end) nix
  | Raise _ => false
  end.
Definition is_nil {A} (l : list A) : bool := match l with [] => true | _ => false end.

Definition clause_of (fmt : Z) (unsigned : bool) (sh : shape) (ix : index) : Z :=
  let nd2 := (2 <=? length sh)%nat in
  if negb (in_grammar ix) then 9                                          (* outside the property's grammar *)
  else if unsigned && (fmt =? fmt_gcxs) && nd2 then 3                     (* gcxs_getitem_unsigned_indices *)
  (* a 0-d / 1-d GCXS and, for ndim >= 2, every key with None delegate to COO (fix a4762ef: the former clauses
     5 — D22 —, 10 — D27 —, 11 — D28 — are repaired, a recurrence is a plain violation) *)
  else if (fmt =? fmt_gcxs) && nd2 && (1 <? countb is_iarr ix) then 4     (* D21 *)
  (* DOK: a non-empty key of index sequences that does not name every axis is refused (NotImplementedError).
     (The former DOK clauses 6 — x[()] —, 7 — D24, unnormalised fancy keys — and 8 — 0-d DOK — are repaired:
     a recurrence is a plain violation.) *)
  else if (fmt =? fmt_dok) && all_arrays ix && negb (length ix =? length sh)%nat then 16
  (* D26: all axes indexed by integers plus an Ellipsis that swallows nothing: NumPy returns a 0-d array, the
     code a scalar — COO/DOK unless the Ellipsis is the last entry; GCXS (ndim >= 2: get_single_element) always *)
  else if existsb is_ell ix && (negb (last_is_ellipsis ix) || ((fmt =? fmt_gcxs) && nd2))
          && forallb (fun e => is_iint e || is_ell e) ix
          && (countb is_iint ix =? Z.of_nat (length sh)) then 12          (* D26 *)
  else if existsb (fun p => match fst p with IBArr [] => negb (snd p =? 0) | _ => false end) (faced_of sh ix)
       then 13                                                            (* D29 *)
  else 0.

(* ---------------------------------------------------------------- expected result *)
Definition dense_at (sh : shape) (flat : list Z) (t : idx) : Z := nth (Z.to_nat (ravel sh t)) flat 0.

Inductive expected := ExpExc (e : exc) | ExpArr (sh : shape) (flat : list Z).

Definition expect (sh : shape) (flat : list Z) (ix : index) : expected :=
  match np_index sh ix with
  | Raise e => ExpExc e
  | Ok (sh', g) => ExpArr sh' (map (fun j => dense_at sh flat (g j)) (all_indices sh'))
  end.

Definition is_scalar_out (a : sarr) : bool := match a with SScalar _ => true | _ => false end.

(* kind of disagreement with the Spec (0 = agrees) *)
Definition spec_kind (input out : sarr) (sh : shape) (flat : list Z) (ix : index) : Z :=
  match out with
  | SHang => 7
  | _ =>
    match expect sh flat ix with
    | ExpExc e => match out with SExc e' => if exc_eqb e e' then 0 else 3 | _ => 3 end
    | ExpArr sh' vals =>
      match out with
      | SExc _ => 3
      | SOther => 2
      | _ =>
        if negb (sarr_same_dense out sh' vals) then 2
        else if negb (Bool.eqb (is_scalar_out out) (np_scalar sh ix)) then 4
        else if sarr_is_sparse out && negb (opt_eqb Z.eqb (sarr_fill out) (sarr_fill input)) then 5
        else if negb (sarr_wfb out) then 6
        else 0
      end
    end
  end.

(* ---------------------------------------------------------------- the model's representation *)
Definition kf_all (n : nat) : nat := 64%nat.      (* narrow on every axis *)
Definition kf_none (n : nat) : nat := 0%nat.      (* filter at once *)

Definition gres_matches (m : res (gres Z)) (out : sarr) : bool :=
  match m, out with
  | Raise e, SExc e' => exc_eqb e e'
  | Ok (GScalar v), SScalar w => v =? w
  | Ok (GArr y), SCoo y' => coo_eqb y y'
  | _, _ => false
  end.

Definition model_kind (fmt : Z) (unsigned : bool) (input out : sarr) (ix : index) : Z :=
  match input with
  | SCoo c =>
    if (fmt =? fmt_coo) && negb unsigned && canonicalb c
       && forallb (fun d => 0 <=? d) (c_shape c)
       && forallb (fun t => (length t =? length (c_shape c))%nat) (c_coords c)
    then if gres_matches (getitem kf_all c ix) out && gres_matches (getitem kf_none c ix) out then 0 else 1
    else 0
  | _ => 0
  end.

(* (format, unsigned coords?, input as the implementation holds it, index, x[index], todense()[index] by NumPy) *)
(* the GCXS wrapper: exact representation (data, indices, indptr, compressed axes, shape, fill) *)
Definition gcxs_eqb (a b : gcxs Z) : bool :=
  zl_eqb (g_shape a) (g_shape b) && zl_eqb (g_caxes a) (g_caxes b) && zl_eqb (g_data a) (g_data b)
  && zl_eqb (g_indices a) (g_indices b) && zl_eqb (g_indptr a) (g_indptr b) && (g_fill a =? g_fill b).

Definition ggres_matches (m : res (ggres Z)) (out : sarr) : bool :=
  match m, out with
  | Raise e, SExc e' => exc_eqb e e'
  | Ok (GGScalar v), SScalar w => v =? w
  | Ok (GGArr y), SGcxs y' => gcxs_eqb y y'
  | _, _ => false
  end.

Definition gmodel_kind (fmt : Z) (unsigned : bool) (input out : sarr) (ix : index) : Z :=
  match input with
  | SGcxs g =>
    if (fmt =? fmt_gcxs) && negb unsigned && gcxs_wfb g && strictly_increasing (g_caxes g)
    then if ggres_matches (gcxs_getitem Z Z.eqb Z.add kf_all g ix) out then 0 else 1
    else 0
  | _ => 0
  end.

(* the DOK wrapper: exact dict items (sorted by key), shape, fill *)
Definition items_eqb (a b : list (idx * Z)) : bool :=
  list_eqb (fun p q : idx * Z => zl_eqb (fst p) (fst q) && (snd p =? snd q)) a b.

Definition dres_matches (m : res (dres Z)) (out : sarr) : bool :=
  match m, out with
  | Raise e, SExc e' => exc_eqb e e'
  | Ok (DScalar v), SScalar w => v =? w
  | Ok (DArr sh it f), SDok sh' it' f' => zl_eqb sh sh' && items_eqb it it' && (f =? f')
  | _, _ => false
  end.

Definition dmodel_kind (fmt : Z) (input out : sarr) (ix : index) : Z :=
  match input with
  | SDok sh it f =>
    if (fmt =? fmt_dok) && forallb (fun kv => in_rangeb sh (fst kv)) it
    then if dres_matches (dok_getitem Z Z.eqb Z.add kf_all sh it f ix) out then 0 else 1
    else 0
  | _ => 0
  end.

(* RuntimeError is the model's mark for the unchecked out-of-bounds access of _compute_multi_axis_multi_mask
   (finding D30; the first loop of the kernel, so also when the index arrays are empty).  DOK.__getitem__ hands
   the key to COO.__getitem__: the same kernel runs, with the same access. *)
Definition model_oob (input : sarr) (ix : index) : bool :=
  match input with
  | SCoo c => match getitem kf_all c ix with Raise RuntimeError => true | _ => false end
  | SDok sh it f => match dok_getitem Z Z.eqb Z.add kf_all sh it f ix with Raise RuntimeError => true | _ => false end
  | _ => false
  end.

Definition gcase := (Z * bool * sarr * index * sarr * sarr)%type.

Definition judge_getitem (c : gcase) : Z :=
  let '(fmt, unsigned, input, ix, out, npout) := c in
  match sarr_shape input, sarr_flat input with
  | Some sh, Some flat =>
    (* the array being indexed must itself be in canonical / self-consistent form, however it was produced
       (clause 15: a well-formedness failure of the PRODUCER, e.g. a repeated entry inside a GCXS row) *)
    if negb (sarr_wfb input) then 6 + 10 * 15 else
    let k := spec_kind input out sh flat ix in
    let cl := clause_of fmt unsigned sh ix in
    (* the Spec itself against NumPy (kind 9), inside the grammar *)
    if in_grammar ix && negb (spec_kind input npout sh flat ix =? 0) then 9 + 10 * cl
    else if negb (k =? 0) then
      (* also: does the model reproduce the implementation's (wrong) answer?  (COO and DOK models are
         transcriptions of the whole path; + 1000 when they do not) *)
      k + 10 * cl
      + (if negb (fmt =? fmt_gcxs) && negb unsigned
            && negb ((model_kind fmt unsigned input out ix + dmodel_kind fmt input out ix) =? 0)
         then 1000 else 0)
    else
      let mk := model_kind fmt unsigned input out ix + gmodel_kind fmt unsigned input out ix + dmodel_kind fmt input out ix in
      if mk =? 0 then 0
      else if model_oob input ix then 1 + 10 * 14    (* D30: the model met an unchecked out-of-bounds access *)
      else mk + 10 * cl
  | _, _ => 8
  end.

(* branch tag of a case: 1000*format + 100*(expected outcome) + 10*(mask kind) + sorted flag
   expected outcome: 0 IndexError 1 other error 2 scalar 3 array ; mask kind (COO model, k = all axes):
   0 n/a, 1 slice, 2 list, 3 one index array, 4 several index arrays, 5 returned x itself *)
Definition tag_getitem (c : gcase) : Z :=
  let '(fmt, unsigned, input, ix, out, npout) := c in
  match sarr_shape input with
  | Some sh =>
    let o := match np_index sh ix with
             | Raise IndexError => 0 | Raise _ => 1
             | Ok _ => if np_scalar sh ix then 2 else 3 end in
    let '(mk, sf) :=
      match normalize_index ix sh with
      | Ok nix =>
        if all_full nix sh then (5, 1)
        else
          let pr := prune_indices nix sh in
          match adv_of 0 pr with
          | [] => ((match input with
                    | SCoo c => match compute_mask 64 (c_coords c) (flat_map triple_of pr) with
                                | MSlice _ _ => 1 | MList _ => 2 end
                    | _ => 0 end), if sorted_flag nix None then 1 else 0)
          | [(p, l)] => (3, if sorted_flag nix (Some (mkAdv (VInt p) 0)) then 1 else 0)
          | _ => (4, 0)
          end
      | Raise _ => (0, 0)
      end in
    1000 * fmt + 100 * o + 10 * mk + sf
  | None => -1
  end.

(* ---------------------------------------------------------------- kernel level *)
Inductive kcase :=
| KMask (pts : list idx) (inds : list triple) (is_slice : bool) (m : list Z)
| KPairs (starts stops : list Z) (c : list Z) (t : triple) (ostarts ostops : list Z) (nm : Z)
| KFilter (starts stops : list Z) (pts : list idx) (inds : list triple) (m : list Z)
| KJoin (starts stops ostarts ostops : list Z)
| KSlicing (arr_indices starts ends col : list Z) (pos cols indptr : list Z)
| KArray (arr_indices starts ends col : list Z) (pos cols indptr : list Z)
| KFlat (inds : list (list Z)) (sh : list Z) (out : list Z).

Definition natl (l : list Z) : list nat := map Z.to_nat l.
Definition zl (l : list nat) : list Z := map Z.of_nat l.
Definition mk_pairs (a b : list Z) : list (nat * nat) := combine (natl a) (natl b).

Definition mask_eqb (m : mask) (is_slice : bool) (l : list Z) : bool :=
  match m with
  | MSlice a b => is_slice && zl_eqb l [Z.of_nat a; Z.of_nat b]
  | MList p => negb is_slice && zl_eqb l (zl p)
  end.

Definition sel_eqb (r : sel (pairs * list Z)) (pos cols indptr : list Z) : bool :=
  match r with
  | SOk (ps, ip) => zl_eqb (zl (map fst ps)) pos && zl_eqb (zl (map snd ps)) cols && zl_eqb ip indptr
  | _ => false
  end.

(* 0 ok | 1 the kernel's output is not the model's (for _compute_mask: not the model's for ANY cut-over k)
   | 2 additionally the selected positions are not those of the filter spec *)
Definition judge_kernel (c : kcase) : Z :=
  match c with
  | KMask pts inds is_slice m =>
    if existsb (fun k => mask_eqb (compute_mask k pts inds) is_slice m) (seq 0 (S (length inds))) then 0
    else
      let spec := filter (fun j => match_all inds (nth j pts [])) (seq 0 (length pts)) in
      let got := if is_slice then match m with [a; b] => seq (Z.to_nat a) (Z.to_nat (b - a)) | _ => [] end
                 else natl m in
      if forallb (fun j => existsb (Nat.eqb j) got) spec && forallb (fun j => existsb (Nat.eqb j) spec) got
      then 1 else 2
  | KPairs starts stops c t ostarts ostops nm =>
    let ps := get_mask_pairs (mk_pairs starts stops) c t in
    if zl_eqb (zl (map fst ps)) ostarts && zl_eqb (zl (map snd ps)) ostops && (n_matches ps =? nm) then 0 else 1
  | KFilter starts stops pts inds m =>
    if zl_eqb (zl (filter_pairs (mk_pairs starts stops) pts inds)) m then 0 else 1
  | KJoin starts stops ostarts ostops =>
    let ps := join_adjacent_pairs (mk_pairs starts stops) in
    if zl_eqb (zl (map fst ps)) ostarts && zl_eqb (zl (map snd ps)) ostops then 0 else 1
  | KSlicing ai starts ends col pos cols indptr =>
    let rows := mk_pairs starts ends in
    if sel_eqb (slicing_selection (code_path ai rows col) ai rows col) pos cols indptr then 0 else 1
  | KArray ai starts ends col pos cols indptr =>
    if sel_eqb (array_selection ai (mk_pairs starts ends) col) pos cols indptr then 0 else 1
  | KFlat inds sh out => if zl_eqb (convert_to_flat inds sh) out then 0 else 1
  end.
