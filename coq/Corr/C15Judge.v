(* Corr/C15Judge.v — verdict functions of the C15 correspondence (tools/props/c15.py).

   Stream "prim": Lib/MachInt.v's NumPy-2 rules against real NumPy.
   Stream "op"  : every modelled coordinate computation against the implementation, run on a COO /
                  GCXS whose index arrays have the dtype t; the implementation's coordinates are
                  brought back to input order (unique data values identify the elements). *)
From Coq Require Import ZArith List Bool.
From Verif Require Import Py MachInt S_idxwidth IdxWidth Judge.
Import ListNotations.
Open Scope Z_scope.

(* ------------------------------------------------------------------ outcomes *)
Inductive iout :=
| IRows (dt : dty) (rows : list (list Z))   (* index rows and their dtype *)
| IMask (m : list bool)
| IPairs (l : list (Z * Z))
| IExc (e : exc)        (* ValueError here means: a ValueError whose message names the dtype / index type;
                           any other ValueError is passed as OtherError by the harness *)
| IHang.

Definition bl_eqb := list_eqb Bool.eqb.
Definition pair_eqb (a b : Z * Z) := (fst a =? fst b) && (snd a =? snd b).

(* same values (the dtype is not compared) *)
Definition vals_eqb (a b : iout) : bool :=
  match a, b with
  | IRows _ r1, IRows _ r2 => zll_eqb r1 r2
  | IMask m1, IMask m2 => bl_eqb m1 m2
  | IPairs l1, IPairs l2 => list_eqb pair_eqb l1 l2
  | IExc e1, IExc e2 => exc_eqb e1 e2
  | _, _ => false
  end.
(* same values and same dtype (a DInf / row-less side is not compared) *)
Definition out_eqb (a b : iout) : bool :=
  vals_eqb a b &&
  match a, b with
  | IRows d1 r1, IRows d2 _ =>
      (* an empty coordinate array is replaced by an intp one in the constructor: no dtype to compare *)
      if forallb (fun r => match r with [] => true | _ => false end) r1 && negb (match r1 with [] => true | _ => false end)
      then true
      else match d1, d2 with DInf, _ | _, DInf => true | _, _ => dty_eqb d1 d2 end
  | _, _ => true
  end.
Definition is_value_error (a : iout) : bool :=
  match a with IExc ValueError => true | _ => false end.

(* ------------------------------------------------------------------ modelled operations *)
Inductive opcase :=
| CConcat (mo : Z) (xs : list (Z * list Z))
| CFlip (n : Z) (c : list Z)
| CRoll (n sh : Z) (c : list Z)
| CRollT (rows : list (Z * Z * list Z))
| CGetitem (n start stop step : Z) (c : list Z)
| CReshape (lin shape : list Z)
| CReduce (g x : list Z)
| CTri (lower : bool) (nr : Z) (r c : list Z) (k : Z)
| CKron (l : list (list Z * Z * list Z))
| CPad (l : list (list Z * Z))
| CStack (axis0 : bool)
| CCtor (ti : ity) (mshape : Z) (c : list Z)
| CFromCoo (idx : option ity) (rows cols : Z) (lin : list Z)
| CGcxsJoin (ptrs : list (list Z * Z))
| CUncompress (indptr : list Z)
| CTranspose (R C : Z) (rc cc : list Z)
| CCanon (ndim : Z) (ps : list (Z * Z))
| CDiag (a1 a2 : list Z) (offset : Z).     (* user-supplied (linear position, data) in the given order *)   (* t of the case = dtype of x.indices *)

Definition one_row (r : res tarr) : iout :=
  match r with Ok a => IRows (tdt a) [tv a] | Raise e => IExc e end.
Definition many_rows (r : res (list tarr)) : iout :=
  match r with
  | Ok l => IRows (match l with a :: _ => tdt a | [] => DInf end) (map tv l)
  | Raise e => IExc e
  end.
Fixpoint mapM {A B} (f : A -> res B) (l : list A) : res (list B) :=
  match l with
  | [] => Ok []
  | a :: r => x <- f a ;; rest <- mapM f r ;; Ok (x :: rest)
  end.

Definition mout (d : dty) (c : opcase) : iout :=
  match c with
  | CConcat mo xs => one_row (m_concat d mo xs)
  | CFlip n x => one_row (m_flip d n x)
  | CRoll n sh x => one_row (m_roll d n sh x)
  | CRollT rows => many_rows (m_roll_tuple d rows)
  | CGetitem n start stop step x => one_row (m_getitem d n start stop step x)
  | CReshape lin shape => many_rows (m_reshape d lin shape)
  | CReduce g x => match m_grouped_sum d g x with Ok l => IPairs l | Raise e => IExc e end
  | CTri lower nr r x k =>
      match (if lower then m_tril d r x k else m_triu d r x k) with Ok m => IMask m | Raise e => IExc e end
  | CKron l => many_rows (mapM (fun p => let '(a, bs, b) := p in m_kron d a bs b) l)
  | CPad l => many_rows (mapM (fun p => m_pad d (fst p) (snd p)) l)
  | CStack axis0 =>
      match m_stack d axis0 with
      | Ok p => IRows p [[match p with DFloat => 0 | _ => 1 end]]
      | Raise e => IExc e
      end
  | CCtor ti mshape x => one_row (m_ctor (Some (DInt ti)) mshape (mkT d x))
  | CFromCoo idx rows cols lin =>
      match m_from_coo (option_map DInt idx) d rows cols lin with
      | Ok (i, p) => IRows (tdt i) [tv i; tv p]
      | Raise e => IExc e
      end
  | CGcxsJoin ptrs =>
      (* the spliced index pointer, and the row numbers uncompress_dimension derives from it *)
      match m_gcxs_join d ptrs with
      | Ok a => IRows (tdt a) [tv a; tv (m_uncompress (tdt a) (tv a))]
      | Raise e => IExc e
      end
  | CUncompress p => let a := m_uncompress d p in IRows (tdt a) [tv a]
  | CCanon ndim ps => IPairs (m_canon d ndim ps)
  | CDiag a1 a2 off => IMask (m_diagonal_mask d a1 a2 off)
  | CTranspose R C rc cc =>
      match m_transpose d R C rc cc with
      | Ok (i, p) => IRows (tdt p) [tv i; tv p]
      | Raise e => IExc e
      end
  end.

(* the proved domain and, outside it, the number of the failed clause:
   6 uint64_promotes_to_float
   (1-5, the D6 family of getitem / triu / tril, and 7, row numbers beyond the indptr dtype after a
   GCXS join, were repaired by 0a2ad47, 972d3f2 and 36b3bc9) *)
Definition failed_clause (t : ity) (c : opcase) : Z :=
  match c with
  | CKron _ | CPad _ | CStack _ => if not_u64 t then 0 else 6
  | _ => 0
  end.

(* hypotheses of the theorems that the generator is supposed to meet (9 = harness broken) *)
Definition all_in (n : Z) (c : list Z) : bool := forallb (fun x => (0 <=? x) && (x <? n)) c.
Definition pre_ok (t : ity) (c : opcase) : bool :=
  stdb t &&
  match c with
  | CGetitem n start _ step x =>
      all_in n x && (((0 <? step) && (0 <=? start) && (start <=? n)) || ((step <? 0) && (-1 <=? start) && (start <=? n)))
      && fits (DInt t) n
  | CFlip n x | CRoll n _ x => all_in n x && (1 <=? n) && fits (DInt t) n
  | CUncompress p => uncompress_clause t p        (* kernel level: the hypothesis of the partial theorem *)
  | _ => true
  end.

Definition op_case := (ity * opcase * iout)%type.

(* 0 agreement
   1 the implementation agrees with the reference semantics but not with the model's representation
   2 inside the proved domain the implementation differs from the reference semantics
   9 the case does not meet the theorem's hypotheses (harness)
   10+k outside the domain (clause k failed) the implementation differs from the reference
        semantics and does not raise the allowed ValueError
   30+k the same, and the implementation also differs from what the model predicts *)
Definition judge_op (c : op_case) : Z :=
  let '(t, oc, impl) := c in
  if negb (pre_ok t oc) then 9 else
  let mw := mout (DInt t) oc in
  let mi := mout DInf oc in
  let k := failed_clause t oc in
  if k =? 0 then
    if out_eqb impl mw then (if vals_eqb mw mi || is_value_error mw then 0 else 2)
    else if vals_eqb impl mi || is_value_error impl then 1 else 2
  else
    if vals_eqb impl mi || is_value_error impl then 0
    else if out_eqb impl mw then 10 + k else 30 + k.

(* branch tag of a case: 100 * constructor + (0 in-domain equal | 1 guard fires | 2 out of domain) *)
Definition tag_op (c : op_case) : Z :=
  let '(t, oc, _) := c in
  let ctor := match oc with
    | CConcat _ _ => 1 | CFlip _ _ => 2 | CRoll _ _ _ => 3 | CRollT _ => 4 | CGetitem _ _ _ _ _ => 5
    | CReshape _ _ => 6 | CReduce _ _ => 7 | CTri _ _ _ _ _ => 8 | CKron _ => 9 | CPad _ => 10
    | CStack _ => 11 | CCtor _ _ _ => 12 | CFromCoo _ _ _ _ => 13 | CGcxsJoin _ => 14 | CUncompress _ => 15 | CTranspose _ _ _ _ => 16 | CCanon _ _ => 17 | CDiag _ _ _ => 18 end in
  let mw := mout (DInt t) oc in
  100 * ctor + (if negb (failed_clause t oc =? 0) then 2 else if is_value_error mw then 1 else 0).

Definition judge_op_tagged (c : op_case) : Z := 1000 * tag_op c + judge_op c.

(* ------------------------------------------------------------------ MachInt's rules against NumPy *)
Inductive primcase :=
| PArrPy (op : Z) (t : ity) (a : list Z) (k : Z)       (* a <op> k, k a Python int *)
| PPyArr (op : Z) (t : ity) (k : Z) (a : list Z)       (* k <op> a *)
| PArrArr (op : Z) (t1 t2 : ity) (a b : list Z)        (* two arrays *)
| PArrNp (op : Z) (t kt : ity) (a : list Z) (k : Z)    (* a <op> np.<kt>(k) *)
| PIArrNp (op : Z) (t kt : ity) (a : list Z) (k : Z)   (* a <op>= np.<kt>(k) *)
| PAstype (t : ity) (a : list Z)                       (* np.array(a).astype(t) *)
| PCanStore (t : ity) (z : Z)
| PMinScalar (z : Z)
| PFullType (z : Z)
| PNbArrSc (op : Z) (t kt : ity) (a : list Z) (k : Z)   (* numba: a[i] <op> kt(k) *)
| PNbArrArr (op : Z) (t1 t2 : ity) (a b : list Z).      (* numba: a[i] <op> b[i] *)                                   (* np.full(1, z).dtype *)

Definition zop (op : Z) : Z -> Z -> Z :=
  if op =? 0 then Z.add else if op =? 1 then Z.sub else if op =? 2 then Z.mul
  else if op =? 3 then np_div else np_mod.

Definition pout (c : primcase) : iout :=
  match c with
  | PArrPy op t a k => one_row (arr_py (zop op) (mkT (DInt t) a) k)
  | PPyArr op t k a => one_row (py_arr (zop op) k (mkT (DInt t) a))
  | PArrArr op t1 t2 a b => one_row (arr_arr (zop op) (mkT (DInt t1) a) (mkT (DInt t2) b))
  | PArrNp op t kt a k => one_row (arr_np (zop op) (mkT (DInt t) a) kt k)
  | PIArrNp op t kt a k => one_row (iarr_np (zop op) (mkT (DInt t) a) kt k)
  | PAstype t a => one_row (Ok (astype (DInt t) (mkT DInf a)))
  | PCanStore t z => IMask [s_can_store (DInt t) z]
  | PMinScalar z => match min_scalar_type z with Some t => IRows (DInt t) [] | None => IExc OtherError end
  | PFullType z => IRows (DInt (np_int_type z)) []
  | PNbArrSc op t kt a k => let r := nb_arr_sc (zop op) (mkT (DInt t) a) kt k in IRows (tdt r) [tv r]
  | PNbArrArr op t1 t2 a b => let r := nb_arr_arr (zop op) (mkT (DInt t1) a) (mkT (DInt t2) b) in IRows (tdt r) [tv r]
  end.

(* float64 results carry exact integer values in the sweep, except for division / remainder,
   whose float semantics MachInt does not model: only the dtype is compared there *)
Definition judge_prim (c : primcase * iout) : Z :=
  let '(pc, impl) := c in
  let m := pout pc in
  match m, impl with
  | IRows DFloat _, IRows DFloat _ =>
      match pc with
      | PArrArr op _ _ _ _ | PArrNp op _ _ _ _ | PNbArrSc op _ _ _ _ | PNbArrArr op _ _ _ _ =>
          if (op <? 3) && negb (vals_eqb m impl) then 1 else 0
      | _ => 0
      end
  | _, _ => if out_eqb impl m then 0 else 1
  end.
