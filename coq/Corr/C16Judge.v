(* Corr/C16Judge.v — verdict function of the C16 correspondence.

   A case = (operands as coo Z literals, an expression over the sparse-only reference operations of
   Model/SparseOps.v describing the NumPy result, the kind of result expected, what the
   implementation returned under the address-space and time limits).  The expression is evaluated
   by vm_compute on the STORED ENTRIES only (shapes up to 10^18 logical elements); every operand and
   every intermediate is checked with [wfsb] (the hypotheses of the den-theorems), so each step of
   the oracle is an instance of a proved theorem.  The reference result is brought to canonical form
   ([canon]: verified merge sort + pruning, Props.C16.canon_den) and its RAW coords/data are compared
   with what the implementation returned ([coo_eqb]; Props.C16.canon_eq_sound: equal canonical forms
   have equal dense meaning everywhere), plus the canonical-form check of Corr/SArr.v; GCXS results of
   conversions are additionally compared array by array with [rows_of_coo]. *)
From Coq Require Import ZArith List Bool.
From Verif Require Import Py Shape COO GCXS Judge SArr PySlice SparseOps SparseOpsP.
Import ListNotations.
Open Scope Z_scope.

(* ------------------------------------------------------------------ expression language *)
Inductive ufun := UMulC (c : Z) | UAddC (c : Z) | UAbs | UNeg | USq | UNe0 | UGt0 | USign | UMaxC (c : Z) | UMinC (c : Z).
Definition ufun_eval (u : ufun) (v : Z) : Z :=
  match u with
  | UMulC c => v * c | UAddC c => v + c | UAbs => Z.abs v | UNeg => - v | USq => v * v
  | UNe0 => if v =? 0 then 0 else 1 | UGt0 => if 0 <? v then 1 else 0 | USign => Z.sgn v
  | UMaxC c => Z.max v c | UMinC c => Z.min v c
  end.

Inductive bfun := BAdd | BMul | BSub | BMax | BMin | BNe.
Definition bfun_eval (b : bfun) (v w : Z) : Z :=
  match b with
  | BAdd => v + w | BMul => v * w | BSub => v - w | BMax => Z.max v w | BMin => Z.min v w
  | BNe => if v =? w then 0 else 1
  end.

(* index entries as Python writes them *)
Inductive psel := PInt (i : Z) | PSlice (a b c : option Z).

Inductive sop :=
| OIn (n : nat)
| OMap (u : ufun) (a : sop)
| OZip (b : bfun) (a c : sop)
| OBcastMul (a c : sop)                 (* a * c, c broadcast against the shape of a; fill a = 0 *)
| OGet (sel : list psel) (a : sop)      (* one entry per axis *)
| OSum (mask : list bool) (a : sop)
| OMax (mask : list bool) (a : sop)
| OTrans (perm : list nat) (a : sop)
| OReshape (sh : shape) (a : sop)
| OConcat (axis : nat) (a c : sop)
| OStack (axis : nat) (a c : sop)
| OMatmul (a c : sop)
| OSortLast (a : sop).                  (* sort along the last axis, fill 0 (no theorem: differential only) *)

(* Python index entry -> normalised entry, on an axis of extent d (Spec/PySlice.v) *)
Definition norm_sel (d : Z) (p : psel) : option asel :=
  match p with
  | PInt i => let j := if i <? 0 then i + d else i in
              if (0 <=? j) && (j <? d) then Some (AInt j) else None
  | PSlice a b c =>
      match slice_indices a b c d with
      | Some (s, e, st) => Some (ASlice s st (range_len s e st))
      | None => None
      end
  end.

Fixpoint norm_sels (sh : shape) (ps : list psel) : option (list asel) :=
  match sh, ps with
  | [], [] => Some []
  | d :: sh', p :: ps' =>
      match norm_sel d p, norm_sels sh' ps' with
      | Some a, Some r => Some (a :: r)
      | _, _ => None
      end
  | _, _ => None
  end.

Definition guard (b : bool) (r : option (coo Z)) : option (coo Z) := if b then r else None.
(* wfsb: the hypotheses of the den-theorems (Proofs/SparseOpsP.v wfsb_spec), checked in O(n log n) *)
Definition checked (x : coo Z) : option (coo Z) := if wfsb x then Some x else None.

Definition bcast_okb (sha shc : shape) : bool :=
  (length shc <=? length sha)%nat
  && forallb (fun dd => (fst dd =? 1) || (fst dd =? snd dd))
             (combine shc (skipn (length sha - length shc) sha)).

Definition set_nth (a : nat) (v : Z) (l : list Z) : list Z := firstn a l ++ v :: skipn (S a) l.

(* --- sort along the last axis (fill 0): per fibre, negatives first, positives last *)
Fixpoint zinsert (v : Z) (l : list Z) : list Z :=
  match l with [] => [v] | a :: r => if v <=? a then v :: l else a :: zinsert v r end.
Definition zsort (l : list Z) : list Z := fold_right zinsert [] l.
Definition sp_sort_last (x : coo Z) : coo Z :=
  let ex := entries x in
  let nd := length (c_shape x) in
  let d := nth (nd - 1) (c_shape x) 0 in
  let pre (k : idx) := firstn (nd - 1) k in
  let ks := dedup (map (fun kv => pre (fst kv)) ex) in
  let es := flat_map (fun p =>
               let vals := map snd (filter (fun kv => idx_eqb (pre (fst kv)) p) ex) in
               let negs := zsort (filter (fun v => v <? 0) vals) in
               let poss := zsort (filter (fun v => 0 <? v) vals) in
               combine (map (fun i => p ++ [i]) (zrange (zlen negs))) negs
               ++ combine (map (fun i => p ++ [d - zlen poss + i]) (zrange (zlen poss))) poss) ks in
  of_entries (c_shape x) es 0.

Fixpoint eval (ins : list (coo Z)) (e : sop) : option (coo Z) :=
  match e with
  | OIn n => match nth_error ins n with Some x => checked x | None => None end
  | OMap u a =>
      match eval ins a with Some x => checked (sp_map (ufun_eval u) x) | None => None end
  | OZip b a c =>
      match eval ins a, eval ins c with
      | Some x, Some y => guard (zl_eqb (c_shape x) (c_shape y)) (checked (sp_zip (bfun_eval b) x y))
      | _, _ => None
      end
  | OBcastMul a c =>
      match eval ins a, eval ins c with
      | Some x, Some y =>
          guard ((c_fill x =? 0) && bcast_okb (c_shape x) (c_shape y))
                (checked (sp_zipl Z.mul (bcast_idx (c_shape y)) x y))
      | _, _ => None
      end
  | OGet ps a =>
      match eval ins a with
      | Some x => match norm_sels (c_shape x) ps with
                  | Some sel => guard (sel_okb sel) (checked (sp_getitem sel x))
                  | None => None
                  end
      | None => None
      end
  | OSum mask a =>
      match eval ins a with
      | Some x => guard (length mask =? length (c_shape x))%nat (checked (sp_sum mask x))
      | None => None
      end
  | OMax mask a =>
      match eval ins a with
      | Some x => guard ((length mask =? length (c_shape x))%nat && (0 <? size (red mask (c_shape x))))
                        (checked (sp_max mask x))
      | None => None
      end
  | OTrans perm a =>
      match eval ins a with
      | Some x => guard (is_permb perm (length (c_shape x))) (checked (sp_transpose perm x))
      | None => None
      end
  | OReshape sh a =>
      match eval ins a with
      | Some x => guard (forallb (fun d => 0 <=? d) sh && (size sh =? size (c_shape x)))
                        (checked (sp_reshape sh x))
      | None => None
      end
  | OConcat ax a c =>
      match eval ins a, eval ins c with
      | Some x, Some y =>
          guard ((ax <? length (c_shape x))%nat
                 && zl_eqb (set_nth ax 0 (c_shape x)) (set_nth ax 0 (c_shape y))
                 && (c_fill x =? c_fill y))
                (checked (sp_concat ax x y))
      | _, _ => None
      end
  | OStack ax a c =>
      match eval ins a, eval ins c with
      | Some x, Some y =>
          guard ((ax <=? length (c_shape x))%nat && zl_eqb (c_shape x) (c_shape y) && (c_fill x =? c_fill y))
                (checked (sp_stack ax x y))
      | _, _ => None
      end
  | OMatmul a c =>
      match eval ins a, eval ins c with
      | Some x, Some y =>
          guard ((length (c_shape x) =? 2)%nat && (length (c_shape y) =? 2)%nat
                 && (nth 1 (c_shape x) 0 =? nth 0 (c_shape y) 0) && (c_fill x =? 0) && (c_fill y =? 0))
                (checked (sp_matmul x y))
      | _, _ => None
      end
  | OSortLast a =>
      match eval ins a with
      | Some x => guard ((c_fill x =? 0) && negb (length (c_shape x) =? 0)%nat) (checked (sp_sort_last x))
      | None => None
      end
  end.

(* ------------------------------------------------------------------ verdict *)
(* kind of result expected: 0 a sparse array (any format); 1 a scalar (0-d result);
   2 a GCXS array whose compressed axes are given by the mask: raw arrays compared too *)
Inductive rkind := RSparse | RScalar | RGcxs (mask : list bool).

Definition c16_case := (list (coo Z) * sop * rkind * sarr)%type.

Definition impl_coo (a : sarr) : option (coo Z) :=
  match a with
  | SCoo c => Some c
  | SGcxs g => Some (gcxs_as_coo g)
  | SDok sh it f => Some (dok_as_coo sh it f)
  | _ => None
  end.

(* the impl's representation is self-consistent (no enumeration of the shape: sparse kinds only) *)
Definition impl_wfb (a : sarr) : bool :=
  match a with
  | SCoo _ | SGcxs _ | SDok _ _ _ => sarr_wfb a
  | _ => true
  end.

Definition mask_of_caxes (nd : nat) (ca : list Z) : list bool :=
  map (fun a => existsb (Z.eqb a) ca) (zrange (Z.of_nat nd)).

(* 0 ok | 1 the call failed or did not return (exception, MemoryError, time-out, kill)
   | 2 a dense array / other object where a sparse result is required | 3 result ill-formed
   | 4 shape or fill value differs | 5 values differ | 6 the reference could not be evaluated
   (harness or model defect) | 7 GCXS arrays differ from the reference rows (representation) *)
Definition judge_c16 (c : c16_case) : Z :=
  let '(ins, e, rk, out) := c in
  match eval ins e with
  | None => 6
  | Some m =>
    match out with
    | SExc _ | SHang => 1
    | SScalar z =>
        match rk with
        | RScalar => if negb (zl_eqb (c_shape m) []) then 4 else if den m [] =? z then 0 else 5
        | _ => 2
        end
    | SDense _ | SOther => 2
    | _ =>
      match impl_coo out with
      | None => 2
      | Some r =>
        if negb (impl_wfb out && wfsb r) then 3
        else if negb (zl_eqb (c_shape r) (c_shape m) && (c_fill r =? c_fill m)) then 4
        else if negb (coo_eqb (canon r) (canon m)) then 5
        else match rk, out with
             | RGcxs mask, SGcxs g =>
                 if negb (list_eqb Bool.eqb mask (mask_of_caxes (length (g_shape g)) (g_caxes g))) then 7
                 else let rows := rows_of_coo mask m in
                      (* used for conversions only, where the reference result m is the canonical operand
                         itself: the three arrays must be exactly its row-wise layout *)
                      if zl_eqb (g_indptr g) (indptr_of rows) && zl_eqb (g_indices g) (indices_of rows)
                         && zl_eqb (g_data g) (data_of rows) then 0 else 7
             | RGcxs _, _ => 7
             | _, _ => 0
             end
      end
    end
  end.

(* the model's own cost on the case (supporting evidence: never depends on the logical size) *)
Definition tag_c16 (c : c16_case) : Z :=
  let '(ins, e, _, _) := c in
  match eval ins e with Some m => nnz m | None => -1 end.
