(* Corr/C01Judge.v — verdict functions of the C01 correspondence (element-wise operations).
   Every judge gets the generated input AND what the implementation returned, and answers 0 when they
   agree with the model / the Spec, otherwise a small code naming the comparison that failed. *)
From Coq Require Import ZArith List Bool.
From Verif Require Import Py Shape COO GCXS NpElemwise Elemwise Judge SArr.
Import ListNotations.
Open Scope Z_scope.

(* ------------------------------------------------------------------ the function table *)
Definition b2z (b : bool) : Z := if b then 1 else 0.
Definition arg (l : list Z) (i : nat) : Z := nth i l 0.

(* np.floor_divide / np.remainder on integers: division by zero gives 0 *)
Definition np_fdiv (x y : Z) : Z := if y =? 0 then 0 else x / y.
Definition np_mod (x y : Z) : Z := if y =? 0 then 0 else x mod y.

(* (function id, parameters) -> function on the list of operand values *)
Definition ftable (fd : Z * list Z) (l : list Z) : Z :=
  let '(id, ps) := fd in
  let x := arg l 0 in let y := arg l 1 in let z := arg l 2 in let w := arg l 3 in
  match id with
  | 0 => x + y
  | 1 => x - y
  | 2 => x * y
  | 3 => Z.min x y
  | 4 => Z.max x y
  | 5 => b2z (x =? y)
  | 6 => b2z (negb (x =? y))
  | 7 => b2z (x <? y)
  | 8 => b2z (x <=? y)
  | 9 => b2z (x >? y)
  | 10 => b2z (x >=? y)
  | 11 => Z.land x y
  | 12 => Z.lor x y
  | 13 => Z.lxor x y
  | 14 => np_fdiv x y
  | 15 => np_mod x y
  | 20 => Z.abs x
  | 21 => - x
  | 22 => Z.sgn x
  | 23 => - x - 1                           (* invert *)
  | 24 => x                                 (* positive, astype int->int, round, conj, real *)
  | 25 => 0                                 (* imag, isnan, isinf of integer data *)
  | 26 => Z.min (Z.max x (arg ps 0)) (arg ps 1)      (* clip(min, max) *)
  | 27 => Z.max x (arg ps 0)                          (* clip(min=) *)
  | 28 => Z.min x (arg ps 0)                          (* clip(max=) *)
  | 29 => x * x                                       (* np.square *)
  | 30 => if x =? 0 then z else y           (* where(c, x, y) *)
  | 31 => x * y + z                         (* elemwise(lambda a, b, c: a * b + c) *)
  | 32 => Z.min (Z.max x y) z               (* np.clip(x, lo, hi) with array bounds *)
  | 33 => x + y + z
  | 34 => x + arg ps 0                      (* elemwise(lambda a: a + k) *)
  | 35 => x * y + z * w                     (* elemwise(lambda a, b, c, d: a * b + c * d) *)
  | 36 => x * y * z                         (* elemwise(lambda a, b, c: a * b * c) *)
  | _ => 0
  end.

(* ------------------------------------------------------------------ API level *)
Inductive jarg :=
| JSp (fm : afmt) (c : coo Z)        (* a sparse operand (any format) given by its canonical COO form *)
| JDn (d : dense Z)                 (* ndarray (0-d included) *)
| JSc (z : Z).                      (* Python / NumPy scalar (not an ndarray) *)

Definition jfmt (a : jarg) : afmt := match a with JSp fm _ => fm | _ => AOther end.
Definition joperand (a : jarg) : operand Z :=
  match a with JSp _ c => OSp c | JDn d => ODn d | JSc z => ODn (mkDense [] [z]) end.
Definition jscal (args : list jarg) : nat -> bool :=
  fun i => match nth_error args i with Some (JSc _) => true | _ => false end.
Definition jdense (a : jarg) : dense Z :=
  match a with JSp _ c => todense c | JDn d => d | JSc z => mkDense [] [z] end.
Definition jfill (a : jarg) (q : idx) : Z :=
  match a with JSp _ c => c_fill c | JDn d => dense_get 0 d (bcast_idx (d_shape d) q) | JSc z => z end.

(* (function, goes through _Elemwise?, operands, what the implementation returned); COO/GCXS.isnan and
   .isinf do not go through _Elemwise (they keep the operand's own format even for zero extents) *)
Definition api_case := ((Z * list Z) * bool * list jarg * sarr)%type.

Definition sort_entries (sh : shape) (coords : list idx) (data : list Z) : coo Z -> coo Z :=
  fun c0 => let es := sort_coo Z sh (combine coords data) in mkCOO sh (map fst es) (map snd es) (c_fill c0).

(* the implementation's sparse result as a COO with entries in row-major order *)
Definition sarr_sorted_coo (a : sarr) : option (coo Z) :=
  match a with
  | SCoo c => Some c
  | SGcxs g => let c := gcxs_as_coo g in Some (sort_entries (c_shape c) (c_coords c) (c_data c) c)
  | SDok sh it f => let c := dok_as_coo sh it f in Some (sort_entries sh (c_coords c) (c_data c) c)
  | _ => None
  end.

Definition fmt_ok (o : ofmt) (a : sarr) : bool :=
  match o, a with
  | OutCoo, SCoo _ => true
  | OutDok, SDok _ _ _ => true
  | OutGcxs None, SGcxs _ => true
  | OutGcxs (Some ca), SGcxs g =>
    match g_shape g with
    | [] | [_] => true                                   (* compressed axes are None below 2-d *)
    | _ => zl_eqb (g_caxes g) ca
    end
  | _, _ => false
  end.

Definition dense_eqb (a b : dense Z) : bool := zl_eqb (d_shape a) (d_shape b) && zl_eqb (d_flat a) (d_flat b).

(* does the result have the dense meaning the Spec demands (shape, every element), the fill value
   f(fills), and is it pruned? *)
Definition spec_value_ok (fd : Z * list Z) (args : list jarg) (sh : shape) (out : sarr) : bool :=
  let want := np_elemwise_dense 0 (ftable fd) (map jdense args) sh in
  sarr_same_dense out sh (d_flat want).

(* 0 ok
   1 a scipy/scalar/ndarray-only call did not raise ValueError
   2 shapes are not broadcastable (or the mix has no sparse result) but no ValueError was raised
   3 the model gives a result but the implementation raised / hung / returned something else
   4 dense-mix: the dense result differs from NumPy's
   5 dense-mix: a dense array was expected, something else came back
   6 result not canonical / not self-consistent (sarr_wfb)
   7 result values or shape differ from the Spec (NumPy on the densified operands)
   8 result fill value differs from f(fill values)
   9 result not pruned (stores a value equal to its fill value)
   10 result format differs from the model's output-format rule
   11 result agrees with the Spec but its representation differs from the model's
   12 the model itself disagrees with the Spec on this case (model/proof bug — never expected)
   13 everything above holds, but the fill value is not f(fill values of the sparse operands, scalars):
      a 0-d sparse operand is densified first, so its VALUE is used instead of its fill value *)
Definition scalars_only (args : list jarg) : bool :=
  forallb (fun a => match a with JDn d => match d_shape d with [] => true | _ => false end | _ => true end) args.
Definition property_fill (fd : Z * list Z) (args : list jarg) : Z :=
  ftable fd (map (fun a => match a with JSp _ c => c_fill c | JDn d => hd 0 (d_flat d) | JSc z => z end) args).

Definition judge_api (c : api_case) : Z :=
  let '(fd, via, args, out) := c in
  match out_format (map jfmt args) with
  | None => match out with SExc ValueError => 0 | _ => 1 end
  | Some ofm =>
    match elemwise_sc Z Z.eqb 0 (ftable fd) (jscal args) argsort (map joperand args) with
    | OutErr e => match out with SExc e' => if exc_eqb e e' then 0 else 2 | _ => 2 end
    | OutDense d =>
      match out with
      | SDense d' => if dense_eqb d d' then 0 else 4
      | SScalar z => if dense_eqb d (mkDense [] [z]) then 0 else 4
      | _ => 5
      end
    | OutSparse r =>
      if negb (sarr_is_sparse out) then 3
      else if negb (sarr_wfb out) then 6
      else if negb (spec_value_ok fd args (c_shape r) out) then
             (if spec_value_ok fd args (c_shape r) (SCoo r) then 7 else 12)
      else if negb (opt_eqb Z.eqb (sarr_fill out) (Some (c_fill r))) then 8
      else if negb (sarr_prunedb out) then 9
      else if negb (fmt_ok (if via then result_format ofm (c_shape r) else ofm) out) then 10
      else match sarr_sorted_coo out with
           | Some c' => if negb (coo_eqb c' r) then 11
                        else if scalars_only args && negb (c_fill r =? property_fill fd args) then 13 else 0
           | None => 11
           end
    end
  end.

(* same-shape binary sparse case: the written-out three-mask model equals the general one *)
Definition judge_elemwise2 (c : (Z * list Z) * coo Z * coo Z) : Z :=
  let '(fd, a, b) := c in
  match elemwise Z Z.eqb 0 (ftable fd) argsort [OSp a; OSp b] with
  | OutSparse r =>
    match c_shape a with
    | [] => 0
    | _ => if coo_eqb r (elemwise2 Z Z.eqb 0 (ftable fd) a b) then 0 else 1
    end
  | _ => 2
  end.

(* ------------------------------------------------------------------ kernel level *)
Definition nn_eqb (l1 : list (nat * nat)) (l2 : list (Z * Z)) : bool :=
  list_eqb (fun p q : Z * Z => (fst p =? fst q) && (snd p =? snd q))
           (map (fun p => (Z.of_nat (fst p), Z.of_nat (snd p))) l1) l2.

(* _match_arrays(a, b) -> (a_idx, b_idx) *)
Definition judge_match_arrays (c : list Z * list Z * list Z * list Z) : Z :=
  let '(a, b, ia, ib) := c in
  if nn_eqb (match_arrays a b) (combine ia ib) && (length ia =? length ib)%nat then 0 else 1.

Definition oparam (z : Z) : option bool := if z =? 2 then None else Some (z =? 1).

(* _get_expanded_coords_data(coords, data, params, broadcast_shape) -> (coords (as tuples), data);
   params coded 0 False / 1 True / 2 None *)
(* last component: the returned coordinate matrix has dtype intp (the model's coordinates are exact
   integers; a narrower matrix would wrap along long broadcast axes) *)
Definition judge_expand (c : list idx * list Z * list Z * shape * list idx * list Z * bool) : Z :=
  let '(coords, data, params, bsh, ocoords, odata, intp) := c in
  let '(mc, md) := expand_coords_data coords data (map oparam params) bsh in
  if negb (zll_eqb mc ocoords) then 1 else if negb (zl_eqb md odata) then 2 else if negb intp then 3 else 0.

Definition res_shape_eqb (r : res shape) (o : option shape) : bool :=
  match r, o with
  | Ok s, Some s' => zl_eqb s s'
  | Raise ValueError, None => true
  | _, _ => false
  end.

(* _get_broadcast_shape(shape1, shape2, is_result) -> shape | ValueError (None);
   third component: np.broadcast_shapes(shape1, shape2) (None = ValueError), only meaningful when
   is_result = false *)
Definition judge_broadcast2 (c : shape * shape * bool * option shape * option shape) : Z :=
  let '(s1, s2, isr, impl, np) := c in
  let m := broadcast_shape2 isr s1 s2 in
  if negb (res_shape_eqb m impl) then 1
  else if negb isr && negb (res_shape_eqb m np) then 2
  else 0.

(* _get_nary_broadcast_shape( *shapes) vs the model and vs np.broadcast_shapes *)
Definition judge_nary (c : list shape * option shape * option shape) : Z :=
  let '(shs, impl, np) := c in
  let m := nary_broadcast_shape shs in
  if negb (res_shape_eqb m impl) then 1 else if negb (res_shape_eqb m np) then 2 else 0.

(* _get_broadcast_parameters(shape, broadcast_shape), coded 0/1/2 *)
Definition judge_params (c : shape * shape * list Z) : Z :=
  let '(sh, bsh, ps) := c in
  if list_eqb (fun a b : option bool => match a, b with
                          | None, None => true
                          | Some x, Some y => Bool.eqb x y
                          | _, _ => false end) (bcast_params sh bsh) (map oparam ps) then 0 else 1.

(* _Elemwise._match_coo( *args, broadcast_shape=bsh) on canonical COO operands: the matched arrays share
   their coordinates; compared as rows (coordinate, one value per operand) up to order (np.argsort's tie
   order and the unsorted intermediates make the order unspecified) *)
Definition row_eqb (a b : idx * list Z) : bool := zl_eqb (fst a) (fst b) && zl_eqb (snd a) (snd b).
Definition judge_match_coo (c : list (coo Z) * shape * list (idx * list Z)) : Z :=
  let '(args, bsh, rows) := c in
  match match_coo Z 0 argsort args bsh with
  | Ok m => if list_eqb row_eqb (sort_rows bsh m) (sort_rows bsh rows) then 0 else 1
  | Raise _ => 2
  end.
