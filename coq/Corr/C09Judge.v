(* Corr/C09Judge.v — verdict functions of the C09 correspondence (joining and structural
   extraction).  A case carries the members / the input exactly as the implementation saw them
   (their concrete representation), the call's arguments and the implementation's concrete
   result; the judge evaluates the MODEL (Model/Join.v, Model/Extract.v at the generated flags)
   and the SPEC (Spec/NpJoin.v on the dense meaning of the inputs) and compares.

   verdict codes (shared by all judges)
     0  agreement
     1  result has the Spec's dense meaning, shape, fill and is well-formed, but its
        representation differs from the model's (model no longer faithful)       -> "representation"
     2  result differs from the Spec inside the proved domain                     -> "value"
     3  result is not a sparse array / not well-formed / wrong fill, values right -> "value"
     4  members with different fill values were not rejected with ValueError      -> "value"
    1x  result differs from the Spec outside the domain; x names the failed clause (see each judge) *)
From Coq Require Import ZArith List Bool.
From Verif Require Import Py PyExt Shape COO GCXS NpIndex CooIndex NpJoin G_join S_join Join Extract Judge SArr.
Import ListNotations.
Open Scope Z_scope.

Definition darr_of (c : coo Z) : darr Z := darr_of_coo c.

(* a member in any format as the canonical COO that `COO(x)` / `x.tocoo()` / `as_coo(x)` yields *)
Definition canon (c : coo Z) : coo Z :=
  let es := sort_by Z (ravel (c_shape c)) (entries c) in
  mkCOO (c_shape c) (map fst es) (map snd es) (c_fill c).

Definition member_coo (a : sarr) : option (coo Z) :=
  match a with
  | SCoo c => Some c
  | SGcxs g => Some (canon (gcxs_as_coo g))
  | SDok sh it f => Some (canon (dok_as_coo sh it f))
  | _ => None
  end.

Definition is_gcxs (a : sarr) : bool := match a with SGcxs _ => true | _ => false end.
Definition is_coo (a : sarr) : bool := match a with SCoo _ => true | _ => false end.
Definition is_dok (a : sarr) : bool := match a with SDok _ _ _ => true | _ => false end.

Fixpoint all_some {A} (l : list (option A)) : option (list A) :=
  match l with
  | [] => Some []
  | Some a :: r => match all_some r with Some t => Some (a :: t) | None => None end
  | None :: _ => None
  end.

Definition gcxs_eqb (a b : gcxs Z) : bool :=
  zl_eqb (g_shape a) (g_shape b) && zl_eqb (g_caxes a) (g_caxes b) && zl_eqb (g_data a) (g_data b)
  && zl_eqb (g_indices a) (g_indices b) && zl_eqb (g_indptr a) (g_indptr b) && (g_fill a =? g_fill b).

(* does the result carry the Spec's array (shape, values, fill), as a well-formed sparse array? *)
Definition values_ok (r : sarr) (s : darr Z) : bool := sarr_same_dense r (da_shape s) (da_flat s).
Definition form_ok (r : sarr) (fill : Z) : bool :=
  sarr_is_sparse r && sarr_wfb r && opt_eqb Z.eqb (sarr_fill r) (Some fill).

Definition model_coo_ok (m : res (coo Z)) (r : sarr) : bool :=
  match m, r with
  | Ok c, SCoo c' => coo_eqb c c'
  | Raise e, SExc e' => exc_eqb e e'
  | _, _ => false
  end.

Definition model_gcxs_ok (m : res (gcxs Z)) (r : sarr) : bool :=
  match m, r with
  | Ok g, SGcxs g' => gcxs_eqb g g'
  | Raise e, SExc e' => exc_eqb e e'
  | _, _ => false
  end.

(* common decision: dom = inside the proved domain; clause = code to report outside of it *)
Definition decide (dom : bool) (clause : Z) (model_ok : bool) (spec : option (darr Z)) (fill : Z) (r : sarr) : Z :=
  match spec with
  | None => (* NumPy raises: the implementation must raise too (which error is C18's business) *)
    match r with SExc _ => 0 | _ => if dom then 2 else clause end
  | Some s =>
    if values_ok r s then
      if form_ok r fill then (if model_ok then 0 else 1) else (if dom then 3 else clause)
    else if dom then 2 else clause
  end.

(* ------------------------------------------------------------------ concatenate / stack
   case: (op (0 concatenate, 1 stack), axis (None only for concatenate), compressed_axes argument,
          members as the implementation saw them, result)
   members of any format, any ndim (0-d included for stack), axis=None for concatenate; members whose
   shapes do not fit must be rejected (NumPy raises, the code raises the generated mismatch exception) *)
Definition join_case := (Z * option Z * option (list Z) * list sarr * sarr)%type.

Definition gcxs_members (ms : list sarr) : option (list (gcxs Z)) :=
  all_some (map (fun a => match a with SGcxs g => Some g | _ => None end) ms).

Definition pred1 (p : pyv -> res pyv) (a : Z) : bool :=
  match p (VInt a) with Ok v => truthy v | Raise _ => false end.

(* NumPy's own admissibility: same shapes off the axis (concatenate), identical shapes (stack) *)
Definition join_spec (op : Z) (axis : option Z) (a : coo Z) (r : list (coo Z)) : option (darr Z) :=
  let nd := Z.of_nat (length (c_shape a)) in
  if op =? 0 then
    match axis with
    | None => Some (np_concatenate_none (darr_of a) (map darr_of r))
    | Some ax => match np_norm_axis ax nd with
                 | Some k => if forallb (fun x => same_off_axis k (c_shape a) (c_shape x)) r
                             then Some (np_concatenate k (darr_of a) (map darr_of r)) else None
                 | None => None end
    end
  else
    match axis with
    | None => None
    | Some ax => match np_norm_axis ax (nd + 1) with
                 | Some k => if forallb (fun x => idx_eqb (c_shape a) (c_shape x)) r
                             then Some (np_stack k (darr_of a) (map darr_of r)) else None
                 | None => None end
    end.

Definition judge_join (c : join_case) : Z :=
  let '(op, axis, caxes, members, r) := c in
  match all_some (map member_coo members) with
  | None | Some [] => 9
  | Some (a :: rest) =>
    let ms := a :: rest in
    if negb (forallb (fun x => c_fill a =? c_fill x) ms) then
      match r with SExc ValueError => 0 | _ => 4 end
    else
      let spec := join_spec op axis a rest in
      let all_g := forallb is_gcxs members in
      (* the GCXS joiners hand low-dimensional members (after flattening for axis=None) to the COO joiner *)
      let nd_eff := match axis with None => 1 | Some _ => Z.of_nat (length (c_shape a)) end in
      let coo_path := if op =? 0 then pred1 site_gcxs_concatenate_coo_path nd_eff
                      else pred1 site_gcxs_stack_coo_path nd_eff in
      let model_ok :=
        match all_g && negb coo_path, gcxs_members members, axis with
        | true, Some gs, Some ax =>
          model_gcxs_ok (if op =? 0 then gcxs_concatenate_src Z Z.eqb 0 ax caxes gs
                         else gcxs_stack_src Z Z.eqb 0 Z.add ax caxes gs) r
        | _, _, _ =>
          model_coo_ok (if op =? 0 then coo_concatenate_src Z Z.eqb 0 Z.add axis ms
                        else match axis with
                             | Some ax => coo_stack_src Z Z.eqb 0 Z.add ax ms
                             | None => Raise TypeError end) r
        end in
      decide true 0 model_ok spec (c_fill a) r
  end.

(* ------------------------------------------------------------------ kernel level: the indptr splice
   case: ([(indptr_i, nnz_i)] of the members after change_compressed_axes((axis,)), the spliced
   indptr the implementation produced); 1 = differs from the loop model, 2 = differs from its spec *)
Definition splice_case := (list (list Z * Z) * list Z)%type.
Definition judge_splice (c : splice_case) : Z :=
  let '(ms, out) := c in
  if negb (zl_eqb (splice ms) out) then 1 else if negb (zl_eqb (splice_spec ms) out) then 2 else 0.

(* ------------------------------------------------------------------ triu / tril
   case: (which (0 triu, 1 tril), k, input, result)
   (input of any format: the functions convert with asCOO) *)
Definition tri_case := (Z * Z * sarr * sarr)%type.

Definition judge_tri (c : tri_case) : Z :=
  let '(which, k, inp, r) := c in
  match member_coo inp with
  | None => 9
  | Some x =>
    let nd := length (c_shape x) in
    let conv := if which =? 0 then site_triu_converts_input else site_tril_converts_input in
    let m := if which =? 0 then coo_triu_src Z Z.eqb 0 Z.add x k else coo_tril_src Z Z.eqb 0 Z.add x k in
    if negb conv && negb (is_coo inp) then 2 else
    if negb (c_fill x =? 0) || (nd <? 2)%nat then
      (* documented rejections (ValueError for a non-zero fill, NotImplementedError below 2-d):
         the implementation must do what the model does *)
      if model_coo_ok m r then 0 else 1
    else
      let spec := if which =? 0 then np_triu 0 k (darr_of x) else np_tril 0 k (darr_of x) in
      decide true 0 (model_coo_ok m r) (Some spec) 0 r
  end.

(* ------------------------------------------------------------------ diagonal
   case: (offset, axis1, axis2, input of any format, result); axis1, axis2 in range (equal axes: NumPy raises).
   clause 15: diagonal_nonsquare (extents of the two axes differ: documented ValueError) *)
Definition diag_case := (Z * Z * Z * sarr * sarr)%type.

Definition judge_diag (c : diag_case) : Z :=
  let '(offset, axis1, axis2, inp, r) := c in
  match member_coo inp with
  | None => 9
  | Some x =>
    let nd := Z.of_nat (length (c_shape x)) in
    match np_norm_axis axis1 nd, np_norm_axis axis2 nd with
    | Some a1, Some a2 =>
      if negb site_diagonal_converts_input && negb (is_coo inp) then 2 else
      let m := coo_diagonal_src Z Z.eqb 0 Z.add x offset axis1 axis2 in
      let model_ok := model_coo_ok m r in
      if (a1 =? a2)%nat then decide true 0 model_ok None (c_fill x) r else
      let clause := if negb (diagonal_nonsquare (c_shape x) a1 a2) then 15 else 0 in
      (* the Spec's fill is the input's fill (np.diagonal keeps every value) *)
      decide (clause =? 0) clause model_ok (Some (np_diagonal offset a1 a2 (darr_of x))) (c_fill x) r
    | _, _ => 9
    end
  end.

(* ------------------------------------------------------------------ diagonalize
   case: (axis, input, result).  A non-zero fill is rejected with ValueError (documented, as for
   triu / tril): there the implementation must do what the model does. *)
Definition diagz_case := (Z * sarr * sarr)%type.

Definition judge_diagz (c : diagz_case) : Z :=
  let '(axis, inp, r) := c in
  match member_coo inp with
  | None => 9
  | Some x =>
    match np_norm_axis axis (Z.of_nat (length (c_shape x))) with
    | None => match r with SExc _ => 0 | _ => 2 end
    | Some k =>
      let m := coo_diagonalize_src Z Z.eqb 0 Z.add x axis in
      if negb (c_fill x =? 0) then (if model_coo_ok m r then 0 else 1) else
      decide true 0 (model_coo_ok m r) (Some (np_diagonalize 0 k (darr_of x))) 0 r
    end
  end.

(* the real getitem path (Model/CooIndex.v) against the implementation's result *)
Definition model_gres_ok (m : res (gres Z)) (r : sarr) : bool :=
  match m, r with
  | Ok (GArr c), SCoo c' => coo_eqb c c'
  | Ok (GScalar v), SScalar z => v =? z
  | Raise e, SExc e' => exc_eqb e e'
  | _, _ => false
  end.

(* ------------------------------------------------------------------ take
   case: (axis or None, index list or single integer, input, result) *)
Definition take_case := (option Z * (list Z + Z) * sarr * sarr)%type.

Definition judge_take (c : take_case) : Z :=
  let '(axis, ind, inp, r) := c in
  match member_coo inp with
  | None => 9
  | Some x0 =>
    let '(x, ax) := match axis with
                    | None => (coo_flatten Z x0, 0)
                    | Some a => (x0, a) end in
    let nd := Z.of_nat (length (c_shape x)) in
    match np_norm_axis ax nd with
    | None => match r with SExc _ => 0 | _ => 2 end
    | Some k =>
      let n := nth k (c_shape x) 0 in
      let inb := fun i => (- n <=? i) && (i <? n) in
      match ind with
      | inl l =>
        if negb (forallb inb l) then match r with SExc _ => 0 | _ => 2 end else
        decide true 0 (model_coo_ok (coo_take_list Z x l ax) r
                       && model_gres_ok (coo_take_getitem_opt Z (fun _ => 1%nat) x0 (IArr l) axis) r)
               (Some (np_take_list k l (darr_of x))) (c_fill x) r
      | inr i =>
        if negb (inb i) then match r with SExc _ => 0 | _ => 2 end else
        (* a 0-d result comes back as a scalar; compare values only *)
        match r with
        | SScalar z => if (length (c_shape x) =? 1)%nat && (den x [NpJoin.wrap n i] =? z)
                       then (if model_gres_ok (coo_take_getitem_opt Z (fun _ => 1%nat) x0 (IInt i) axis) r then 0 else 1) else 2
        | _ => decide true 0 (model_coo_ok (coo_take_int Z x i ax) r
                              && model_gres_ok (coo_take_getitem_opt Z (fun _ => 1%nat) x0 (IInt i) axis) r)
                      (Some (np_take_int k i (darr_of x))) (c_fill x) r
        end
      end
    end
  end.
