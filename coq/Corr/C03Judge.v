(* Corr/C03Judge.v — verdict functions of the C03 correspondence (reductions). *)
From Coq Require Import ZArith List Bool.
From Verif Require Import Py PyExt PyReduce Shape COO GCXS Judge SArr NpReduce Reduce.
Import ListNotations.
Open Scope Z_scope.

(* one API case: ufunc code, input (SCoo canonical literal | SGcxs as the implementation built it),
   axis argument, keepdims, what the implementation returned, what NumPy returned on the dense input *)
Definition rcase := (Z * sarr * axis_arg * bool * sarr * sarr)%type.

Definition in_coo (a : sarr) : option (coo Z) :=
  match a with
  | SCoo c => if canonicalb c then Some c else None
  | SGcxs g => if gcxs_wfb g && gcxs_okb g then Some (gcxs_to_coo Z g) else None
  | _ => None
  end.

Definition out_matches_model (out : sarr) (r : res (rres Z)) : bool :=
  match r, out with
  | Ok (RScalar v), SScalar z => v =? z
  | Ok (RArr c), SCoo c' => coo_eqb c c'
  | Ok (RArr c), SGcxs g => coo_eqb c (gcxs_to_coo Z g)
  | Raise e, SExc e' => exc_eqb e e'
  | _, _ => false
  end.

Definition out_matches_spec (out : sarr) (s : res (dense Z)) : bool :=
  match s with
  | Ok d => sarr_same_dense out (d_shape d) (d_flat d)
  | Raise _ => match out with SExc ValueError | SExc IndexError => true | _ => false end
  end.

Definition admissible_z (m f : Z) : bool :=
  admissible Z Z.eqb (op_z m) (ufunc_cast m) (sup_z m) f.

(* 0 agree
   1 in the domain: implementation = Spec but <> the model's representation (model unfaithful)
   2 in the domain: implementation <> Spec                        (a failing input)
   6 in the domain: result not in canonical form
   8 inadmissible reduction: the implementation did not raise ValueError
   9 malformed input literal
   10 the Spec disagrees with NumPy on the dense input            (Spec/NpReduce.v wrong) *)
Definition judge_reduce (c : rcase) : Z :=
  let '(m, inp, ax, keepdims, out, npout) := c in
  match in_coo inp with
  | None => 9
  | Some x =>
    let isg := match inp with SGcxs _ => true | _ => false end in
    let spec := np_reduce_dense Z (op_z m) (ufunc_cast m) (ufunc_ident m) ax keepdims (todense x) 0 in
    if negb (out_matches_spec npout spec) then 10
    else if negb (admissible_z m (c_fill x)) then
      match out with SExc ValueError => 0 | _ => 8 end
    else
      let model := match inp with
                   | SGcxs g => gcxs_reduce_z m ax keepdims g
                   | _ => reduce_coo_z m ax keepdims x
                   end in
      if out_matches_model out model then
        (* the theorem says model = Spec here; if a changed source breaks that, the input is a failing one *)
        if out_matches_spec out spec then (if sarr_wfb out && sarr_prunedb out then 0 else 6)
        else 2
      else if out_matches_spec out spec then 1 else 2
  end.

(* branch tag of a case, for the coverage histogram: 10*path + kind
   path 0 coo | 1 gcxs flatten path | 2 gcxs re-compress path ; kind 0 plain | 1 super *)
Definition tag_reduce (c : rcase) : Z :=
  let '(m, inp, ax, keepdims, out, npout) := c in
  match in_coo inp with
  | None => -1
  | Some x =>
    let isg := match inp with SGcxs _ => true | _ => false end in
    let ndim := zlen (c_shape x) in
    let path := if isg then
                  match norm_axes ndim ax with
                  | Ok None => 1
                  | Ok (Some l) => if zlist_eqb (zsort l) (zrange ndim) then 1 else 2
                  | Raise _ => 2
                  end
                else 0 in
    10 * path + (if is_none (sup_z m) then 0 else 1)
  end.

(* kernel level: _grouped_reduce(data, groups, method) on raw arrays.
   (groups, data, ufunc code, Some (inv_idx, counts, result) | None = IndexError) *)
Definition kcase := (list Z * list Z * Z * option (list Z * list Z * list Z))%type.

(* 0 agree | 1 _calc_counts_invidx differs | 2 reduceat differs | 3 exception behaviour differs *)
Definition judge_kernel (c : kcase) : Z :=
  let '(groups, data, m, out) := c in
  match grouped_reduce Z (op_z m) (ufunc_cast m) 0 data groups, out with
  | Ok (r, inv, cnt), Some (inv', cnt', r') =>
    if zl_eqb inv inv' && zl_eqb cnt cnt' then (if zl_eqb r r' then 0 else 2) else 1
  | Raise IndexError, None => 0
  | _, _ => 3
  end.

(* kernel level, GCXS: GCXS._reduce_calc(method, axis) called directly on the re-compression path.
   (ufunc code, the re-compressed array x that the implementation built, (data, counts, row numbers, n_cols))
   0 agree | 1 the index-pointer arithmetic differs from Model/ReduceGcxs.v gcxs_ip_calc | 9 malformed x *)
From Verif Require Import ReduceGcxs.
Definition ipcase := (Z * sarr * (list Z * list Z * list Z * Z))%type.
Definition judge_ip (c : ipcase) : Z :=
  let '(m, xs, (data, counts, rowids, ncols)) := c in
  match xs with
  | SGcxs x =>
    if negb (gcxs_wfb x) then 9 else
    match gcxs_ip_calc Z (op_z m) (ufunc_cast m) x with
    | Ok (d, cn, ri, nc) =>
      if zl_eqb d data && zl_eqb cn counts && zl_eqb ri rowids && (nc =? ncols) then 0 else 1
    | Raise _ => 1
    end
  | _ => 9
  end.
